"""Value-flow evaluator used by C11 (local engine, candidate for promotion into sa/).

`Flow(repo, f).value(expr)` describes *how the value of an expression was computed* as a small term:

    const(value)                         a folded constant (module constants, f-strings / '+' of constants)
    leaf(name)                           something that is not computed here: 'param:x', 'self', 'global:x', 'builtin:x', 'unknown:..'
    selfattr(name)                       self.<name> (no class-level definition): the driver may continue in the stores of __init__
    call(name, recv, args, kw)           method call on `recv` (str / file / regex methods ...) or, with recv None, a function call whose
                                         name is canonical ('re.sub', 'open', 'deque', 'itertools.chain.from_iterable' -- whatever the
                                         import style; <compiled>.sub(r, s) is normalised to re.sub(pattern, r, s, flags))
    elem(v) / item(v, i) / slice / attr  an element of iterating v / v[i] / v[a:b] / v.name
    coll([(mode, v, site)])              a container built here: mode 'one' = v is an element, 'many' = all elements of v are elements
                                         (list / generator / comprehension, append / extend / += in loops, yield / yield from of a
                                         generator helper)
    alt([v, ..])                         one of several (reaching definitions, conditional expression, list concatenation)

Local names are followed through reaching definitions (so intermediate variables, renamed locals, loops vs. comprehensions and
`with ... as` are all transparent), calls of repository functions that the inliner left in place (generators, public helpers) are
evaluated in the callee with the arguments bound.  `chains(v, resolve_attr)` linearises a term into the list of operation chains
(result -> ... -> root) that a rule can then judge step by step.  Nothing of the analysed code is executed.
"""
from __future__ import annotations

import ast
from typing import Callable, Dict, List, Optional, Tuple

from .. import cfg as C
from .. import lib as L
from ..core import AnalysisError, FuncInfo, Repo
from ..inline import flatten

ADD_ONE = ("append", "add", "appendleft")
ADD_MANY = ("extend", "update", "extendleft")
PASS_CALLS = {"list", "tuple", "deque", "iter", "str"}
SHORT = {"collections.deque": "deque", "pathlib.Path": "Path", "pathlib.PurePath": "Path", "io.open": "open", "builtins.open": "open",
         "itertools.chain.from_iterable": "chain.from_iterable", "itertools.chain": "chain"}
RE_METHODS = ("sub", "subn", "findall", "finditer", "split", "match", "search", "fullmatch")


class V:
    __slots__ = ("kind", "name", "recv", "args", "kw", "value", "parts", "node", "ctx")

    def __init__(self, kind, name="", recv=None, args=(), kw=None, value=None, parts=(), node=None, ctx=None):
        self.kind, self.name, self.recv, self.args, self.kw = kind, name, recv, list(args), dict(kw or {})
        self.value, self.parts, self.node, self.ctx = value, list(parts), node, ctx

    def __repr__(self):
        if self.kind == "const":
            return f"const({self.value!r})"
        if self.kind in ("leaf", "selfattr"):
            return f"{self.kind}({self.name})"
        if self.kind == "call":
            return f"{self.recv!r}.{self.name}({', '.join(map(repr, self.args))})" if self.recv is not None else f"{self.name}({', '.join(map(repr, self.args))})"
        if self.kind in ("elem", "item", "attr", "slice"):
            return f"{self.kind}[{self.value if self.kind != 'attr' else self.name}]({self.recv!r})"
        if self.kind == "coll":
            return "coll(" + ", ".join(f"{m}:{v!r}" for m, v, _s in self.parts) + ")"
        return f"{self.kind}({', '.join(map(repr, self.parts))})"


def const_of(v: Optional[V]) -> Tuple[bool, object]:
    if v is not None and v.kind == "const":
        return True, v.value
    return False, None


def alt(vs: List[V]) -> V:
    flat: List[V] = []
    for v in vs:
        if v.kind == "alt":
            flat.extend(v.parts)
        else:
            flat.append(v)
    out, seen = [], set()
    for v in flat:
        if id(v) not in seen:
            seen.add(id(v))
            out.append(v)
    return out[0] if len(out) == 1 else V("alt", parts=out)


def elem(v: V) -> V:
    if v.kind == "alt":
        return alt([elem(x) for x in v.parts])
    if v.kind == "coll":
        return alt([x if m == "one" else elem(x) for m, x, _s in v.parts])
    if v.kind == "call" and v.recv is None:
        if v.name in PASS_CALLS and v.args:
            return elem(v.args[0])
        if v.name == "chain.from_iterable" and v.args:
            return elem(elem(v.args[0]))
        if v.name == "chain":
            return alt([elem(a) for a in v.args])
        if v.name == "map" and len(v.args) == 2 and v.args[0].kind == "leaf" and v.args[0].name.startswith("global:str."):
            return V("call", v.args[0].name[len("global:str."):], recv=elem(v.args[1]), node=v.node, ctx=v.ctx)
        if v.name == "map" and len(v.args) == 2 and v.args[0].kind == "lambda" and v.args[0].ctx is not None:
            out = v.args[0].ctx.apply_lambda(v.args[0], [elem(v.args[1])])
            if out is not None:
                return out
        if v.name == "map" and len(v.args) >= 2 and v.ctx is not None:
            out = v.ctx.apply_value(v.args[0], [elem(a) for a in v.args[1:]], v.node)
            if out is not None:
                return out
        if v.name in ("filter", "itertools.filterfalse") and len(v.args) == 2:
            return V("call", v.name, args=[v.args[0], elem(v.args[1])], node=v.node, ctx=v.ctx)
    return V("elem", recv=v, node=v.node, ctx=v.ctx)


def item(v: V, idx, node=None, ctx=None) -> V:
    if v.kind == "alt":
        return alt([item(x, idx, node, ctx) for x in v.parts])
    if v.kind == "elem" and v.recv.kind == "call" and v.recv.recv is None and v.recv.name == "enumerate" and idx == 1 and v.recv.args:
        return elem(v.recv.args[0])
    if isinstance(idx, int) and not isinstance(idx, bool):
        els = fixed_elems(v)
        if els is not None and -len(els) <= idx < len(els):
            return els[idx]          # element of a tuple / list display (a row of a constant table)
        if v.kind == "call" and v.recv is None and v.ctx is not None:
            fv = v.ctx.record_field(v, idx)
            if fv is not None:
                return fv
    if v.kind == "dict" and v.parts:
        # an entry of a dict display: the one with that constant key, any of them when the key is not known here
        hits = [x for k, x in v.parts if k.kind == "const" and idx is not None and k.value == idx and type(k.value) is type(idx)]
        if hits:
            return hits[-1]
        if idx is None or not all(k.kind == "const" for k, _x in v.parts):
            return alt([x for _k, x in v.parts])
    return V("item", recv=v, value=idx, node=node or v.node, ctx=ctx or v.ctx)


def unpacked_constant(repo: Repo, modname: str, name: str) -> Optional[ast.AST]:
    """the value expression of a module-level name that is bound by a tuple assignment `A, B = x, y` (the repository index only knows
    single-name targets)"""
    m = repo.mods.get(modname)
    if m is None:
        return None
    found = None

    def pair(t, v):
        nonlocal found
        if isinstance(t, ast.Name) and t.id == name:
            found = v
        elif isinstance(t, (ast.Tuple, ast.List)) and isinstance(v, (ast.Tuple, ast.List)) and len(t.elts) == len(v.elts) and \
                not any(isinstance(x, ast.Starred) for x in list(t.elts) + list(v.elts)):
            for a, b in zip(t.elts, v.elts):
                pair(a, b)

    for st in m.tree.body:
        if isinstance(st, ast.Assign):
            for t in st.targets:
                if isinstance(t, (ast.Tuple, ast.List)):
                    pair(t, st.value)
    return found


def record_fields(repo: Repo, modname: str, cname: str):
    """(ClassInfo, is NamedTuple) when the name denotes a record class of the repository: a NamedTuple / dataclass with annotated
    fields and no __init__ / __new__ / attribute hooks of its own; None otherwise"""
    r = repo.lookup(modname, cname) if cname.isidentifier() else None
    if r is None or r[0] != "class":
        return None
    ci = next((c for c in repo.classes.values() if c.node is r[1]), None)
    if ci is None or {"__init__", "__new__", "__post_init__", "__getattr__", "__getattribute__"} & set(ci.methods):
        return None
    named = any(b.split(".")[-1] == "NamedTuple" for b in ci.bases)
    data = any((isinstance(d, ast.Name) and d.id == "dataclass") or (isinstance(d, ast.Attribute) and d.attr == "dataclass") or
               (isinstance(d, ast.Call) and ((isinstance(d.func, ast.Name) and d.func.id == "dataclass") or (isinstance(d.func, ast.Attribute) and d.func.attr == "dataclass")))
               for d in ci.node.decorator_list)
    if not (named or (data and not ci.bases)) or not ci.fields:
        return None
    return ci, named


def strip_record_trips(repo: Repo, modname: str, path: tuple) -> tuple:
    """a provenance path without the round trips through record helpers: (.., 'kw:f:R' | 'arg<i>:R', 'attr:f' | 'item:<i>' | 'unpack:<i>', ..)
    -- a value put into field f of record R and read back from it -- is the value itself"""
    out = list(path)
    i = 0
    while i + 1 < len(out):
        a, b = out[i], out[i + 1]
        parts = a.split(":")
        field = None
        if len(parts) == 3 and parts[0] == "kw":
            rf = record_fields(repo, modname, parts[2])
            if rf is not None and parts[1] in rf[0].fields:
                field, names, named = parts[1], list(rf[0].fields), rf[1]
        elif len(parts) == 2 and parts[0].startswith("arg") and parts[0][3:].isdigit():
            rf = record_fields(repo, modname, parts[1])
            if rf is not None and int(parts[0][3:]) < len(rf[0].fields):
                names, named = list(rf[0].fields), rf[1]
                field = names[int(parts[0][3:])]
        if field is not None and (b == f"attr:{field}" or (named and b in (f"item:{names.index(field)}", f"unpack:{names.index(field)}"))):
            del out[i:i + 2]
            i = max(i - 1, 0)
            continue
        i += 1
    return tuple(out)


def fixed_elems(v: V) -> Optional[List[V]]:
    """the elements, in order, of a sequence whose length and order are fixed by the source text: a tuple / list display without
    starred parts (nothing appended later: a name with later additions evaluates to a coll with 'many' parts), a constant string,
    the items / keys / values of a dict display, zip / list / tuple / reversed / enumerate of those; None otherwise"""
    if v.kind == "coll" and isinstance(v.node, (ast.List, ast.Tuple)) and all(m == "one" for m, _x, _s in v.parts):
        return [x for _m, x, _s in v.parts]
    if v.kind == "coll" and isinstance(v.node, (ast.ListComp, ast.GeneratorExp)) and v.ctx is not None and v.value is not None:
        return v.ctx.expand_comp(v)
    if v.kind == "const" and isinstance(v.value, str):
        return [V("const", value=c, node=v.node, ctx=v.ctx) for c in v.value]
    if v.kind == "dict":
        return [k for k, _x in v.parts]
    if v.kind == "call" and v.recv is not None and v.recv.kind == "dict" and not v.args and v.name in ("items", "keys", "values"):
        if v.name == "items":
            return [V("coll", parts=[("one", k, None), ("one", x, None)], node=ast.Tuple(elts=[], ctx=ast.Load()), ctx=v.ctx) for k, x in v.recv.parts]
        return [k if v.name == "keys" else x for k, x in v.recv.parts]
    if v.kind == "call" and v.recv is None and not v.kw:
        if v.name in ("list", "tuple", "iter") and len(v.args) == 1:
            return fixed_elems(v.args[0])
        if v.name == "reversed" and len(v.args) == 1:
            els = fixed_elems(v.args[0])
            return els[::-1] if els is not None else None
        if v.name == "zip" and v.args:
            cols = [fixed_elems(a) for a in v.args]
            if all(c is not None for c in cols):
                return [V("coll", parts=[("one", x, None) for x in row], node=ast.Tuple(elts=[], ctx=ast.Load()), ctx=v.ctx) for row in zip(*cols)]
        if v.name == "enumerate" and len(v.args) == 1:
            els = fixed_elems(v.args[0])
            if els is not None:
                return [V("coll", parts=[("one", V("const", value=i, ctx=v.ctx), None), ("one", x, None)], node=ast.Tuple(elts=[], ctx=ast.Load()), ctx=v.ctx)
                        for i, x in enumerate(els)]
    return None


_SKIP = object()


class Flow:
    def __init__(self, repo: Repo, f: Optional[FuncInfo], home: Optional[FuncInfo] = None, env: Optional[Dict[str, V]] = None,
                 stack: Tuple[str, ...] = (), modname: Optional[str] = None, cls: Optional[str] = None, guards=None, valuation=None):
        """guards / valuation (an sa.lib.Guards of f and a valuation of its atoms): evaluate the flow in the world where the atoms have
        these values -- conditional expressions take the decided branch, only definitions that can reach a use along a path the
        valuation allows count"""
        self.repo, self.f = repo, f
        self.G, self.val = guards, valuation
        self._seen_under = guards.reach(valuation) if guards is not None else None
        self._valfn = guards.under(valuation, self._seen_under)[0] if guards is not None else None
        self._live_memo: Dict[Tuple[str, int], set] = {}
        self.home = home or f
        self.env = env or {}
        self.stack = stack
        self.lenv: Dict[str, V] = {}
        self.cbind: Dict[int, Dict[str, V]] = {}      # id(comprehension generator) -> values of its target names while it is expanded
        self.over: Dict[Tuple[str, int], Tuple[object, int]] = {}     # (name, def node) -> (value | _SKIP, loop head) while a loop is unrolled
        self.modname = modname if f is None else f.mod.name
        self.cls = cls if f is None else f.cls
        if f is not None:
            self.g = C.cfg_of(f.node)
            self.rd = L.rd_of(f)
            self.p = L.prov(repo, f)
            self._content: Dict[str, List[Tuple[str, ast.AST, ast.AST]]] = {}
            for nd in ast.walk(f.node):
                if isinstance(nd, ast.Call) and isinstance(nd.func, ast.Attribute) and isinstance(nd.func.value, ast.Name):
                    if nd.func.attr in ADD_ONE + ADD_MANY and len(nd.args) == 1:
                        self._content.setdefault(nd.func.value.id, []).append(("one" if nd.func.attr in ADD_ONE else "many", nd.args[0], nd))
                    elif nd.func.attr == "insert" and len(nd.args) == 2:
                        self._content.setdefault(nd.func.value.id, []).append(("one", nd.args[1], nd))

    # ------------------------------------------------------------------ public
    def value(self, e: ast.AST) -> V:
        at = None
        if self.f is not None:
            try:
                at = self.p.node_of(e)
            except KeyError:
                at = None
        return self._value_rows(e, at, frozenset(), 0)

    def _value_rows(self, e: ast.AST, at, seen: frozenset, depth: int) -> V:
        """the value of an expression of a statement; inside `for a, b in <table fixed by the source text>:` it is evaluated once per
        row with the loop variables bound together (a row's handler is applied to that row's datum, not to every row's)"""
        if self.f is None or at is None or depth > 40:
            return self._value(e, at, seen, depth)
        cur = self.g.loop_of.get(at)
        while cur is not None:
            loop = self.g.stmt[cur]
            if isinstance(loop, ast.For) and ("rows", cur) not in seen and len(C.target_names(loop.target)) >= 2:
                s2 = seen | {("rows", cur)}
                els = fixed_elems(self._value(loop.iter, cur, s2, depth + 1))
                if els is not None and 2 <= len(els) <= 16:
                    outs: List[V] = []
                    for e_i in els:
                        old = self.over
                        self.over = dict(old)
                        for tn in C.target_names(loop.target):
                            self.over[(tn, cur)] = (self._unpack(loop.target, tn, e_i), cur)
                        try:
                            outs.append(self._value_rows(e, at, s2, depth + 1))
                        finally:
                            self.over = old
                    return alt(outs)
            cur = self.g.loop_of.get(cur)
        return self._value(e, at, seen, depth)

    def apply_lambda(self, lam: V, args: List[V]) -> Optional[V]:
        """the value of the body of a lambda (evaluated in this function) for the given positional arguments"""
        node = lam.node
        names = [a.arg for a in node.args.args]
        if len(names) != len(args) or node.args.vararg or node.args.kwarg:
            return None
        at, seen, depth = lam.value
        old = self.lenv
        self.lenv = dict(old, **dict(zip(names, args)))
        try:
            return self._value(node.body, at, seen, depth + 1)
        finally:
            self.lenv = old

    def stores(self, attr: str) -> List[Tuple[V, ast.AST]]:
        """values assigned to self.<attr> in this function"""
        out = []
        for n in ast.walk(self.f.node):
            tgts = n.targets if isinstance(n, ast.Assign) else ([n.target] if isinstance(n, (ast.AnnAssign, ast.AugAssign)) and n.value is not None else [])
            for t in tgts:
                if isinstance(t, ast.Attribute) and t.attr == attr and isinstance(t.value, ast.Name) and t.value.id == self.f.self_name:
                    out.append((self.value(n.value), n))
        return out

    # ------------------------------------------------------------------ helpers
    def _leaf(self, name: str, node=None) -> V:
        return V("leaf", name, node=node, ctx=self)

    def _is_local(self, n: ast.Name, at) -> bool:
        if self.f is None or at is None:
            return False
        if self.p._comp_binding(n) is not None:
            return True
        return bool(self.rd.defs_reaching(at, n.id))

    def canon(self, e: ast.AST, at) -> Optional[str]:
        """canonical dotted name of a function expression rooted at an imported module / external symbol / builtin"""
        parts: List[str] = []
        cur = e
        while isinstance(cur, ast.Attribute):
            parts.append(cur.attr)
            cur = cur.value
        if not isinstance(cur, ast.Name) or self._is_local(cur, at):
            return None
        r = self.repo.lookup(self.modname, cur.id)
        if r is None:
            base = cur.id
        elif r[0] == "module":
            base = r[1]
        elif r[0] == "external":
            base = ".".join(x for x in r[1] if x)
        else:
            return None
        name = ".".join([base] + parts[::-1])
        return SHORT.get(name, name)

    def _class_attr(self, cname: Optional[str], attr: str) -> Optional[V]:
        seen = set()
        while cname and cname in self.repo.classes and cname not in seen:
            seen.add(cname)
            ci = self.repo.classes[cname]
            for st in ci.node.body:
                val = None
                if isinstance(st, ast.Assign) and any(isinstance(t, ast.Name) and t.id == attr for t in st.targets):
                    val = st.value
                elif isinstance(st, ast.AnnAssign) and isinstance(st.target, ast.Name) and st.target.id == attr and st.value is not None:
                    val = st.value
                if val is not None:
                    return Flow(self.repo, None, home=self.home, modname=ci.mod, cls=cname).value(val)
            bases = getattr(ci, "bases", [])
            cname = bases[0] if bases else None
        return None

    # ------------------------------------------------------------------ evaluation
    def _value(self, e: ast.AST, at, seen: frozenset, depth: int) -> V:
        if depth > 60:
            return self._leaf("unknown:depth", e)
        T = lambda x: self._value(x, at, seen, depth + 1)
        if isinstance(e, ast.Constant):
            return V("const", value=e.value, node=e, ctx=self)
        if isinstance(e, ast.JoinedStr):
            out = []
            for x in e.values:
                if isinstance(x, ast.Constant):
                    out.append(str(x.value))
                    continue
                ok, v = const_of(T(x.value)) if isinstance(x, ast.FormattedValue) and x.format_spec is None and x.conversion == -1 else (False, None)
                if not ok or not isinstance(v, (str, int)):
                    return self._leaf("unknown:fstring", e)
                out.append(str(v))
            return V("const", value="".join(out), node=e, ctx=self)
        if isinstance(e, ast.Name):
            return self._name(e, at, seen, depth)
        if isinstance(e, ast.Attribute):
            base = T(e.value)
            if base.kind == "leaf" and base.name == "self":
                ca = self._class_attr(self.cls, e.attr)
                return ca if ca is not None else V("selfattr", e.attr, node=e, ctx=self)
            if base.kind == "leaf" and base.name.startswith("class:"):
                ca = self._class_attr(base.name[6:], e.attr)
                if ca is not None:
                    return ca
            if base.kind == "leaf" and base.name.startswith("global:"):
                return self._leaf(base.name + "." + e.attr, e)
            return self._attr(base, e.attr, e)
        if isinstance(e, ast.Subscript):
            base = T(e.value)
            sl = e.slice
            if isinstance(sl, ast.Slice):
                lo = const_of(T(sl.lower))[1] if sl.lower is not None else None
                hi = T(sl.upper) if sl.upper is not None else None
                hv = const_of(hi)[1] if hi is not None and hi.kind == "const" else hi
                return V("slice", recv=base, value=(lo, hv, sl.step is not None), node=e, ctx=self)
            ok, iv = const_of(T(sl))
            return item(base, iv if ok else None, e, self)
        if isinstance(e, ast.Starred):
            return elem(T(e.value))
        if isinstance(e, ast.IfExp):
            if self._valfn is not None:
                tv = C.eval3(e.test, self._valfn)
                if tv is not None:
                    return T(e.body if tv else e.orelse)
            return alt([T(e.body), T(e.orelse)])
        if isinstance(e, ast.BoolOp):
            return alt([T(x) for x in e.values])
        if isinstance(e, ast.NamedExpr):
            return T(e.value)
        if isinstance(e, (ast.List, ast.Tuple, ast.Set)):
            return V("coll", parts=[("many", T(x.value), x) if isinstance(x, ast.Starred) else ("one", T(x), x) for x in e.elts], node=e, ctx=self)
        if isinstance(e, (ast.ListComp, ast.SetComp, ast.GeneratorExp)):
            return V("coll", parts=[("one", T(e.elt), e)], node=e, ctx=self, value=(at, seen, depth))
        if isinstance(e, ast.Dict) and all(k is not None for k in e.keys):
            return V("dict", parts=[(T(k), T(v)) for k, v in zip(e.keys, e.values)], node=e, ctx=self)
        if isinstance(e, ast.Lambda):
            return V("lambda", node=e, ctx=self, value=(at, seen, depth))
        if isinstance(e, ast.BinOp):
            l, r = T(e.left), T(e.right)
            if isinstance(e.op, ast.Add):
                (ok1, a), (ok2, b) = const_of(l), const_of(r)
                if ok1 and ok2:
                    try:
                        return V("const", value=a + b, node=e, ctx=self)
                    except Exception:
                        pass
                return alt([l, r])
            return V("binop", type(e.op).__name__, parts=[l, r], node=e, ctx=self)
        if isinstance(e, ast.Call):
            return self._call(e, at, seen, depth)
        if isinstance(e, ast.UnaryOp):
            ok, v = const_of(T(e.operand))
            if ok and isinstance(e.op, ast.USub) and isinstance(v, (int, float)) and not isinstance(v, bool):
                return V("const", value=-v, node=e, ctx=self)
            if ok and isinstance(e.op, ast.Not):
                return V("const", value=not v, node=e, ctx=self)
            return self._leaf("unknown:UnaryOp", e)
        if isinstance(e, ast.Await):
            return T(e.value)
        return self._leaf(f"unknown:{type(e).__name__}", e)

    def _unpack(self, target: ast.AST, name: str, base: V) -> V:
        if isinstance(target, ast.Name):
            return base
        if isinstance(target, ast.Starred):
            return self._unpack(target.value, name, base)
        if isinstance(target, (ast.Tuple, ast.List)):
            for i, t in enumerate(target.elts):
                if name in C.target_names(t):
                    return self._unpack(t, name, item(base, i, target, self))
        return base

    def _name(self, e: ast.Name, at, seen, depth) -> V:
        name = e.id
        if self.f is None or at is None:
            if name in self.lenv:
                return self.lenv[name]
            return self._global(name, e, depth)
        cb = self.p._comp_binding(e)
        if cb == "lambda":
            return self.lenv.get(name) or self._leaf(f"param:lambda.{name}", e)
        if cb is not None:
            b = self.cbind.get(id(cb))
            if b is not None and name in b:
                return b[name]
            return self._unpack(cb.target, name, elem(self._value(cb.iter, at, seen, depth + 1)))
        return self._name_at(name, at, seen, depth, e)

    def _global(self, name: str, node, depth) -> V:
        r = self.repo.lookup(self.modname, name)
        if r is None:
            uc = unpacked_constant(self.repo, self.modname, name) if depth <= 40 else None
            if uc is not None:
                return Flow(self.repo, None, home=self.home, modname=self.modname)._value(uc, None, frozenset(), depth + 1)
            return self._leaf(f"builtin:{name}" if name not in ("str", "re") else f"global:{name}", node)
        if r[0] == "const":
            if depth > 40:
                return self._leaf(f"global:{name}", node)
            return Flow(self.repo, None, home=self.home, modname=r[2])._value(r[1], None, frozenset(), depth + 1)
        if r[0] == "class":
            return self._leaf(f"class:{name}", node)
        if r[0] == "func":
            leaf = self._leaf(f"global:{name}", node)
            leaf.value = next((x for x in self.repo.funcs.values() if x.node is r[1]), None)
            return leaf
        if r[0] == "module":
            return self._leaf(f"global:{r[1]}", node)
        if r[0] == "external":
            return self._leaf("global:" + ".".join(x for x in r[1] if x), node)
        return self._leaf(f"global:{name}", node)

    def _name_at(self, name: str, at: int, seen, depth, node=None) -> V:
        if self.f.is_method and name == self.f.self_name and self.rd.defs_reaching(at, name) <= {self.g.entry}:
            return self._leaf("self", node)
        defs = self.rd.defs_reaching(at, name)
        if not defs:
            return self._global(name, node, depth)
        defs = self._live(name, at, defs)
        base = self._unrolled(name, at, defs, seen, depth, node)
        if base is None:
            outs: List[V] = []
            for d in sorted(defs):
                ov = self.over.get((name, d)) if self.over else None
                if ov is not None and self._inside(at, ov[1]):
                    if ov[0] is not _SKIP:
                        outs.append(ov[0])
                    continue
                outs.extend(self._def_value(name, d, seen, depth, node))
            base = alt(outs) if outs else V("alt", parts=[])
        ckey = ("content", name)
        if name in self._content and ckey not in seen and not (self.f.is_method and name == self.f.self_name):
            parts = [("many", base, node)]
            for mode, arg, call in self._content[name]:
                try:
                    an = self.p.node_of(arg)
                except KeyError:
                    continue
                if defs and not (self.rd.defs_reaching(an, name) & defs):
                    continue
                if self._seen_under is not None and an not in self._seen_under:
                    continue
                parts.append((mode, self._value_rows(arg, an, seen | {ckey}, depth + 1), call))
            if len(parts) > 1:
                return V("coll", parts=parts, node=node, ctx=self)
        return base

    def _def_value(self, name: str, d: int, seen, depth, node) -> List[V]:
        """the value(s) the definition at CFG node d gives to the name"""
        key = (name, d)
        if key in seen:
            return []
        s2 = seen | {key}
        if d == self.g.entry:
            return [self.env[name] if name in self.env else self._leaf(f"param:{name}", node)]
        outs: List[V] = []
        st = self.g.stmt[d]
        ev = lambda x: self._value(x, d, s2, depth + 1)
        if isinstance(st, ast.Assign):
            for t in st.targets:
                if name in C.target_names(t):
                    paired = self.p._paired(t, st.value, name)
                    outs.append(ev(paired) if paired is not None else self._unpack(t, name, ev(st.value)))
        elif isinstance(st, ast.AnnAssign) and st.value is not None:
            outs.append(ev(st.value))
        elif isinstance(st, ast.AugAssign):
            prev = self._name_at(name, d, s2, depth + 1, node)
            new = ev(st.value)
            outs.append(V("coll", parts=[("many", prev, st), ("many", new, st)], node=st, ctx=self) if isinstance(st.op, (ast.Add, ast.BitOr)) else
                        V("binop", type(st.op).__name__, parts=[prev, new], node=st, ctx=self))
        elif isinstance(st, ast.For):
            outs.append(self._unpack(st.target, name, elem(ev(st.iter))))
        elif isinstance(st, ast.With):
            for it in st.items:
                if it.optional_vars is not None and name in C.target_names(it.optional_vars):
                    outs.append(ev(it.context_expr))
        else:
            h = C.header(st)
            found = False
            if h is not None:
                for n in ast.walk(h):
                    if isinstance(n, ast.NamedExpr) and name in C.target_names(n.target):
                        outs.append(ev(n.value))
                        found = True
            if not found:
                outs.append(self._leaf(f"unknown:def@{type(st).__name__}", node))
        return outs

    def _inside(self, n: int, head: int) -> bool:
        cur = self.g.loop_of.get(n)
        while cur is not None:
            if cur == head:
                return True
            cur = self.g.loop_of.get(cur)
        return False

    def _unrolled(self, name: str, at: int, defs: set, seen, depth, node) -> Optional[V]:
        """`x = x0; for T in <sequence fixed by the source text>: x = F(x, T)` read after the loop: F(...F(F(x0, t1), t2)..., tn).
        Applies when exactly one definition of the name that reaches `at` lies in a for loop that does not contain `at`, that
        definition is a statement of the loop body itself (every iteration executes it: no break / continue in the loop) and the
        iterable's elements are known (fixed_elems).  None: not this shape (the caller falls back to the union of the definitions)."""
        g = self.g
        inner = [d for d in defs if d != g.entry and g.loop_of.get(d) is not None]
        cand = []
        for d in inner:
            head, cur = None, g.loop_of.get(d)
            while cur is not None:
                if not self._inside(at, cur) and at != cur:
                    head = cur
                cur = g.loop_of.get(cur)
            if head is not None:
                cand.append((d, head))
        if len(cand) != 1 or depth > 40:
            return None
        d, head = cand[0]
        loop = g.stmt[head]
        if ("unroll", head, name) in seen or not isinstance(loop, ast.For) or loop.orelse or name in C.target_names(loop.target):
            return None
        if not any(g.stmt[d] is s_ for s_ in loop.body) or not isinstance(g.stmt[d], (ast.Assign, ast.AnnAssign, ast.AugAssign)):
            return None
        stack = list(loop.body)
        while stack:
            n = stack.pop()
            if isinstance(n, (ast.Break, ast.Continue)):
                return None
            if isinstance(n, (ast.For, ast.While, ast.AsyncFor)):
                stack.extend(n.orelse)      # break / continue inside belong to the inner loop
                continue
            if isinstance(n, (ast.FunctionDef, ast.AsyncFunctionDef, ast.ClassDef, ast.Lambda)):
                continue
            stack.extend(ast.iter_child_nodes(n))
        # (a definition of the name elsewhere in the loop body would have to be killed by d to stay invisible: then it is harmless)
        s2 = seen | {("unroll", head, name)}
        els = fixed_elems(self._value(loop.iter, head, s2, depth + 1))
        if els is None or len(els) > 16:
            return None
        outside = [o for o in defs if o != d]
        if not outside:
            return None
        # every other definition that reaches `at` does so through the loop (it is the loop's incoming value, not a later one)
        for o in outside:
            todo, done = [m for m, _l in g.succ[o] if m != head], set()
            while todo:
                m = todo.pop()
                if m in done:
                    continue
                done.add(m)
                if m == at:
                    return None
                todo.extend(x for x, _l in g.succ[m] if x != head and x not in done)
        v0: List[V] = []
        for o in sorted(outside):
            ov = self.over.get((name, o)) if self.over else None
            if ov is not None and self._inside(at, ov[1]):
                if ov[0] is not _SKIP:
                    v0.append(ov[0])
                continue
            v0.extend(self._def_value(name, o, s2, depth + 1, node))
        if not v0:
            return None
        v = alt(v0)
        tnames = C.target_names(loop.target)
        for e_i in els:
            old = self.over
            self.over = dict(old)
            self.over[(name, d)] = (v, head)
            for o in outside:
                self.over[(name, o)] = (_SKIP, head)
            for tn in tnames:
                self.over[(tn, head)] = (self._unpack(loop.target, tn, e_i), head)
            try:
                outs = self._def_value(name, d, s2, depth + 1, node)
            finally:
                self.over = old
            if not outs:
                return None
            v = alt(outs)
        return v

    def _live(self, name: str, at: int, defs: set) -> set:
        """the definitions that reach `at` along a path that the valuation allows"""
        if self.G is None or len(defs) < 2:
            return defs
        key = (name, at)
        if key not in self._live_memo:
            g = self.g
            all_defs = {d for d in g.nodes() if g.stmt[d] is not None and name in C.defs_of(g.stmt[d])}
            live = set()
            for d in defs:
                if d != g.entry and d not in self._seen_under:
                    continue
                reach = set()
                for m, _l in g.succ[d]:
                    if m == at:
                        reach.add(m)
                    elif m not in all_defs:
                        reach |= self.G.reach(self.val, avoid=all_defs - {at}, start=m)
                    # (a loop head that re-defines the name is itself a definition: the path ends there)
                if at in reach:
                    live.add(d)
            self._live_memo[key] = live or defs
        return self._live_memo[key]

    # ------------------------------------------------------------------ calls
    def _call(self, e: ast.Call, at, seen, depth) -> V:
        T = lambda x: self._value(x, at, seen, depth + 1)
        fn = e.func
        args: List[V] = []
        for a in e.args:
            if isinstance(a, ast.Starred):
                sv = T(a.value)
                els = fixed_elems(sv)
                args.extend(els if els is not None else [elem(sv)])      # f(*pair): the elements of a tuple display are the arguments
            else:
                args.append(T(a))
        kw = {k.arg: T(k.value) for k in e.keywords if k.arg}
        cn = self.canon(fn, at)
        if cn is not None:
            if cn == "functools.reduce" and len(args) == 3 and not kw:
                # reduce(F, <sequence fixed by the source text>, x0) = F(...F(F(x0, t1), t2)..., tn)
                els = fixed_elems(args[1])
                if els is not None and len(els) <= 16:
                    acc: Optional[V] = args[2]
                    for e_i in els:
                        acc = self.apply_value(args[0], [acc, e_i], e) if acc is not None else None
                    if acc is not None:
                        return acc
            if cn.startswith("str.") and cn.count(".") == 1 and cn != "str.maketrans" and args and not isinstance(e.args[0], ast.Starred):
                return self._method_call(args[0], cn[4:], args[1:], kw, e)      # str.split(x) is x.split()
            if cn in ("list", "tuple", "deque", "set", "dict") and not args:
                return V("coll", parts=[], node=e, ctx=self)
            if cn in ("ord", "chr") and len(args) == 1 and args[0].kind == "const":
                try:
                    return V("const", value=(ord if cn == "ord" else chr)(args[0].value), node=e, ctx=self)
                except Exception:
                    pass
            return V("call", cn, args=args, kw=kw, node=e, ctx=self)
        # a repository function / method that the inliner left in place
        tgt = self._repo_target(e)
        if tgt is not None:
            recv = T(fn.value) if isinstance(fn, ast.Attribute) else None
            out = self._apply(tgt, e, recv, args, kw, depth)
            if out is not None:
                return out
        if isinstance(fn, ast.Attribute):
            return self._method_call(T(fn.value), fn.attr, args, kw, e)
        if isinstance(fn, (ast.Name, ast.Subscript, ast.Call)):
            # a function value: a name bound to methodcaller(..) / partial(..) / a lambda / a function, an entry of a dispatch table
            out = self.apply_value(T(fn), args, e, kw)
            if out is not None:
                return out
        if isinstance(fn, ast.Name):
            return V("call", fn.id, args=args, kw=kw, node=e, ctx=self)
        return self._leaf("unknown:call", e)

    def _method_call(self, recv: V, attr: str, args: List[V], kw: Dict[str, V], e: ast.AST) -> V:
        # <compiled pattern>.sub(repl, s) == re.sub(pattern, repl, s, flags)
        comps = [x for x in (recv.parts if recv.kind == "alt" else [recv]) if x.kind == "call" and x.recv is None and x.name == "re.compile"]
        if comps and attr in RE_METHODS and len(comps) == len(recv.parts if recv.kind == "alt" else [recv]):
            outs = []
            for c in comps:
                pat = c.args[0] if c.args else c.kw.get("pattern")
                flags = c.args[1] if len(c.args) > 1 else c.kw.get("flags")
                k2 = dict(kw)
                if flags is not None:
                    k2["flags"] = flags
                k2["__compiled__"] = V("const", value=True)
                outs.append(V("call", "re." + attr, args=[pat] + args, kw=k2, node=e, ctx=self))
            return alt(outs)
        ok, tmpl = const_of(recv)
        if ok and isinstance(tmpl, str) and attr == "format" and all(a.kind == "const" for a in args) and all(v.kind == "const" for v in kw.values()):
            try:
                return V("const", value=tmpl.format(*[a.value for a in args], **{k: v.value for k, v in kw.items()}), node=e, ctx=self)
            except Exception:
                pass
        if ok and isinstance(tmpl, str) and attr == "join" and len(args) == 1 and not kw:
            els = fixed_elems(args[0])
            if els is not None and all(x.kind == "const" and isinstance(x.value, str) for x in els):
                return V("const", value=tmpl.join(x.value for x in els), node=e, ctx=self)
        return V("call", attr, recv=recv, args=args, kw=kw, node=e, ctx=self)

    def _attr(self, base: V, attr: str, node: ast.AST) -> V:
        if base.kind == "alt":
            return alt([self._attr(x, attr, node) for x in base.parts])
        if base.kind == "call" and base.recv is None:
            fv = self.record_field(base, attr)
            if fv is not None:
                return fv
        return V("attr", attr, recv=base, node=node, ctx=self)

    def record_field(self, call: V, field) -> Optional[V]:
        """R(a, b).x / R(a, b)[i] for a record class of the repository (NamedTuple / dataclass: annotated fields, no __init__ /
        __new__ of its own): the constructor argument that fills the field"""
        ctx = call.ctx if call.ctx is not None else self
        rf = record_fields(self.repo, ctx.modname, call.name)
        if rf is None:
            return None
        ci, named = rf
        names = list(ci.fields)
        if isinstance(field, int):
            if not named or not -len(names) <= field < len(names):
                return None
            field = names[field]
        if field not in names or field in ci.methods:
            return None
        i = names.index(field)
        if field in call.kw:
            return call.kw[field]
        if i < len(call.args):
            return call.args[i]
        return self._class_attr(ci.name, field)

    def expand_comp(self, v: V) -> Optional[List[V]]:
        """the elements of `[E(t) for t in <sequence fixed by the source text>]`, in order"""
        node = v.node
        at, seen, depth = v.value
        if len(node.generators) != 1 or depth > 40:
            return None
        gen = node.generators[0]
        if gen.ifs or gen.is_async:
            return None
        els = fixed_elems(self._value(gen.iter, at, seen, depth + 1))
        if els is None or len(els) > 16:
            return None
        out: List[V] = []
        names = C.target_names(gen.target)
        for e_i in els:
            binding = {tn: self._unpack(gen.target, tn, e_i) for tn in names}
            old_l, old_c = self.lenv, self.cbind.get(id(gen))
            if self.f is None or at is None:
                self.lenv = dict(old_l, **binding)
            else:
                self.cbind[id(gen)] = binding
            try:
                out.append(self._value(node.elt, at, seen, depth + 1))
            finally:
                self.lenv = old_l
                if old_c is None:
                    self.cbind.pop(id(gen), None)
                else:
                    self.cbind[id(gen)] = old_c
        return out

    def apply_value(self, fv: V, args: List[V], node: ast.AST, kw: Optional[Dict[str, V]] = None, depth: int = 0) -> Optional[V]:
        """the result of calling a function VALUE with the given arguments: a lambda, str.<method>, a function / method of the
        repository, <compiled pattern>.<method>, operator.methodcaller / attrgetter / itemgetter (..), functools.partial(..), an
        entry of a dict display selected by a constant key; None when the value is not understood as a function"""
        kw = kw or {}
        if depth > 6:
            return None
        if fv.kind == "alt" and fv.parts:
            outs = [self.apply_value(x, args, node, kw, depth + 1) for x in fv.parts]
            return None if any(o is None for o in outs) else alt(outs)
        if fv.kind == "lambda" and fv.ctx is not None and not kw:
            return fv.ctx.apply_lambda(fv, args)
        if fv.kind == "leaf":
            if fv.name.startswith("global:str.") and args and not kw:
                return self._method_call(args[0], fv.name[len("global:str."):], args[1:], {}, node)
            fi = fv.value if isinstance(fv.value, FuncInfo) else None
            if fi is not None and not fi.is_method and isinstance(node, ast.Call):
                return self._apply(fi, node, None, args, kw, depth)
            if fv.name.startswith("global:") and not fv.name.startswith("global:str.") and fi is None:
                name = fv.name[len("global:"):]
                return V("call", SHORT.get(name, name), args=args, kw=kw, node=node, ctx=self)
            return None
        if fv.kind == "selfattr" and self.cls is not None and isinstance(node, ast.Call):
            fi = self.repo.find_method(self.cls, fv.name)
            if fi is not None:
                return self._apply(fi, node, self._leaf("self", node), args, kw, depth)
            return None
        if fv.kind == "attr":
            return self._method_call(fv.recv, fv.name, args, kw, node)
        if fv.kind == "call" and fv.recv is not None and fv.recv.kind == "dict" and fv.name == "get" and 1 <= len(fv.args) <= 2 and fv.recv.parts:
            # TABLE.get(key[, default])(..): the entry with that constant key / any entry or the default
            ok, key = const_of(fv.args[0])
            hits = [x for k, x in fv.recv.parts if ok and k.kind == "const" and k.value == key and type(k.value) is type(key)]
            cands = hits[-1:] if hits else [x for _k, x in fv.recv.parts] + fv.args[1:]
            outs = [self.apply_value(x, args, node, kw, depth + 1) for x in cands]
            return None if any(o is None for o in outs) else alt(outs)
        if fv.kind == "call" and fv.recv is None:
            if fv.name == "operator.methodcaller" and fv.args and len(args) == 1 and not kw:
                ok, m = const_of(fv.args[0])
                if ok and isinstance(m, str):
                    return self._method_call(args[0], m, fv.args[1:], fv.kw, node)
            if fv.name == "operator.attrgetter" and len(fv.args) == 1 and len(args) == 1 and not kw:
                ok, m = const_of(fv.args[0])
                if ok and isinstance(m, str) and m.isidentifier():
                    return self._attr(args[0], m, node)
            if fv.name == "operator.itemgetter" and len(fv.args) == 1 and len(args) == 1 and not kw:
                ok, m = const_of(fv.args[0])
                if ok:
                    return item(args[0], m, node, self)
            if fv.name == "functools.partial" and fv.args:
                return self.apply_value(fv.args[0], fv.args[1:] + args, node, dict(fv.kw, **kw), depth + 1)
        return None

    def _repo_target(self, call: ast.Call) -> Optional[FuncInfo]:
        if self.f is None:
            return None
        try:
            cat, tg = self.repo.resolve_call(self.f, call)
        except Exception:
            return None
        tg = [t for t in tg if t[1] is not None]
        if cat != "repo" or len({t[1].qn for t in tg}) != 1:
            return None
        return tg[0][1]

    def _apply(self, callee: FuncInfo, call: ast.Call, recv: Optional[V], args: List[V], kw: Dict[str, V], depth: int) -> Optional[V]:
        if callee.qn in self.stack or len(self.stack) > 5 or (self.f is not None and getattr(self.f, "flat_of", self.f).qn == callee.qn):
            return None
        params = list(callee.params)
        env: Dict[str, V] = {}
        if callee.is_method:
            if recv is None:
                return None
            env[params[0]] = recv
            params = params[1:]
        for p_, a in zip(params, args):
            env[p_] = a
        for k, v in kw.items():
            env[k] = v
        flat = flatten(self.repo, callee)
        sub = Flow(self.repo, flat, home=self.home, env=env, stack=self.stack + ((self.f.qn,) if self.f is not None else ()) + (callee.qn,))
        for p_ in params:
            if p_ not in env and p_ in callee.defaults:
                env[p_] = Flow(self.repo, None, home=self.home, modname=callee.mod.name).value(callee.defaults[p_])
        own = [n for n in _own_nodes(flat.node)]
        yields = [n for n in own if isinstance(n, (ast.Yield, ast.YieldFrom))]
        if yields:
            parts = []
            for y in yields:
                if y.value is not None:
                    parts.append(("many" if isinstance(y, ast.YieldFrom) else "one", sub.value(y.value), y))
            return V("coll", parts=parts, node=call, ctx=self)
        rets = [n for n in own if isinstance(n, ast.Return) and n.value is not None]
        if not rets:
            return V("const", value=None, node=call, ctx=self)
        return alt([sub.value(r.value) for r in rets])


def _own_nodes(fn: ast.AST):
    """nodes of a function body without nested function definitions / lambdas"""
    stack = list(ast.iter_child_nodes(fn))
    while stack:
        n = stack.pop()
        yield n
        if isinstance(n, (ast.FunctionDef, ast.AsyncFunctionDef, ast.Lambda, ast.ClassDef)):
            continue
        stack.extend(ast.iter_child_nodes(n))


# --------------------------------------------------------------------------- linearisation
class Op:
    __slots__ = ("kind", "name", "v")

    def __init__(self, kind: str, name: str, v: Optional[V]):
        self.kind, self.name, self.v = kind, name, v

    def __repr__(self):
        return f"{self.kind}:{self.name}" if self.name != "" else self.kind

    @property
    def home(self) -> Optional[FuncInfo]:
        return self.v.ctx.home if self.v is not None and self.v.ctx is not None else None

    def arg(self, i: int, kw: Optional[str] = None) -> Optional[V]:
        v = self.v
        if kw and kw in v.kw:
            return v.kw[kw]
        return v.args[i] if 0 <= i < len(v.args) else None


# which argument of a canonical function call carries the data that flows on (None: the first one)
DATA_ARG = {"re.sub": (2, "string"), "re.subn": (2, "string"), "re.findall": (1, "string"), "re.finditer": (1, "string"), "re.split": (1, "string"),
            "re.match": (1, "string"), "re.search": (1, "string"), "re.fullmatch": (1, "string"), "map": (1, None), "filter": (1, None), "itertools.filterfalse": (1, None)}


def chains(v: V, resolve_attr: Callable[[str], Optional[V]], limit: int = 200) -> List[List[Op]]:
    """all operation chains result -> root of a term (each chain ends with an Op 'root')"""
    out: List[List[Op]] = []

    def go(v: V, acc: List[Op], attrs: Tuple[str, ...]):
        if len(out) > limit or len(acc) > 80:
            raise AnalysisError("C11: the value flow of the tokens branches too much to be enumerated")
        k = v.kind
        if k == "alt":
            for x in v.parts:
                go(x, acc, attrs)
        elif k == "coll":
            for m, x, _s in v.parts:
                go(x, acc + [Op("collect", m, v)], attrs)
        elif k in ("elem", "item", "slice", "attr"):
            go(v.recv, acc + [Op(k, v.name if k == "attr" else "", v)], attrs)
        elif k in ("binop", "dict", "lambda"):
            out.append(acc + [Op("root", f"unknown:{k}", v)])
        elif k == "call":
            op = Op("call", v.name, v)
            if v.recv is not None:
                if v.name == "join" and v.args:
                    go(elem(v.args[0]), acc + [op], attrs)
                else:
                    go(v.recv, acc + [op], attrs)
            else:
                i, kwn = DATA_ARG.get(v.name, (0, None))
                data = v.kw.get(kwn) if kwn and kwn in v.kw else (v.args[i] if i < len(v.args) else None)
                if data is None:
                    out.append(acc + [op, Op("root", f"call:{v.name}", v)])
                else:
                    go(data, acc + [op], attrs)
        elif k == "selfattr":
            tgt = resolve_attr(v.name) if v.name not in attrs else None
            if tgt is None:
                out.append(acc + [Op("root", f"self.{v.name}", v)])
            else:
                go(tgt, acc + [Op("attr-store", v.name, v)], attrs + (v.name,))
        elif k == "const":
            out.append(acc + [Op("root", "const", v)])
        else:
            out.append(acc + [Op("root", v.name, v)])

    go(v, [], ())
    return out


# --------------------------------------------------------------------------- local normalisations (exact rewrites on AST copies)
# Candidates for promotion into sa/inline.py.  `prepared(repo, f)` = flatten(f) after these rewrites, repeated until nothing changes:
#
#   * local function values:  `peek = partial(getitem, tokens, 0)` / `peek = lambda: tokens[0]` / `pop = tokens.popleft` /
#     `def peek(): return tokens[0]` bound once, from stable names, and used only below the binding  ->  the value is written where
#     the name is used (`peek()` becomes `tokens[0]`), the binding disappears
#   * `for T in iter(F, S): BODY else: E`  ->  `while True: t = F(); if t == S: E; break; T = t; BODY`
#   * `X = [E for T in iter(F, S) if C]` (also list(<generator expression>), return)  ->  the loop that appends
#   * `while C: BODY else: E` with a call of a private helper in C  ->  `while True: if not C: E; break; BODY` (the inliner does not
#     inline into the test of a while loop)
import copy as _copy
import itertools as _itertools

from ..inline import FunctionValues, Flattener, _is_private, _own_jumps

_SCOPES = (ast.FunctionDef, ast.AsyncFunctionDef, ast.Lambda, ast.ClassDef)
_fresh = _itertools.count(1)
_PREPARED: Dict[tuple, Tuple[FuncInfo, FuncInfo]] = {}     # (the argument is kept alive so that its id stays unique)


def _paths_of(fn: ast.AST) -> Dict[int, tuple]:
    """id(node) -> position of the statement that contains the node, as the tuple of (id(statement list), index) from the function
    body down to that statement (nested function definitions / lambdas count as part of the statement they are written in)"""
    out: Dict[int, tuple] = {}

    def mark(n: ast.AST, path: tuple):
        out[id(n)] = path
        for ch in ast.iter_child_nodes(n):
            if not isinstance(ch, ast.stmt) or isinstance(n, _SCOPES):
                mark(ch, path)

    def rec(holder: ast.AST, path: tuple):
        for fld in ("body", "orelse", "finalbody"):
            sub = getattr(holder, fld, None)
            if isinstance(sub, list) and sub and isinstance(sub[0], ast.stmt):
                for i, s in enumerate(sub):
                    p = path + ((id(sub), i),)
                    mark(s, p)
                    if not isinstance(s, _SCOPES):
                        rec(s, p)
        for h in list(getattr(holder, "handlers", []) or []) + list(getattr(holder, "cases", []) or []):
            rec(h, path)

    rec(fn, ())
    return out


def _block_dominates(a: tuple, b: tuple) -> bool:
    """the statement at position a is executed before anything at position b, whenever b is executed (same statement list, earlier
    index, b possibly nested deeper)"""
    k = len(a)
    return 0 < k <= len(b) and a[:-1] == b[:k - 1] and a[-1][0] == b[k - 1][0] and a[-1][1] < b[k - 1][1]


class _Scope:
    """binding facts of one function body (a copy that is being rewritten)"""

    def __init__(self, repo: Repo, fi: FuncInfo, fn: ast.FunctionDef):
        self.repo, self.fi, self.fn = repo, fi, fn
        self.paths = _paths_of(fn)
        a = fn.args
        self.params = {x.arg for x in a.posonlyargs + a.args + a.kwonlyargs + ([a.vararg] if a.vararg else []) + ([a.kwarg] if a.kwarg else [])}
        own_args = {id(x) for x in a.posonlyargs + a.args + a.kwonlyargs + ([a.vararg] if a.vararg else []) + ([a.kwarg] if a.kwarg else [])}
        self.stores: Dict[str, List[ast.AST]] = {}
        self.attr_stores: set = set()
        self.opaque = False
        for n in ast.walk(fn):
            if isinstance(n, ast.Name) and not isinstance(n.ctx, ast.Load):
                self.stores.setdefault(n.id, []).append(n)
            elif isinstance(n, (ast.FunctionDef, ast.AsyncFunctionDef, ast.ClassDef)) and n is not fn:
                self.stores.setdefault(n.name, []).append(n)
            elif isinstance(n, ast.ExceptHandler) and n.name:
                self.stores.setdefault(n.name, []).append(n)
            elif isinstance(n, ast.alias):
                self.stores.setdefault((n.asname or n.name).split(".")[0], []).append(n)
            elif isinstance(n, ast.arg) and id(n) not in own_args:
                self.stores.setdefault(n.arg, []).append(n)
            elif isinstance(n, ast.Attribute) and not isinstance(n.ctx, ast.Load):
                self.attr_stores.add(n.attr)
            elif isinstance(n, (ast.Global, ast.Nonlocal)):
                self.opaque = True
            elif isinstance(n, (ast.MatchAs, ast.MatchStar)) and n.name:
                self.stores.setdefault(n.name, []).append(n)
            elif isinstance(n, ast.MatchMapping) and n.rest:
                self.stores.setdefault(n.rest, []).append(n)
        self.local_names = set(self.stores) | self.params
        self.fv = FunctionValues(repo, fi, self.local_names)
        # name -> the statement that is its only binding, when that is a plain assignment `name = value` / `name: T = value`
        self.single: Dict[str, ast.stmt] = {}
        for n in ast.walk(fn):
            tgt = None
            if isinstance(n, ast.Assign) and len(n.targets) == 1 and isinstance(n.targets[0], ast.Name):
                tgt = n.targets[0]
            elif isinstance(n, ast.AnnAssign) and isinstance(n.target, ast.Name) and n.value is not None:
                tgt = n.target
            if tgt is not None and len(self.stores.get(tgt.id, [])) == 1 and tgt.id not in self.params:
                self.single[tgt.id] = n

    def is_global(self, name: str) -> bool:
        return name not in self.local_names

    def stable_name(self, name: str, at: tuple, bound: frozenset = frozenset()) -> bool:
        """the name denotes the same object at the position `at` and at every later position that `at` block-dominates"""
        if name in bound:
            return True
        if name in self.params:
            return not self.stores.get(name)
        if name not in self.local_names:
            return True
        st = self.single.get(name)
        return st is not None and _block_dominates(self.paths.get(id(st), ()), at)

    def stable_path(self, e: ast.AST, at: tuple, bound: frozenset = frozenset()) -> bool:
        """a name / attribute chain on a stable name whose attributes are not assigned in this function"""
        while isinstance(e, ast.Attribute):
            if e.attr in self.attr_stores:
                return False
            e = e.value
        return isinstance(e, ast.Name) and self.stable_name(e.id, at, bound)

    def stable_value(self, e: ast.AST, at: tuple) -> bool:
        """a constant, a stable path, or an entry TABLE[<constant>] of a module / class level table (evaluating it again gives the same)"""
        if isinstance(e, ast.Constant) or self.stable_path(e, at):
            return True
        if isinstance(e, ast.Subscript) and isinstance(e.slice, ast.Constant):
            root = e.value
            while isinstance(root, ast.Attribute):
                root = root.value
            return isinstance(root, ast.Name) and (self.is_global(root.id) or root.id == self.fi.self_name) and self.stable_path(e.value, at)
        return False

    def stable_free_names(self, e: ast.AST, at: tuple, bound: frozenset) -> bool:
        """every name read in the expression (evaluated later, possibly several times) is stable; names bound inside (lambda
        parameters, comprehension variables) are the expression's own"""
        inner = set(bound)
        for n in ast.walk(e):
            if isinstance(n, ast.arg):
                inner.add(n.arg)
            elif isinstance(n, ast.Name) and not isinstance(n.ctx, ast.Load):
                inner.add(n.id)
            elif isinstance(n, ast.NamedExpr):
                return False
        for n in ast.walk(e):
            if isinstance(n, ast.Name) and isinstance(n.ctx, ast.Load) and n.id not in inner and not self.stable_name(n.id, at):
                return False
            if isinstance(n, ast.Attribute) and n.attr in self.attr_stores:
                return False
        return True

    def function_value(self, v: ast.AST, at: tuple, depth: int = 0) -> Optional[str]:
        """'value' when the expression is a function value that means the same wherever it is written below `at` (a lambda over
        stable names, functools.partial of such a function with constant / stable arguments, operator.<f>, attrgetter / itemgetter /
        methodcaller of constants); 'path' for a bound method / function named by a stable path; None otherwise"""
        if depth > 4:
            return None
        fv = self.fv
        if isinstance(v, ast.Lambda):
            a = v.args
            if a.defaults or a.kw_defaults or a.vararg or a.kwarg or a.kwonlyargs or a.posonlyargs:
                return None
            return "value" if self.stable_free_names(v.body, at, frozenset(x.arg for x in a.args)) else None
        if fv.is_partial(v):
            if self.function_value(v.args[0], at, depth + 1) is None:
                return None
            for x in list(v.args[1:]) + [k.value for k in v.keywords]:
                if not self.stable_value(x, at):
                    return None
            return "value"
        if isinstance(v, (ast.Name, ast.Attribute)):
            if fv.is_value(v):
                return "value"                      # operator.eq & co
            if isinstance(v, ast.Name):
                if not self.is_global(v.id):
                    return None
                r = self.repo.lookup(self.fi.mod.name, v.id)
                return "path" if r is None or r[0] in ("func", "external", "class") else None
            return "path" if self.stable_path(v, at) else None
        if isinstance(v, ast.Call) and fv.is_value(v):
            return "value" if all(isinstance(x, ast.Constant) for x in list(v.args) + [k.value for k in v.keywords]) else None
        return None


def _as_lambda(st: ast.stmt) -> Optional[ast.Lambda]:
    """`def f(a, b): ["doc"] return E`  as  `lambda a, b: E`"""
    if not isinstance(st, ast.FunctionDef) or st.decorator_list:
        return None
    body = list(st.body)
    if body and isinstance(body[0], ast.Expr) and isinstance(body[0].value, ast.Constant) and isinstance(body[0].value.value, str):
        body = body[1:]
    if len(body) != 1 or not isinstance(body[0], ast.Return) or body[0].value is None:
        return None
    a = st.args
    if a.defaults or a.kw_defaults or a.vararg or a.kwarg or a.kwonlyargs or a.posonlyargs:
        return None
    if any(isinstance(n, (ast.Yield, ast.YieldFrom, ast.Await)) for n in ast.walk(body[0].value)):
        return None
    args = ast.arguments(posonlyargs=[], args=[ast.arg(arg=x.arg, annotation=None) for x in a.args], vararg=None, kwonlyargs=[], kw_defaults=[], kwarg=None, defaults=[])
    return ast.copy_location(ast.Lambda(args=args, body=body[0].value), st)


_FUNCTION_TAKERS = ("iter", "map", "filter", "partial", "reduce", "starmap", "takewhile", "dropwhile", "filterfalse")


def _substitute_local_function_values(sc: _Scope) -> bool:
    """one binding `name = <function value>` whose uses all lie below it is dissolved into its uses; True when that happened"""
    fn = sc.fn
    parents: Dict[int, ast.AST] = {}
    for n in ast.walk(fn):
        for ch in ast.iter_child_nodes(n):
            parents[id(ch)] = n
    cands: List[Tuple[str, ast.stmt, ast.AST]] = []
    for name, st in sc.single.items():
        cands.append((name, st, st.value))
    for n in ast.walk(fn):
        if isinstance(n, ast.FunctionDef) and n is not fn and len(sc.stores.get(n.name, [])) == 1 and n.name not in sc.params:
            lam = _as_lambda(n)
            if lam is not None:
                cands.append((n.name, n, lam))
    for name, st, value in cands:
        at = sc.paths.get(id(st))
        if at is None:
            continue
        kind = sc.function_value(value, at)
        if kind is None:
            continue
        loads = [n for n in ast.walk(fn) if isinstance(n, ast.Name) and n.id == name and isinstance(n.ctx, ast.Load)]
        if not loads or any(id(x) in {id(y) for y in ast.walk(st)} for x in loads):
            continue
        if not all(_block_dominates(at, sc.paths.get(id(x), ())) for x in loads):
            continue
        if kind == "path":
            # an alias of a method / function: only when the name is used as a function (called, or handed to iter / partial / map ..)
            def functional(x: ast.Name) -> bool:
                par = parents.get(id(x))
                if not isinstance(par, ast.Call):
                    return False
                if par.func is x:
                    return True
                callee = par.func.attr if isinstance(par.func, ast.Attribute) else (par.func.id if isinstance(par.func, ast.Name) else "")
                return bool(par.args) and par.args[0] is x and callee in _FUNCTION_TAKERS
            if not all(functional(x) for x in loads):
                continue
        fv = sc.fv

        class Sub(ast.NodeTransformer):
            def visit_Name(self, n):
                if n.id == name and isinstance(n.ctx, ast.Load):
                    new = _copy.deepcopy(value)
                    for x in ast.walk(new):
                        if isinstance(x, (ast.expr, ast.stmt)):
                            ast.copy_location(x, n)
                    return new
                return n

            def visit_Call(self, c):
                self.generic_visit(c)
                if fv.is_value(c.func):
                    got = fv.apply(c.func, list(c.args), list(c.keywords))
                    if got is not None:
                        ast.copy_location(got, c)
                        return ast.fix_missing_locations(got)
                return c

        Sub().visit(fn)
        # the binding is dead and its value has no effects
        for holder in ast.walk(fn):
            for fld in ("body", "orelse", "finalbody"):
                sub = getattr(holder, fld, None)
                if isinstance(sub, list) and any(s is st for s in sub):
                    new = [s for s in sub if s is not st]
                    setattr(holder, fld, new or ([ast.copy_location(ast.Pass(), st)] if fld == "body" else []))
        return True
    return False


def _effect_free(sc: _Scope, e: ast.AST) -> bool:
    """evaluating the expression does nothing but build a value (names, attribute paths, constants, displays, lambdas, constructors of
    function values)"""
    for n in ast.walk(e):
        if isinstance(n, ast.Call):
            if not (sc.fv.is_partial(n) or (sc.fv.is_value(n) and not isinstance(n, ast.Lambda))):
                return False
        elif not isinstance(n, (ast.Name, ast.Attribute, ast.Constant, ast.Tuple, ast.List, ast.Lambda, ast.arguments, ast.arg, ast.expr_context,
                                ast.keyword, ast.Compare, ast.cmpop, ast.BoolOp, ast.boolop, ast.UnaryOp, ast.unaryop, ast.BinOp, ast.operator, ast.Subscript)):
            return False
    return True


def _drop_dead_bindings(sc: _Scope) -> bool:
    """`name = <effect-free expression>` for a name that is never read (the loop variables an unrolled table loop leaves behind:
    `handle = self._read_list`) is removed"""
    loads = {n.id for n in ast.walk(sc.fn) if isinstance(n, ast.Name) and isinstance(n.ctx, ast.Load)}
    changed = False
    for holder in ast.walk(sc.fn):
        for fld in ("body", "orelse", "finalbody"):
            sub = getattr(holder, fld, None)
            if not (isinstance(sub, list) and sub and isinstance(sub[0], ast.stmt)):
                continue
            keep = []
            for st in sub:
                if isinstance(st, ast.Assign) and len(st.targets) == 1 and isinstance(st.targets[0], ast.Name) and st.targets[0].id not in loads \
                        and st.targets[0].id not in sc.params and _effect_free(sc, st.value) and \
                        any(isinstance(n, (ast.Attribute, ast.Lambda, ast.Call)) or (isinstance(n, ast.Name) and sc.is_global(n.id)) for n in ast.walk(st.value)) \
                        and not isinstance(st.value, ast.Constant):
                    changed = True
                    continue
                keep.append(st)
            if len(keep) != len(sub):
                setattr(holder, fld, keep or ([ast.copy_location(ast.Pass(), sub[0])] if fld == "body" else []))
    return changed


def _is_builtin(sc: _Scope, e: ast.AST, name: str) -> bool:
    return isinstance(e, ast.Name) and e.id == name and sc.is_global(name) and sc.repo.lookup(sc.fi.mod.name, name) is None


def _sentinel_iter(sc: _Scope, it: ast.AST, at: tuple) -> Optional[Tuple[ast.AST, ast.AST]]:
    """(the expression `F()`, the sentinel S) for `iter(F, S)` with a function value / stable method F and a constant / stable S"""
    if not (isinstance(it, ast.Call) and _is_builtin(sc, it.func, "iter") and len(it.args) == 2 and not it.keywords
            and not any(isinstance(a, ast.Starred) for a in it.args)):
        return None
    f_, s_ = it.args
    if not sc.stable_value(s_, at):
        return None
    kind = sc.function_value(f_, at)
    if kind is None:
        return None
    call: Optional[ast.AST] = None
    if sc.fv.is_value(f_):
        call = sc.fv.apply(_copy.deepcopy(f_), [], [])
    if call is None:
        call = ast.Call(func=_copy.deepcopy(f_), args=[], keywords=[])
    return call, _copy.deepcopy(s_)


def _sentinel_loop(target: ast.AST, call: ast.AST, sentinel: ast.AST, body: List[ast.stmt], orelse: List[ast.stmt], at: ast.AST) -> ast.stmt:
    tmp = f"__next__d{next(_fresh)}"
    stop = ast.If(test=ast.Compare(left=ast.Name(id=tmp, ctx=ast.Load()), ops=[ast.Eq()], comparators=[sentinel]), body=list(orelse) + [ast.Break()], orelse=[])
    new = ast.While(test=ast.Constant(value=True), body=[
        ast.Assign(targets=[ast.Name(id=tmp, ctx=ast.Store())], value=call, lineno=at.lineno),
        stop,
        ast.Assign(targets=[target], value=ast.Name(id=tmp, ctx=ast.Load()), lineno=at.lineno)] + list(body), orelse=[])
    for x in ast.walk(new):
        if isinstance(x, (ast.expr, ast.stmt)) and not hasattr(x, "lineno"):
            ast.copy_location(x, at)
    return ast.copy_location(new, at)


def _has_private_call(e: ast.AST) -> bool:
    for n in ast.walk(e):
        if isinstance(n, ast.Call):
            nm = n.func.attr if isinstance(n.func, ast.Attribute) else (n.func.id if isinstance(n.func, ast.Name) else "")
            if nm and _is_private(nm) and not getattr(n, "_no_inline", False):
                return True
    return False


def _rewrite_loops(sc: _Scope) -> bool:
    """sentinel iterators, comprehensions over them and while tests that call private helpers (see the section comment)"""
    changed = [False]
    flattener = Flattener(sc.repo, sc.fi)

    def comp_over_sentinel(v: ast.AST) -> Optional[ast.AST]:
        if isinstance(v, ast.Call) and _is_builtin(sc, v.func, "list") and len(v.args) == 1 and not v.keywords and isinstance(v.args[0], ast.GeneratorExp):
            v = v.args[0]
        elif not isinstance(v, ast.ListComp):
            return None
        it = v.generators[0].iter
        if isinstance(it, ast.Call) and _is_builtin(sc, it.func, "iter") and len(it.args) == 2 and not any(g.is_async for g in v.generators):
            return v
        return None

    def block(stmts: List[ast.stmt]) -> List[ast.stmt]:
        out: List[ast.stmt] = []
        for st in stmts:
            if not isinstance(st, _SCOPES):
                for fld in ("body", "orelse", "finalbody"):
                    sub = getattr(st, fld, None)
                    if isinstance(sub, list) and sub and isinstance(sub[0], ast.stmt):
                        setattr(st, fld, block(sub))
                for h in list(getattr(st, "handlers", []) or []) + list(getattr(st, "cases", []) or []):
                    h.body = block(h.body)
            at = sc.paths.get(id(st), ())
            # X = [E for T in iter(F, S)]  ->  tmp = []; for T in iter(F, S): tmp.append(E); X = tmp
            val = getattr(st, "value", None) if isinstance(st, (ast.Assign, ast.AnnAssign, ast.Return)) else None
            comp = comp_over_sentinel(val) if val is not None else None
            if comp is not None and at and _sentinel_iter(sc, comp.generators[0].iter, at) is not None:
                tmp = f"__comp__d{next(_fresh)}"
                loops = flattener._expand_comprehension(ast.ListComp(elt=comp.elt, generators=comp.generators), tmp, st)
                if loops is not None:
                    init = ast.copy_location(ast.Assign(targets=[ast.Name(id=tmp, ctx=ast.Store())], value=ast.List(elts=[], ctx=ast.Load()), lineno=st.lineno), st)
                    st.value = ast.copy_location(ast.Name(id=tmp, ctx=ast.Load()), val)
                    new = [init] + loops + [st]
                    for x in new:
                        ast.fix_missing_locations(x)
                        sc.paths.setdefault(id(x), at)
                        for y in ast.walk(x):
                            sc.paths.setdefault(id(y), at)
                    changed[0] = True
                    out.extend(block(new[:-1]))
                    out.append(st)
                    continue
            if isinstance(st, ast.For) and at:
                got = _sentinel_iter(sc, st.iter, at)
                if got is not None and not _own_jumps(st.orelse):
                    changed[0] = True
                    out.append(_sentinel_loop(st.target, got[0], got[1], st.body, st.orelse, st))
                    continue
            if isinstance(st, ast.While) and not (isinstance(st.test, ast.Constant) and st.test.value is True) and _has_private_call(st.test) \
                    and not _own_jumps(st.orelse):
                changed[0] = True
                stop = ast.If(test=ast.UnaryOp(op=ast.Not(), operand=st.test), body=list(st.orelse) + [ast.Break()], orelse=[])
                new = ast.While(test=ast.Constant(value=True), body=[stop] + list(st.body), orelse=[])
                for x in ast.walk(new):
                    if isinstance(x, (ast.expr, ast.stmt)) and not hasattr(x, "lineno"):
                        ast.copy_location(x, st)
                out.append(ast.copy_location(new, st))
                continue
            out.append(st)
        return out

    sc.fn.body = block(sc.fn.body)
    return changed[0]


def _constant_collection(sc: _Scope, e: ast.AST, depth: int = 0) -> Optional[List[ast.Constant]]:
    """the constants of a tuple / list / set display (also frozenset(..) / set(..) / tuple(..) of one, or a module-level name bound to one)"""
    if isinstance(e, (ast.Tuple, ast.List, ast.Set)):
        return list(e.elts) if e.elts and all(isinstance(x, ast.Constant) for x in e.elts) else None
    if isinstance(e, ast.Call) and isinstance(e.func, ast.Name) and e.func.id in ("frozenset", "set", "tuple", "list") and sc.is_global(e.func.id) \
            and len(e.args) == 1 and not e.keywords and depth < 3:
        return _constant_collection(sc, e.args[0], depth + 1)
    if isinstance(e, ast.Name) and sc.is_global(e.id) and depth < 3:
        r = sc.repo.lookup(sc.fi.mod.name, e.id)
        if r is not None and r[0] == "const" and isinstance(r[1], ast.AST):
            return _constant_collection(sc, r[1], depth + 1)
    return None


def _rewrite_membership(sc: _Scope) -> bool:
    """`X in (c1, c2)` -> `X == c1 or X == c2`, `X not in (c1,)` -> `X != c1` for a collection of at most four constants fixed by the
    source text and X a name or NAME[<constant>] (reading it again reads the same)"""
    changed = [False]

    def simple(x: ast.AST) -> bool:
        return isinstance(x, ast.Name) or (isinstance(x, ast.Subscript) and isinstance(x.value, ast.Name) and isinstance(x.slice, ast.Constant))

    class T(ast.NodeTransformer):
        def visit_Compare(self, n):
            self.generic_visit(n)
            if len(n.ops) == 1 and isinstance(n.ops[0], (ast.In, ast.NotIn)) and simple(n.left):
                consts = _constant_collection(sc, n.comparators[0])
                if consts is not None and len(consts) <= 4 and all(isinstance(c.value, str) for c in consts):
                    member = isinstance(n.ops[0], ast.In)
                    parts = [ast.Compare(left=_copy.deepcopy(n.left), ops=[ast.Eq() if member else ast.NotEq()], comparators=[ast.Constant(value=c.value)]) for c in consts]
                    new = parts[0] if len(parts) == 1 else ast.BoolOp(op=ast.Or() if member else ast.And(), values=parts)
                    for x in ast.walk(new):
                        if isinstance(x, ast.expr):
                            ast.copy_location(x, n)
                    changed[0] = True
                    return new
            return n

    T().visit(sc.fn)
    return changed[0]


def _rewrite_list_growth(sc: _Scope) -> bool:
    """`X = X + [E]` / `X = [*X, E]` -> `X.append(E)` for a local list that has no other name (it is only grown, measured, iterated
    and returned), so building a new list and extending the old one cannot be told apart"""
    parents: Dict[int, ast.AST] = {}
    for n in ast.walk(sc.fn):
        for ch in ast.iter_child_nodes(n):
            parents[id(ch)] = n

    def grown(st: ast.stmt) -> Optional[Tuple[str, List[ast.AST]]]:
        if not (isinstance(st, ast.Assign) and len(st.targets) == 1 and isinstance(st.targets[0], ast.Name)):
            return None
        name, v = st.targets[0].id, st.value
        if isinstance(v, ast.BinOp) and isinstance(v.op, ast.Add) and isinstance(v.left, ast.Name) and v.left.id == name and isinstance(v.right, ast.List) \
                and v.right.elts and not any(isinstance(x, ast.Starred) for x in v.right.elts):
            return name, list(v.right.elts)
        if isinstance(v, ast.List) and len(v.elts) >= 2 and isinstance(v.elts[0], ast.Starred) and isinstance(v.elts[0].value, ast.Name) and v.elts[0].value.id == name \
                and not any(isinstance(x, ast.Starred) for x in v.elts[1:]):
            return name, list(v.elts[1:])
        return None

    def unaliased(name: str) -> bool:
        if name in sc.params:
            return False
        for st_ in sc.stores.get(name, []):
            par = parents.get(id(st_))
            if not (isinstance(par, (ast.Assign, ast.AnnAssign)) and (grown(par) is not None or isinstance(par.value, (ast.List, ast.ListComp)) or
                                                                      (isinstance(par.value, ast.Call) and isinstance(par.value.func, ast.Name) and par.value.func.id == "list"
                                                                       and not par.value.args))):
                return False
        for n in ast.walk(sc.fn):
            if isinstance(n, ast.Name) and n.id == name and isinstance(n.ctx, ast.Load):
                par = parents.get(id(n))
                if isinstance(par, ast.Return) or (isinstance(par, ast.Attribute) and isinstance(parents.get(id(par)), ast.Call) and parents[id(par)].func is par
                                                   and par.attr in ("append", "extend", "insert", "__len__", "copy", "count", "index")):
                    continue
                if isinstance(par, ast.Call) and isinstance(par.func, ast.Name) and par.func.id in ("len", "bool", "tuple", "list", "reversed", "iter") and len(par.args) == 1:
                    continue
                if isinstance(par, ast.BinOp) and par.left is n and grown(parents.get(id(par))) is not None:
                    continue
                if isinstance(par, ast.Starred) and isinstance(parents.get(id(par)), ast.List) and grown(parents.get(id(parents[id(par)]))) is not None:
                    continue
                if isinstance(par, (ast.For, ast.comprehension)) and par.iter is n:
                    continue
                if isinstance(par, (ast.If, ast.While)) and par.test is n:
                    continue
                return False
        return True

    changed = False
    for holder in ast.walk(sc.fn):
        for fld in ("body", "orelse", "finalbody"):
            sub = getattr(holder, fld, None)
            if not (isinstance(sub, list) and sub and isinstance(sub[0], ast.stmt)):
                continue
            out: List[ast.stmt] = []
            here = False
            for st in sub:
                gr = grown(st)
                if gr is not None and unaliased(gr[0]):
                    here = True
                    for el in gr[1]:
                        call = ast.Call(func=ast.Attribute(value=ast.Name(id=gr[0], ctx=ast.Load()), attr="append", ctx=ast.Load()), args=[el], keywords=[])
                        new = ast.Expr(value=call)
                        for x in ast.walk(new):
                            if isinstance(x, (ast.expr, ast.stmt)) and not hasattr(x, "lineno"):
                                ast.copy_location(x, st)
                        out.append(new)
                    changed = True
                else:
                    out.append(st)
            if here:
                setattr(holder, fld, out)
    return changed


def _match_to_if(sc: _Scope) -> bool:
    """`match NAME:` over literal patterns (constants, alternatives of constants, the wildcard, a capture of the whole subject,
    guards)  ->  the if / elif chain of `NAME == <constant>` tests it abbreviates"""
    changed = [False]

    def test_of(pat: ast.AST, subj: ast.Name) -> Optional[Tuple[Optional[ast.AST], Optional[str]]]:
        """(test or None for 'always', capture name)"""
        if isinstance(pat, ast.MatchValue) and isinstance(pat.value, ast.Constant) and isinstance(pat.value.value, (str, int)) and not isinstance(pat.value.value, bool):
            return ast.Compare(left=_copy.deepcopy(subj), ops=[ast.Eq()], comparators=[ast.Constant(value=pat.value.value)]), None
        if isinstance(pat, ast.MatchOr):
            parts = [test_of(p_, subj) for p_ in pat.patterns]
            if any(p_ is None or p_[0] is None or p_[1] is not None for p_ in parts):
                return None
            return ast.BoolOp(op=ast.Or(), values=[p_[0] for p_ in parts]), None
        if isinstance(pat, ast.MatchAs) and pat.pattern is None:
            return None, pat.name
        return None

    def block(stmts: List[ast.stmt]) -> List[ast.stmt]:
        out: List[ast.stmt] = []
        for st in stmts:
            if not isinstance(st, _SCOPES):
                for fld in ("body", "orelse", "finalbody"):
                    sub = getattr(st, fld, None)
                    if isinstance(sub, list) and sub and isinstance(sub[0], ast.stmt):
                        setattr(st, fld, block(sub))
                for h in list(getattr(st, "handlers", []) or []) + list(getattr(st, "cases", []) or []):
                    h.body = block(h.body)
            if isinstance(st, ast.Match) and isinstance(st.subject, ast.Name):
                arms = []
                ok = True
                for c in st.cases:
                    t_ = test_of(c.pattern, st.subject)
                    if t_ is None or (t_[1] is not None and c.guard is not None):
                        ok = False
                        break
                    test, cap = t_
                    body = list(c.body)
                    if cap is not None:
                        body = [ast.Assign(targets=[ast.Name(id=cap, ctx=ast.Store())], value=_copy.deepcopy(st.subject), lineno=st.lineno)] + body
                    if c.guard is not None:
                        test = c.guard if test is None else ast.BoolOp(op=ast.And(), values=[test, c.guard])
                    arms.append((test, body))
                if ok and arms:
                    new: List[ast.stmt] = []
                    for test, body in reversed(arms):
                        new = list(body) if test is None else [ast.If(test=test, body=body, orelse=new)]
                    for top in new:
                        for x in ast.walk(top):
                            if isinstance(x, (ast.expr, ast.stmt)) and not hasattr(x, "lineno"):
                                ast.copy_location(x, st)
                    changed[0] = True
                    out.extend(new)
                    continue
            out.append(st)
        return out

    sc.fn.body = block(sc.fn.body)
    return changed[0]


def normalise_function_values(repo: Repo, fi: FuncInfo) -> FuncInfo:
    """the function after the local normalisations (the same object when nothing applies)"""
    fn = _copy.deepcopy(fi.node)
    changed = False
    for _round in range(12):
        sc = _Scope(repo, fi, fn)
        if sc.opaque:
            break
        if _substitute_local_function_values(sc):
            changed = True
            continue
        if _rewrite_loops(sc):
            changed = True
            continue
        if _drop_dead_bindings(sc):
            changed = True
            continue
        if _match_to_if(sc) or _rewrite_membership(sc) or _rewrite_list_growth(sc):
            changed = True
            continue
        break
    if not changed:
        return fi
    ast.fix_missing_locations(fn)
    out = FuncInfo(fi.mod, fi.cls, fn, static=fi.static)
    out.qn = fi.qn
    for a in ("flat_of", "inlined", "inlined_bodies"):
        if hasattr(fi, a):
            setattr(out, a, getattr(fi, a))
    return out


def prepared(repo: Repo, fi: FuncInfo, depth: int = 4) -> FuncInfo:
    """flatten(fi) with the local normalisations applied before and after inlining (helpers are normalised where they were inlined;
    what the rewrites expose -- `peek()` that became `self._peek(tokens)` -- is inlined in the next round)"""
    key = (id(repo), fi.qn, id(fi.node), depth)
    if key in _PREPARED:
        return _PREPARED[key][1]
    cur = flatten(repo, normalise_function_values(repo, fi), depth)
    for _round in range(3):
        nxt = normalise_function_values(repo, cur)
        if nxt is cur:
            break
        cur = flatten(repo, nxt, depth)
        if not hasattr(cur, "flat_of"):
            break
    _PREPARED[key] = (fi, cur)
    return cur
