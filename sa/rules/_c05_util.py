"""C05 -- clauses added by the mutation-hardening round: decisions taken the right way round (valuations of guard atoms), token
positions, argument pairing, completeness of the walks over sections / conjuncts / object tokens.

Everything is phrased on the public ProblemParser methods with their helpers in place (`L.fn`), things are identified by provenance
paths / valuations, never by local names."""
from __future__ import annotations

import ast
import operator
from typing import Callable, Dict, List, Optional, Set, Tuple

from .. import cfg as C
from .. import lib as L
from ..core import AnalysisError, FuncInfo, Repo, unparse
from ..prov import callee_name
from ..report import Finding, RuleResult

CLS = "ProblemParser"

# ---------------------------------------------------------------------------------------------------------------- oracle constants
ARG_SLICE = (1, None)          # a ground atom / fluent is (name arg1 .. argn): the arguments are everything after the first token
GOAL_SLICE = (1, None)         # a goal is (and g1 .. gn): the conjuncts are everything after the head
BLOCK_SLICE = (1, None)        # a nested block of the object list is (:private o1 .. - t ..): its content is everything after the keyword
HEAD_INDEX = 0                 # the token that decides what a component is (predicate name, '=', comparison operator) is its first token
FLUENT_ASSIGNMENT_LENGTH = 3   # (= (f args) value): exactly three items
GOAL_HEAD = "and"              # the only goal shape the parser supports: a conjunction
ASSIGN_HEAD = "="              # head of a fluent assignment in :init
REPEAT_MIN = 2                 # an argument is 'repeating' when it occurs at least twice
TREE_BUILDER_ARGS = {0: "component", 1: "functions"}     # construct_expression_tree(<s-expression>, <domain functions>)
POSITION_STEPS = ("item", "elem", "unpack:", "arg0:enumerate", "arg0:iter", "arg0:list", "arg0:tuple", "arg0:reversed")

_CMP = {ast.Eq: operator.eq, ast.NotEq: operator.ne, ast.Lt: operator.lt, ast.LtE: operator.le, ast.Gt: operator.gt, ast.GtE: operator.ge}
_FLIP = {ast.Eq: ast.Eq, ast.NotEq: ast.NotEq, ast.Lt: ast.Gt, ast.LtE: ast.GtE, ast.Gt: ast.Lt, ast.GtE: ast.LtE}
_OPN = {ast.Eq: "eq", ast.NotEq: "ne", ast.Lt: "lt", ast.LtE: "le", ast.Gt: "gt", ast.GtE: "ge"}


# ---------------------------------------------------------------------------------------------------------------- small helpers
def _fold_int(n: ast.AST) -> int:
    if isinstance(n, ast.Constant) and type(n.value) is int:
        return n.value
    if isinstance(n, ast.UnaryOp) and isinstance(n.op, (ast.USub, ast.UAdd)):
        v = _fold_int(n.operand)
        return -v if isinstance(n.op, ast.USub) else v
    if isinstance(n, ast.BinOp) and isinstance(n.op, (ast.Add, ast.Sub, ast.Mult)):
        a, b = _fold_int(n.left), _fold_int(n.right)
        return a + b if isinstance(n.op, ast.Add) else a - b if isinstance(n.op, ast.Sub) else a * b
    raise ValueError("not a constant integer")


def _bound(text: str):
    """a slice bound as written in a provenance step: None = absent, int = constant, Ellipsis = not a constant"""
    if text == "":
        return None
    try:
        return _fold_int(ast.parse(text, mode="eval").body)
    except (ValueError, SyntaxError):
        return Ellipsis


def _slice_of(step: str):
    if not step.startswith("slice:"):
        return None
    lo, _, hi = step[6:].partition(":")
    return _bound(lo), _bound(hi)


def _index_of(step: str) -> Optional[int]:
    """'item:2' / 'unpack:2' -> 2"""
    for pre in ("item:", "unpack:"):
        if step.startswith(pre):
            try:
                return int(step[len(pre):])
            except ValueError:
                return None
    return None


def _trace(p, e, **kw) -> Set[tuple]:
    try:
        return p.trace(e, **kw)
    except (KeyError, RecursionError):
        return set()


def _first_param(f: FuncInfo) -> str:
    ps = [x for x in f.params if x != f.self_name]
    if not ps:
        raise AnalysisError(f"{f.qn}: no parameter to analyse")
    return ps[0]


def _positional(steps) -> bool:
    return all(any(s == k or (k.endswith(":") and s.startswith(k)) for k in POSITION_STEPS) or s.startswith("item:") for s in steps)


def _str_collection(repo: Repo, f: FuncInfo, p, e: ast.AST) -> Optional[List[str]]:
    """the members of a constant collection of strings (display, or module constant); None when it is something else"""
    if isinstance(e, (ast.List, ast.Tuple, ast.Set)):
        if e.elts and all(isinstance(x, ast.Constant) and isinstance(x.value, str) for x in e.elts):
            return [x.value for x in e.elts]
        return None
    tr = _trace(p, e)
    for x in tr:
        if len(x) == 1 and x[0].startswith("global:"):
            ok, v = repo.const_value(f.mod.name, x[0][7:])
            if ok and isinstance(v, (list, tuple, set, frozenset)) and v and all(isinstance(s, str) for s in v):
                return sorted(v)
    return None


def _ends_attr(tr: Set[tuple], attr: str) -> bool:
    return bool(tr) and any(x[-1] == f"attr:{attr}" or (len(x) >= 2 and x[-2] == f"attr:{attr}" and x[-1] in ("call:keys", "arg0:set", "arg0:list")) for x in tr)


def _sink_calls(f: FuncInfo, p, attr: str) -> List[ast.Call]:
    from . import c05
    return [c for c in L.calls_in(f.node) if isinstance(c.func, ast.Attribute) and c.func.attr in ("append", "add") and c.args and
            c05._into(p, c.func.value, attr)]


def _nodes_of(g: C.CFG, exprs) -> Set[int]:
    out = set()
    for e in exprs:
        n = g.node_containing(e)
        if n is None:
            n = g.node_of(e)
        if n is not None:
            out.add(n)
    return out


def _enclosing_loops(f: FuncInfo, node: ast.AST) -> List[ast.AST]:
    """loops (outermost first) that contain the node"""
    out = []
    for lp in ast.walk(f.node):
        if isinstance(lp, (ast.For, ast.While)) and any(x is node for x in ast.walk(lp)):
            out.append(lp)
    out.sort(key=lambda lp: sum(1 for _ in ast.walk(lp)), reverse=True)
    return out


# ---------------------------------------------------------------------------------------------------------------- component matchers
class _Component:
    """atoms over one parsed component (a list whose first token says what it is)"""

    def __init__(self, repo: Repo, f: FuncInfo, p, is_component: Callable[[tuple], bool]):
        self.repo, self.f, self.p = repo, f, p
        self.is_component = is_component
        self.len_atoms: Dict[str, Tuple[type, int]] = {}
        self.head_tests: List[Tuple[ast.AST, int, str]] = []      # (compare node, index of the tested token, what it is tested against)
        self._memo: Dict[int, Optional[str]] = {}

    def item_index(self, e: ast.AST) -> Optional[Set[int]]:
        """the expression is the k-th token of the component: {k, ..}; None when it is something else"""
        tr = _trace(self.p, e)
        ks = set()
        for x in tr:
            while len(x) > 2 and x[-1] in ("call:lower", "call:strip", "call:casefold", "arg0:str"):
                x = x[:-1]
            if len(x) >= 2 and self.is_component(x[:-1]) and _index_of(x[-1]) is not None:
                ks.add(_index_of(x[-1]))
            else:
                return None
        return ks or None

    def is_len(self, e: ast.AST) -> bool:
        tr = _trace(self.p, e)
        return bool(tr) and all(len(x) >= 2 and x[-1] == "arg0:len" and self.is_component(x[:-1]) for x in tr)

    def __call__(self, e: ast.AST) -> Optional[str]:
        k = id(e)
        if k not in self._memo:
            self._memo[k] = None        # re-entrancy (a trace may ask the valuation)
            self._memo[k] = self._match(e)
        return self._memo[k]

    def _match(self, e: ast.AST) -> Optional[str]:
        if not (isinstance(e, ast.Compare) and len(e.ops) == 1):
            return None
        l, rr, op = e.left, e.comparators[0], type(e.ops[0])
        if op in _CMP:
            for a, b, flip in ((l, rr, False), (rr, l, True)):
                if isinstance(b, ast.Constant) and type(b.value) is int and self.is_len(a):
                    o = _FLIP[op] if flip else op
                    name = f"len-{_OPN[o]}-{b.value}"
                    self.len_atoms[name] = (o, b.value)
                    return name
        if op in (ast.Eq, ast.NotEq):
            for a, b in ((l, rr), (rr, l)):
                if isinstance(b, ast.Constant) and isinstance(b.value, str):
                    ks = self.item_index(a)
                    if ks:
                        if b.value in (ASSIGN_HEAD, GOAL_HEAD):
                            self._note(e, ks, repr(b.value))
                            return ("" if op is ast.Eq else "!") + ("assign" if b.value == ASSIGN_HEAD else "and")
        if op in (ast.In, ast.NotIn):
            ks = self.item_index(l)
            if ks:
                if _ends_attr(_trace(self.p, rr), "predicates"):
                    self._note(e, ks, "the domain's predicates")
                    return ("" if op is ast.In else "!") + "pred"
                members = _str_collection(self.repo, self.f, self.p, rr)
                if members is not None and set(members) in ({GOAL_HEAD}, {ASSIGN_HEAD}):
                    # membership in a one-element table is an equality test
                    self._note(e, ks, repr(members[0]))
                    return ("" if op is ast.In else "!") + ("assign" if members[0] == ASSIGN_HEAD else "and")
                if members is not None:
                    self._note(e, ks, "a constant table of operator tokens")
                    return ("" if op is ast.In else "!") + "op"
        return None

    def _note(self, e, ks, what):
        if not any(t[0] is e for t in self.head_tests):
            for k in sorted(ks):
                self.head_tests.append((e, k, what))

    def length_valuation(self, n: int) -> Dict[str, bool]:
        return {name: _CMP[o](n, c) for name, (o, c) in self.len_atoms.items()}


# ================================================================================================================ C05.gates
def rule_gates(repo: Repo, rid: str = "C05.gates") -> RuleResult:
    r = RuleResult(rid, "accept / reject decisions are taken the right way round: arity match, assignment length, goal head, goal arms, "
                        "nested object blocks, repeated-argument threshold",
                   "well-formed facts, fluents and goals are accepted and stored; ill-formed ones are rejected")
    _gate_arity(repo, r, rid)
    _gate_assignment(repo, r, rid)
    _gate_goal(repo, r, rid)
    _gate_nested(repo, r, rid)
    _gate_repeats(repo, r, rid)
    r.require_sites(6)
    return r


def _gate_arity(repo: Repo, r: RuleResult, rid: str) -> None:
    from . import c05
    for meth in ("parse_grounded_predicate", "parse_grounded_numeric_fluent"):
        f = L.fn(repo, f"{CLS}.{meth}")
        p = L.prov(repo, f)
        g = C.cfg_of(f.node)
        memo: Dict[int, Optional[str]] = {}

        def m(e, p=p, memo=memo):
            if id(e) not in memo:
                memo[id(e)] = None
                if isinstance(e, ast.Compare) and len(e.ops) == 1 and isinstance(e.ops[0], (ast.Eq, ast.NotEq)) and c05._is_arity_test(e, p):
                    memo[id(e)] = "same" if isinstance(e.ops[0], ast.Eq) else "!same"
            return memo[id(e)]

        G = L.Guards(f, m)
        r.site(f"{f.qn} [arity gate]")
        if "same" not in G.atoms_seen:
            r.ok({"function": f.qn, "arity_gate": "no equality test of the two lengths (C05.validators decides whether a check exists)"})
            continue
        # returns that lie after the comparison (an early return in front of it is not judged by its outcome)
        tests = {g.node_containing(e) for e in ast.walk(f.node) if m(e)} - {None}
        after = set().union(*[C.reachable_from(g, t) for t in tests]) if tests else set()
        rets = [n for n in g.nodes() if g.kind[n] == "return" and n in after]
        differ, same = G.reach({"same": False}), G.reach({"same": True})
        if any(n in differ for n in rets):
            r.fail(Finding(rid, f, "arity-gate:mismatch-accepted", "with a number of arguments that differs from the declared arity the function still returns a "
                           "result: wrong-arity atoms / fluents are accepted", node=g.stmt[[n for n in rets if n in differ][0]]))
        elif not any(n in same for n in rets):
            r.fail(Finding(rid, f, "arity-gate:match-rejected", "with the declared number of arguments no return is reachable: every well-formed atom / fluent "
                           "is rejected"))
        else:
            r.ok({"function": f.qn, "arity_equal": "returns", "arity_differs": "raises"})


def _assign_stores(f: FuncInfo, p, attr: str) -> List[ast.stmt]:
    from . import c05
    return [n for n in ast.walk(f.node) if isinstance(n, ast.Assign) and any(isinstance(t, ast.Subscript) and c05._into(p, t.value, attr) for t in n.targets)]


def _gate_assignment(repo: Repo, r: RuleResult, rid: str) -> None:
    f = L.fn(repo, f"{CLS}.parse_state_component")
    p = L.prov(repo, f)
    g = C.cfg_of(f.node)
    comp = _first_param(f)
    M = _Component(repo, f, p, lambda path: path == (f"param:{comp}",))
    G = L.Guards(f, M)
    stores = _nodes_of(g, _assign_stores(f, p, "initial_state_fluents"))
    adds = _nodes_of(g, _sink_calls(f, p, "initial_state_predicates"))
    r.site(f"{f.qn} [assignment length]")
    if not stores or "assign" not in G.atoms_seen:
        r.ok({"function": f.qn, "assignment_gate": "no '=' arm with a store found here (C05.value decides whether the value is stored)"})
    elif not M.len_atoms:
        r.ok({"function": f.qn, "assignment_gate": "no explicit length test (unpacking decides)"})
    else:
        def val(n):
            v = {"assign": True, "pred": False}
            v.update(M.length_valuation(n))
            return v
        good = G.reach(val(FLUENT_ASSIGNMENT_LENGTH))
        bad = [n for n in (FLUENT_ASSIGNMENT_LENGTH - 1, FLUENT_ASSIGNMENT_LENGTH + 1) if stores & G.reach(val(n))]
        if not (stores & good):
            r.fail(Finding(rid, f, "assignment-length:well-formed-rejected", f"an assignment of exactly {FLUENT_ASSIGNMENT_LENGTH} items (= (f args) value) does not "
                           f"reach the store into initial_state_fluents: every initial fluent value is rejected"))
        elif bad:
            r.fail(Finding(rid, f, "assignment-length:ill-formed-accepted", f"an assignment of {bad[0]} items reaches the store into initial_state_fluents"))
        else:
            r.ok({"function": f.qn, "assignment_of_3_items": "stored", "other_lengths": "rejected"})
    # an accepted component is not rejected afterwards: once the fluent / the fact was stored no raise statement follows
    r.site(f"{f.qn} [accepted component returns]")
    falls = None
    for arm, val0, nodes in (("fluent", {"assign": True, "pred": False}, stores), ("fact", {"assign": False, "pred": True}, adds)):
        v = dict(val0)
        v.update(M.length_valuation(FLUENT_ASSIGNMENT_LENGTH))
        if ("assign" not in G.atoms_seen) or ("pred" not in G.atoms_seen):
            continue
        live = G.reach(v)
        for n in nodes & live:
            after = G.reach(v, start=n)
            if any(g.kind[x] == "raise" for x in after):
                falls = (arm, n)
    if falls:
        r.fail(Finding(rid, f, f"accepted-{falls[0]}:falls-through-to-raise", f"after the {falls[0]} was stored control can still reach a raise statement: a valid "
                       f"component is rejected", node=g.stmt[falls[1]]))
    else:
        r.ok({"function": f.qn, "after_store": "returns normally"})


def _goal_setup(repo: Repo):
    f = L.fn(repo, f"{CLS}.parse_goal_state")
    p = L.prov(repo, f)
    g = C.cfg_of(f.node)
    goal = _first_param(f)
    root = f"param:{goal}"

    def is_component(path) -> bool:
        # the goal list itself (its head token) or one of its conjuncts
        if path == (root,):
            return True
        return len(path) >= 2 and path[0] == root and ("elem" in path or "item" in path) and \
            all(s.startswith("slice:") or _positional((s,)) for s in path[1:]) and not any(_index_of(s) is not None for s in path[1:])

    M = _Component(repo, f, p, is_component)
    G = L.Guards(f, M)
    lits = _sink_calls(f, p, "goal_state_predicates")
    nums = _sink_calls(f, p, "goal_state_fluents")
    return f, p, g, goal, M, G, lits, nums


def _gate_goal(repo: Repo, r: RuleResult, rid: str) -> None:
    f, p, g, goal, M, G, lits, nums = _goal_setup(repo)
    lit_n, num_n = _nodes_of(g, lits), _nodes_of(g, nums)
    sinks = lit_n | num_n
    r.site(f"{f.qn} [goal head]")
    if not sinks:
        r.ok({"function": f.qn, "goal_head": "no goal sink found here (C05.goal reports that)"})
        return
    # only tests of the goal list's own head count (not the heads of the conjuncts)
    head_tests = [t for t in M.head_tests if t[2] == repr(GOAL_HEAD)]
    if "and" not in G.atoms_seen or not head_tests:
        r.fail(Finding(rid, f, "goal-head:unchecked", f"the head of the goal is never compared with {GOAL_HEAD!r} although everything after it is read as a conjunction: "
                       f"(:goal (p)) is accepted with no goal, (:goal (not (p))) as the goal (p)"))
    else:
        off, on = G.reach({"and": False}), G.reach({"and": True})
        if sinks & off:
            r.fail(Finding(rid, f, "goal-head:mismatch-accepted", f"a goal whose head is not {GOAL_HEAD!r} still reaches the stores of goal literals / conditions"))
        elif not (sinks & on):
            r.fail(Finding(rid, f, "goal-head:match-rejected", f"a goal whose head is {GOAL_HEAD!r} does not reach any store of goal literals / conditions"))
        else:
            r.ok({"function": f.qn, "goal_head": "'and' required"})
    r.site(f"{f.qn} [goal arms]")
    if not ({"op", "pred"} <= G.atoms_seen) or not lit_n or not num_n:
        r.ok({"function": f.qn, "goal_arms": "arms not separated by tests of the conjunct's head against predicates / operator table"})
        return
    v_num, v_lit = {"and": True, "op": True, "pred": False}, {"and": True, "op": False, "pred": True}
    r_num, r_lit = G.reach(v_num), G.reach(v_lit)
    bad = None
    if not (num_n & r_num):
        bad = ("goal-arm:numeric-condition-rejected", "a conjunct whose head is a comparison operator does not reach the store into goal_state_fluents")
    elif lit_n & r_num:
        bad = ("goal-arm:numeric-condition-as-literal", "a conjunct whose head is a comparison operator reaches the store of goal literals")
    elif not (lit_n & r_lit):
        bad = ("goal-arm:literal-rejected", "a conjunct whose head is a declared predicate does not reach the store into goal_state_predicates")
    elif num_n & r_lit:
        bad = ("goal-arm:literal-as-numeric-condition", "a conjunct whose head is a declared predicate reaches the store of numeric goal conditions")
    else:
        for what, val, nodes, calls in (("numeric-condition", v_num, num_n, nums), ("literal", v_lit, lit_n, lits)):
            loops = [lp for c in calls for lp in _enclosing_loops(f, c)[:1]]
            for lp in loops:
                if not L.must_pass_in_loop(G, val, lp, nodes):
                    bad = (f"goal-arm:{what}-dropped", f"a {what.replace('-', ' ')} conjunct can pass through one turn of the goal loop without being stored")
    if bad is None:
        # an accepted conjunct is not rejected afterwards
        for what, val, nodes, live in (("numeric-condition", v_num, num_n, r_num), ("literal", v_lit, lit_n, r_lit)):
            for n in nodes & live:
                if any(g.kind[x] == "raise" for x in G.reach(val, start=n)):
                    bad = (f"goal-arm:{what}-falls-through-to-raise", f"after a {what.replace('-', ' ')} was stored control can still reach a raise statement: a valid "
                           f"goal is rejected")
    if bad:
        r.fail(Finding(rid, f, bad[0], bad[1]))
    else:
        r.ok({"function": f.qn, "operator_head": "goal_state_fluents", "predicate_head": "goal_state_predicates"})


def _self_calls(repo: Repo, f: FuncInfo) -> List[ast.Call]:
    """recursive calls: the callee is the analysed function itself"""
    out = []
    for c in L.calls_in(f.node):
        if callee_name(c) != f.name:
            continue
        try:
            _cat, tg = repo.resolve_call(f, c)
        except Exception:
            tg = []
        if any(t is not None and t.qn == f.qn for _k, t, _c in tg) or (isinstance(c.func, ast.Attribute) and isinstance(c.func.value, ast.Name)
                                                                        and c.func.value.id == f.self_name):
            out.append(c)
    return out


def _token_paths(tr: Set[tuple], root: str) -> List[tuple]:
    """paths that denote one token of the list parameter (taken by index, by iteration, through enumerate / iter)"""
    return [x for x in tr if x[0] == root and len(x) >= 2 and _positional(x[1:]) and any(s in ("item", "elem") for s in x[1:])]


def _gate_nested(repo: Repo, r: RuleResult, rid: str) -> None:
    f = L.fn(repo, f"{CLS}.parse_objects")
    p = L.prov(repo, f)
    g = C.cfg_of(f.node)
    root = f"param:{_first_param(f)}"

    def m(e):
        if isinstance(e, ast.Call) and isinstance(e.func, ast.Name) and e.func.id == "isinstance" and len(e.args) == 2 and \
                isinstance(e.args[1], ast.Name) and e.args[1].id == "list":
            tr = _trace(p, e.args[0])
            if tr and len(_token_paths(tr, root)) == len(tr):
                return "nested"
        return None

    G = L.Guards(f, m)
    r.site(f"{f.qn} [nested block]")
    rec = _self_calls(repo, f)
    if "nested" not in G.atoms_seen or not rec:
        r.ok({"function": f.qn, "nested_blocks": "no isinstance(token, list) arm with a recursive call"})
        return
    flat_v, nest_v = {"nested": False}, {"nested": True}
    r_flat, r_nest = G.reach(flat_v), G.reach(nest_v)
    under_flat = G.under(flat_v, r_flat)
    bad = None
    for c in rec:
        if not c.args and not c.keywords:
            continue
        a = c.args[0] if c.args else c.keywords[0].value
        if G.reaches_expr(flat_v, c, seen=r_flat):
            tr = _trace(p, a, under=under_flat)
            # the recursion is fed with (a part of) the plain token itself
            if any(x[0] == root and any(s in ("item", "elem") for s in x[1:]) and all(_positional((s,)) or s.startswith("slice:") for s in x[1:]) for x in tr):
                bad = ("nested-block:plain-token-recursed", "a token that is not a list reaches the recursive call: plain names are taken for nested blocks and vanish", c)
    if bad is None and not any(G.reaches_expr(nest_v, c, seen=r_nest) for c in rec):
        bad = ("nested-block:never-recursed", "a nested list never reaches the recursive call", rec[0])
    if bad is None:
        # a nested list is not collected as a name
        for c in L.calls_in(f.node):
            if isinstance(c.func, ast.Attribute) and c.func.attr == "append" and c.args and G.reaches_expr(nest_v, c, seen=r_nest):
                tr = _trace(p, c.args[0], under=G.under(nest_v, r_nest))
                if tr and len(_token_paths(tr, root)) == len(tr):
                    bad = ("nested-block:collected-as-name", "a nested list reaches the collection of object names", c)
    if bad:
        r.fail(Finding(rid, f, bad[0], bad[1], node=bad[2]))
    else:
        r.ok({"function": f.qn, "nested_list": "recursive call", "plain_token": "collected / typed"})


def _gate_repeats(repo: Repo, r: RuleResult, rid: str) -> None:
    """which arguments count as repeated: the threshold on the occurrence count lies between 1 and 2"""
    f = L.fn(repo, f"{CLS}.parse_grounded_numeric_fluent")
    p = L.prov(repo, f)
    r.site(f"{f.qn} [repeated arguments]")
    tests = []
    for e in ast.walk(f.node):
        if isinstance(e, ast.Compare) and len(e.ops) == 1 and type(e.ops[0]) in _CMP:
            for a, b, flip in ((e.left, e.comparators[0], False), (e.comparators[0], e.left, True)):
                if isinstance(b, ast.Constant) and type(b.value) is int:
                    tr = _trace(p, a)
                    # the count component of the items of a Counter over the argument tokens
                    if tr and all("arg0:Counter" in x or x[0] == "ext:Counter" for x in tr) and any(x[0].startswith("param:") for x in tr) and \
                            all(x[-1] in ("unpack:1", "item:1", "item") or x[-1].startswith("call:") for x in tr) and \
                            not any(x[-1] == "item" and "askey" in x for x in tr):
                        op = _FLIP[type(e.ops[0])] if flip else type(e.ops[0])
                        tests.append((e, op, b.value))
    if not tests:
        r.ok({"function": f.qn, "repeat_threshold": "no comparison of an occurrence count with a constant"})
        return
    bad = [(e, op, c) for e, op, c in tests if _CMP[op](REPEAT_MIN - 1, c) == _CMP[op](REPEAT_MIN, c)]
    if bad:
        e, op, c = bad[0]
        r.fail(Finding(rid, f, "repeat-threshold", f"{unparse(e, 40)} does not separate one occurrence from {REPEAT_MIN}: an argument that occurs twice is not "
                       f"recorded as repeated (or every argument is), (f a a) is written back as (f a)", node=e))
    else:
        r.ok({"function": f.qn, "repeat_threshold": f"between {REPEAT_MIN - 1} and {REPEAT_MIN} occurrences"})


# ================================================================================================================ C05.positions
def rule_positions(repo: Repo, rid: str = "C05.positions") -> RuleResult:
    r = RuleResult(rid, "tokens are taken from the right positions: arguments = tokens[1:], conjuncts = goal[1:], block content = block[1:], "
                        "the deciding token of a component is its first one",
                   "exactly the listed facts / goals / objects; a fact is recognised by its first token")
    # (1) argument tokens of ground atoms / fluents
    for meth in ("parse_grounded_predicate", "parse_grounded_numeric_fluent"):
        f = L.fn(repo, f"{CLS}.{meth}")
        p = L.prov(repo, f)
        root = f"param:{_first_param(f)}"
        r.site(f"{f.qn} [argument tokens]")
        bad = None
        n_ok = 0
        for e in ast.walk(f.node):
            if isinstance(e, ast.Subscript) and isinstance(e.slice, ast.Slice) and isinstance(e.ctx, ast.Load):
                tr = _trace(p, e)
                for x in tr:
                    if len(x) == 2 and x[0] == root and _slice_of(x[1]) is not None:
                        lo, hi = _slice_of(x[1])
                        if hi is None and lo is not Ellipsis and lo is not None and e.slice.step is None:
                            if (lo, hi) != ARG_SLICE:
                                bad = (e, lo)
                            else:
                                n_ok += 1
        if bad:
            r.fail(Finding(rid, f, "argument-tokens", f"{unparse(bad[0], 50)}: the arguments of the atom / fluent are taken from token {bad[1] or 0} on instead of token 1 "
                           f"on: an argument is dropped (or the name is read as an argument), arity and types are checked against the wrong tokens", node=bad[0]))
        else:
            r.ok({"function": f.qn, "argument_tokens": "tokens[1:]", "slices": n_ok})
    # (2) conjuncts of the goal
    f, p, g, goal, M, G, lits, nums = _goal_setup(repo)
    root = f"param:{goal}"
    r.site(f"{f.qn} [conjuncts]")
    bad = None
    seen_ok = 0
    for c in lits + nums:
        for x in _trace(p, c.args[0]):
            if x[0] == root and len(x) >= 2:
                sl = _slice_of(x[1])
                if sl is not None and len(x) >= 3 and x[2] in ("elem", "item"):
                    if sl != GOAL_SLICE and Ellipsis not in sl:
                        bad = (c, f"goal[{'' if sl[0] is None else sl[0]}:{'' if sl[1] is None else sl[1]}]")
                    else:
                        seen_ok += 1
                elif x[1] == "elem":
                    bad = (c, "every item of the goal list, its head included")
    if bad:
        r.fail(Finding(rid, f, "goal-conjuncts", f"the conjuncts that are stored come from {bad[1]} instead of goal[1:]: a conjunct is dropped unchecked (or the head is "
                       f"read as a conjunct)", node=bad[0]))
    else:
        r.ok({"function": f.qn, "conjuncts": "goal[1:]", "paths": seen_ok})
    # (3) the deciding token
    G.reach({})
    for e in ast.walk(f.node):
        M(e)
    _head_index(r, rid, f, M)
    f2 = L.fn(repo, f"{CLS}.parse_state_component")
    p2 = L.prov(repo, f2)
    comp = _first_param(f2)
    M2 = _Component(repo, f2, p2, lambda path: path == (f"param:{comp}",))
    for e in ast.walk(f2.node):
        M2(e)
    _head_index(r, rid, f2, M2)
    # (4) content of a nested block of the object list
    f3 = L.fn(repo, f"{CLS}.parse_objects")
    p3 = L.prov(repo, f3)
    root3 = f"param:{_first_param(f3)}"
    r.site(f"{f3.qn} [nested block content]")
    bad = None
    for c in _self_calls(repo, f3):
        a = c.args[0] if c.args else (c.keywords[0].value if c.keywords else None)
        if a is None:
            continue
        for x in _trace(p3, a):
            if x[0] == root3 and len(x) >= 3 and _slice_of(x[-1]) is not None and _positional(x[1:-1]) and any(s in ("item", "elem") for s in x[1:-1]):
                sl = _slice_of(x[-1])
                if sl != BLOCK_SLICE and Ellipsis not in sl:
                    bad = (c, sl)
    if bad:
        r.fail(Finding(rid, f3, "nested-block-content", f"{unparse(bad[0], 60)}: the content of a nested block is taken from item {bad[1][0] or 0} on instead of item 1 on: "
                       f"the block's keyword becomes an object / its first object is lost", node=bad[0]))
    else:
        r.ok({"function": f3.qn, "nested_block_content": "block[1:]"})
    r.require_sites(6)
    return r


def _head_index(r: RuleResult, rid: str, f: FuncInfo, M: "_Component") -> None:
    r.site(f"{f.qn} [deciding token]")
    bad = [(e, k, what) for e, k, what in M.head_tests if k != HEAD_INDEX]
    if bad:
        e, k, what = bad[0]
        r.fail(Finding(rid, f, "deciding-token", f"{unparse(e, 60)}: token {k} of the component is tested against {what}; what a component is, is decided by its "
                       f"first token (token {HEAD_INDEX})", node=e))
    else:
        r.ok({"function": f.qn, "tests_of_the_first_token": len(M.head_tests)})


# ================================================================================================================ C05.pairing
def rule_pairing(repo: Repo, rid: str = "C05.pairing") -> RuleResult:
    r = RuleResult(rid, "constructor / helper arguments are paired with the right parameters: GroundedPredicate(name, signature, object_mapping), "
                        "PDDLObject(name, type), construct_expression_tree(component, functions)",
                   "the stored facts carry the names / types / arguments that were written")
    # GroundedPredicate
    f = L.fn(repo, f"{CLS}.parse_grounded_predicate")
    p = L.prov(repo, f)
    tokens = f"param:{_first_param(f)}"
    lifted = [x for x in f.params if x != f.self_name]
    lifted_root = f"param:{lifted[1]}" if len(lifted) > 1 else None
    init = repo.find_method("GroundedPredicate", "__init__")
    ctors = [c for c in L.calls_in(f.node) if callee_name(c) == "GroundedPredicate" and isinstance(c.func, ast.Name)]
    r.site(f"{f.qn} [GroundedPredicate]")
    bad = None
    for c in ctors:
        a_name, a_sig, a_map = (L.arg_of(c, init, pn, i) for i, pn in enumerate(("name", "signature", "object_mapping")))
        if a_name is not None:
            tr = _trace(p, a_name)
            if tr and not any("attr:name" in x or (x[0] == tokens and len(x) == 2 and _index_of(x[1]) == 0) for x in tr) and \
                    any(x[0].startswith("param:") for x in tr):
                bad = (c, "name", "the lifted predicate's name")
        if a_sig is not None:
            tr = _trace(p, a_sig)
            if tr and not any("attr:signature" in x for x in tr) and any(x[0].startswith("param:") for x in tr):
                bad = (c, "signature", "the lifted predicate's signature")
        if a_map is not None:
            ents = L.map_entries(_trace(p, a_map, keys=True))
            keys = [src for kind, src in ents if kind == "key" and "askey" not in src]        # (an index that selects a value is not the value)
            vals = [src for kind, src in ents if kind == "value" and "askey" not in src]
            if keys and vals:
                k_ok = any("attr:signature" in src for src in keys) and not any(src and src[0] == tokens for src in keys)
                v_ok = any(src and src[0] == tokens for src in vals) and not any("attr:signature" in src for src in vals)
                if not (k_ok and v_ok):
                    bad = (c, "object_mapping", "{parameter name (key, from the lifted signature): object name (value, from the argument tokens)}")
    if not ctors:
        r.ok({"function": f.qn, "GroundedPredicate": "not constructed here directly"})
    elif bad:
        r.fail(Finding(rid, f, f"argument-pairing:GroundedPredicate.{bad[1]}", f"{unparse(bad[0], 70)}: parameter `{bad[1]}` does not receive {bad[2]}", node=bad[0]))
    else:
        r.ok({"function": f.qn, "GroundedPredicate": "name / signature / object_mapping paired"})
    # PDDLObject
    f = L.fn(repo, f"{CLS}.parse_objects")
    p = L.prov(repo, f)
    tokens = f"param:{_first_param(f)}"
    init = repo.find_method("PDDLObject", "__init__")
    ctors = [c for c in L.calls_in(f.node) if callee_name(c) == "PDDLObject" and isinstance(c.func, ast.Name)]
    r.site(f"{f.qn} [PDDLObject]")
    bad = None
    for c in ctors:
        a_name, a_type = L.arg_of(c, init, "name", 0), L.arg_of(c, init, "type", 1)
        for pn, a in (("name", a_name), ("type", a_type)):
            if a is None:
                continue
            tr = _trace(p, a)
            if not tr:
                continue
            from_types = any("attr:types" in x for x in tr)
            from_tokens = any(x[0] == tokens and "askey" not in x for x in tr)
            if pn == "name" and from_types and not from_tokens:
                bad = (c, pn, "an object name (a token of the list)")
            if pn == "type" and from_tokens and not from_types:
                bad = (c, pn, "a type looked up in domain.types")
    if not ctors:
        r.ok({"function": f.qn, "PDDLObject": "not constructed here directly"})
    elif bad:
        r.fail(Finding(rid, f, f"argument-pairing:PDDLObject.{bad[1]}", f"{unparse(bad[0], 70)}: parameter `{bad[1]}` does not receive {bad[2]}", node=bad[0]))
    else:
        r.ok({"function": f.qn, "PDDLObject": "name <- token, type <- domain.types[..]"})
    # construct_expression_tree
    f, p, g, goal, M, G, lits, nums = _goal_setup(repo)
    root = f"param:{goal}"
    r.site(f"{f.qn} [numeric goal tree]")
    builders = [c for c in L.calls_in(f.node) if callee_name(c) == "construct_expression_tree"]
    bad = None
    for c in builders:
        try:
            _cat, tg = repo.resolve_call(f, c)
        except Exception:
            tg = []
        callee = next((t for _k, t, _c in tg if t is not None), None)
        params = [x for x in callee.params] if callee is not None else []
        for i, role in TREE_BUILDER_ARGS.items():
            a = L.arg_of(c, callee, params[i], i) if callee is not None and i < len(params) else (c.args[i] if i < len(c.args) else None)
            if a is None:
                continue
            tr = _trace(p, a)
            if not tr:
                continue
            is_funcs = any(x[-1] == "attr:functions" for x in tr)
            is_comp = any(x[0] == root for x in tr)
            if role == "component" and is_funcs and not is_comp:
                bad = (c, i, "the goal conjunct")
            if role == "functions" and is_comp and not is_funcs:
                bad = (c, i, "the domain's functions")
    if not builders:
        r.ok({"function": f.qn, "numeric_goal_tree": "no direct call of construct_expression_tree (C05.goal decides)"})
    elif bad:
        r.fail(Finding(rid, f, f"argument-pairing:construct_expression_tree.{bad[1]}", f"{unparse(bad[0], 70)}: argument {bad[1]} is not {bad[2]}", node=bad[0]))
    else:
        r.ok({"function": f.qn, "construct_expression_tree": "(conjunct, domain.functions)"})
    r.require_sites(3)
    return r


# ================================================================================================================ C05.walks
FIRST_TOKEN = 0                # a token walk with an explicit cursor starts at the first token


def rule_walks(repo: Repo, rid: str = "C05.walks") -> RuleResult:
    r = RuleResult(rid, "the walks are complete: every :init component reaches the component handler, every goal conjunct and every object token is "
                        "visited (loops not left early, a cursor starts at 0, runs to the end and advances by exactly the tokens it consumed), the objects of "
                        "a nested block are merged into the result",
                   "exactly the listed initial facts, goal conditions and declared objects")
    _walk_init(repo, r, rid)
    _walk_goal(repo, r, rid)
    _walk_objects(repo, r, rid)
    r.require_sites(4)
    return r


def _direct_elements(tr: Set[tuple], root: str) -> Tuple[bool, Optional[tuple]]:
    """(some path says `an element of the parameter, taken by iteration`, a slice that restricts the iteration if any)"""
    hit, sl = False, None
    for x in tr:
        if x[0] != root or not ("elem" in x or "item" in x):
            continue
        i = min(x.index(s) for s in ("elem", "item") if s in x)        # by iteration or by a running index
        pre = x[1:i]
        if all(s.startswith("slice:") or _positional((s,)) for s in pre) and not any(s in ("item",) or _index_of(s) is not None for s in pre):
            hit = True
            for s in pre:
                if s.startswith("slice:") and _slice_of(s) not in ((None, None), (0, None)):
                    sl = _slice_of(s)
    return hit, sl


def _walk_init(repo: Repo, r: RuleResult, rid: str) -> None:
    f = L.fn(repo, f"{CLS}.parse_initial_state", also={"parse_state_component"})
    p = L.prov(repo, f)
    g = C.cfg_of(f.node)
    root = f"param:{_first_param(f)}"
    G = L.Guards(f, lambda e: None)
    r.site(f"{f.qn} [every component handled]")
    stores = _assign_stores(f, p, "initial_state_fluents")
    adds = _sink_calls(f, p, "initial_state_predicates")
    handlers = [c for c in L.calls_in(f.node) if callee_name(c) == "parse_state_component" and (c.args or c.keywords)]
    fed = []          # (sink statement / call, restricting slice)
    for s in stores:
        hit, sl = _direct_elements(_trace(p, s.value), root)
        if hit:
            fed.append((s, sl, "fluent"))
    for c in adds:
        hit, sl = _direct_elements(_trace(p, c.args[0]), root)
        if hit:
            fed.append((c, sl, "fact"))
    for c in handlers:
        a = c.args[0] if c.args else c.keywords[0].value
        hit, sl = _direct_elements(_trace(p, a), root)
        if hit:
            fed.append((c, sl, "fluent"))
            fed.append((c, sl, "fact"))
    kinds = {k for _s, _sl, k in fed}
    if kinds != {"fluent", "fact"}:
        miss = sorted({"fluent", "fact"} - kinds)
        r.fail(Finding(rid, f, "init-walk:components-not-handled", f"the items of the :init list do not reach the store of initial {' / '.join(miss)}s (through "
                       f"parse_state_component): the initial state stays empty and none of its facts is validated"))
        return
    cut = [(s, sl) for s, sl, _k in fed if sl is not None and Ellipsis not in sl]
    for s, _sl, _k in fed:
        # a running index: range(k, len(items)) with k > 0 leaves the first items out
        e = s.value if isinstance(s, ast.Assign) else (s.args[0] if s.args else s.keywords[0].value)
        keyp = [x for x in _trace(p, e, keys=True) if "askey" in x]
        starts = [x for x in keyp if "arg0:range" in x and x[0].startswith("const:")]
        if starts and any("arg1:range" in x for x in keyp):
            try:
                k0 = int(starts[0][0][6:])
            except ValueError:
                continue
            if k0 != 0:
                cut.append((s, (k0, None)))
    if cut:
        r.fail(Finding(rid, f, "init-walk:partial", f"only the items [{cut[0][1][0] or ''}:{cut[0][1][1] or ''}] of the :init list are handled", node=cut[0][0]))
        return
    early = None
    for s, _sl, _k in fed:
        for lp in _enclosing_loops(f, s)[:1]:
            if L.leaves_loop_early(G, {}, lp):
                early = lp
    if early is not None:
        r.fail(Finding(rid, f, "init-walk:left-early", "the loop over the :init items can be left before the last item: later facts are neither stored nor validated", node=early))
    else:
        r.ok({"function": f.qn, "every_init_item": "handled by parse_state_component / stored"})


def _walk_goal(repo: Repo, r: RuleResult, rid: str) -> None:
    f, p, g, goal, M, G, lits, nums = _goal_setup(repo)
    r.site(f"{f.qn} [every conjunct visited]")
    loops = []
    for c in lits + nums:
        for lp in _enclosing_loops(f, c)[:1]:
            if isinstance(lp, ast.For) and not any(lp is o for o in loops):
                loops.append(lp)
    early = [lp for lp in loops if L.leaves_loop_early(G, {"and": True}, lp)]
    if early:
        r.fail(Finding(rid, f, "goal-walk:left-early", "the loop over the goal conjuncts can be left (break / return) before the last conjunct: later goal conditions "
                       "are neither stored nor validated", node=early[0]))
    else:
        r.ok({"function": f.qn, "goal_loops": len(loops), "left_early": False})


def _flows_to_return(f: FuncInfo, e: ast.AST) -> bool:
    """L.flows_to_return, also through the target of a loop that iterates over the value (`for k, v in e.items(): out[k] = v`)"""
    if L.flows_to_return(f, e):
        return True
    pm = L.parents_of(f)
    st = e
    while st in pm and not isinstance(st, ast.stmt):
        st = pm[st]
    if isinstance(st, ast.Assign) and not any(e is y for t in st.targets for y in ast.walk(t)):
        # `box[k] = e`: the value is in the container from here on
        for t in st.targets:
            if isinstance(t, ast.Subscript) and isinstance(t.value, ast.Name):
                for u in ast.walk(f.node):
                    if isinstance(u, ast.Name) and isinstance(u.ctx, ast.Load) and u.id == t.value.id and not any(u is y for y in ast.walk(st)):
                        if L.flows_to_return(f, u):
                            return True
    for lp in ast.walk(f.node):
        if isinstance(lp, ast.For) and any(x is e for x in ast.walk(lp.iter)):
            names = C.target_names(lp.target)
            for u in ast.walk(lp):
                if isinstance(u, ast.Name) and isinstance(u.ctx, ast.Load) and u.id in names and not any(u is y for y in ast.walk(lp.iter)):
                    if _flows_to_return(f, u):
                        return True
    return False


class _Unknown(Exception):
    pass


def _cursor_walk(f: FuncInfo, p, root: str):
    """(while loop, cursor name) for `while <cursor> .. len(<list parameter>)` loops"""
    out = []
    for lp in ast.walk(f.node):
        if not isinstance(lp, ast.While):
            continue
        for e in ast.walk(lp.test):
            if isinstance(e, ast.Compare) and len(e.ops) == 1:
                for a, b in ((e.left, e.comparators[0]), (e.comparators[0], e.left)):
                    if isinstance(a, ast.Name) and _trace(p, b) and all(x == (root, "arg0:len") for x in _trace(p, b)):
                        out.append((lp, a.id))
    return out


def _eval_int(e: ast.AST, env: Dict[str, int], is_len: Callable[[ast.AST], bool], n: int):
    if isinstance(e, ast.Constant) and type(e.value) in (int, bool):
        return e.value
    if isinstance(e, ast.Name) and e.id in env:
        return env[e.id]
    if is_len(e):
        return n
    if isinstance(e, ast.BinOp) and isinstance(e.op, (ast.Add, ast.Sub)):
        a, b = _eval_int(e.left, env, is_len, n), _eval_int(e.right, env, is_len, n)
        return a + b if isinstance(e.op, ast.Add) else a - b
    if isinstance(e, ast.UnaryOp) and isinstance(e.op, ast.Not):
        return not _eval_int(e.operand, env, is_len, n)
    if isinstance(e, ast.UnaryOp) and isinstance(e.op, ast.USub):
        return -_eval_int(e.operand, env, is_len, n)
    if isinstance(e, ast.BoolOp):
        vs = [_eval_int(v, env, is_len, n) for v in e.values]
        return all(vs) if isinstance(e.op, ast.And) else any(vs)
    if isinstance(e, ast.Compare) and len(e.ops) == 1 and type(e.ops[0]) in _CMP:
        return _CMP[type(e.ops[0])](_eval_int(e.left, env, is_len, n), _eval_int(e.comparators[0], env, is_len, n))
    raise _Unknown(ast.dump(e)[:60])


def _cursor_offset(ix: ast.AST, cursor: str) -> int:
    """index expression relative to the cursor: cursor -> 0, cursor + k -> k"""
    if isinstance(ix, ast.Name) and ix.id == cursor:
        return 0
    if isinstance(ix, ast.BinOp) and isinstance(ix.op, (ast.Add, ast.Sub)):
        if isinstance(ix.op, ast.Add) and isinstance(ix.right, ast.Name) and ix.right.id == cursor:
            return _fold_or_unknown(ix.left)
        if isinstance(ix.left, ast.Name) and ix.left.id == cursor:
            k = _fold_or_unknown(ix.right)
            return k if isinstance(ix.op, ast.Add) else -k
    raise _Unknown("index")


def _only_tested(pm: dict, sub: ast.AST) -> bool:
    """the value read is only compared / type-tested where it is read (a peek), not taken as data"""
    par = pm.get(sub)
    if isinstance(par, ast.Compare):
        return True
    return isinstance(par, ast.Call) and isinstance(par.func, ast.Name) and par.func.id in ("isinstance", "type") and par.args and par.args[0] is sub


def _fold_or_unknown(e: ast.AST) -> int:
    try:
        return _fold_int(e)
    except ValueError:
        raise _Unknown("not constant")


def _walk_objects(repo: Repo, r: RuleResult, rid: str) -> None:
    f = L.fn(repo, f"{CLS}.parse_objects")
    p = L.prov(repo, f)
    g = C.cfg_of(f.node)
    root = f"param:{_first_param(f)}"
    G = L.Guards(f, lambda e: None)
    # the token loops: outermost loops in which a token of the list is collected as a name
    loops = []
    for c in L.calls_in(f.node):
        if isinstance(c.func, ast.Attribute) and c.func.attr in ("append", "add") and c.args:
            tr = _trace(p, c.args[0])
            if tr and _token_paths(tr, root):
                for lp in _enclosing_loops(f, c)[:1]:
                    if not any(lp is o for o in loops):
                        loops.append(lp)
    r.site(f"{f.qn} [every token visited]")
    decidable = [lp for lp in loops if isinstance(lp, ast.For) or not (isinstance(lp.test, ast.Constant) and lp.test.value is True)]
    early = [lp for lp in decidable if L.leaves_loop_early(G, {}, lp)]
    if early:
        r.fail(Finding(rid, f, "object-walk:left-early", "the loop over the object tokens can be left (break / return) before the last token: the objects declared "
                       "after that point are missing", node=early[0]))
    else:
        r.ok({"function": f.qn, "token_loops": len(loops), "left_early": False})
    # nested blocks: what the recursive call returns becomes part of the result
    r.site(f"{f.qn} [nested block merged]")
    rec = _self_calls(repo, f)
    lost = [c for c in rec if not _flows_to_return(f, c)]
    if lost:
        r.fail(Finding(rid, f, "nested-block:result-dropped", f"{unparse(lost[0], 60)}: the objects parsed from a nested block do not become part of the returned objects",
                       node=lost[0]))
    else:
        r.ok({"function": f.qn, "recursive_calls": len(rec), "merged_into_result": True})
    # explicit cursor
    r.site(f"{f.qn} [cursor]")
    walks = [(lp, cur) for lp, cur in _cursor_walk(f, p, root) if any(lp is o for o in loops)]
    if not walks:
        r.ok({"function": f.qn, "cursor": "no `while cursor < len(tokens)` walk (iteration visits every token by construction)"})
        return
    for lp, cur in walks[:1]:
        bad = _cursor_findings(f, p, g, root, lp, cur)
        if bad is None:
            r.ok({"function": f.qn, "cursor": "not decided (cursor arithmetic not constant)"})
        elif bad:
            r.fail(Finding(rid, f, bad[0], bad[1], node=bad[2]))
        else:
            r.ok({"function": f.qn, "cursor": "starts at 0, runs while cursor < len(tokens), advances by the tokens consumed on every path"})


def _cursor_findings(f: FuncInfo, p, g: C.CFG, root: str, lp: ast.While, cur: str):
    """None = not decidable; () = fine; (role, text, node) = violated"""
    head = g.node_of(lp)
    rd = L.rd_of(f)
    inside = {g.node_of(x) for x in ast.walk(lp) if isinstance(x, (ast.stmt, ast.ExceptHandler)) and x is not lp}
    inside.discard(None)

    def is_len(e):
        tr = _trace(p, e) if isinstance(e, (ast.Call, ast.Name)) and not (isinstance(e, ast.Name) and e.id == cur) else set()
        return bool(tr) and all(x == (root, "arg0:len") for x in tr)

    def is_list(e):
        tr = _trace(p, e)
        return bool(tr) and all(x == (root,) for x in tr)

    # (1) start value
    inits = [d for d in rd.defs_reaching(head, cur) if d not in inside]
    vals = set()
    for d in inits:
        st = g.stmt[d]
        v = st.value if isinstance(st, (ast.Assign, ast.AnnAssign)) else None
        try:
            vals.add(_fold_int(v) if v is not None else None)
        except ValueError:
            vals.add(None)
    if not vals or None in vals:
        return None
    if vals != {FIRST_TOKEN}:
        return ("object-walk:start", f"the cursor over the object tokens starts at {sorted(vals)} instead of {FIRST_TOKEN}: the first token(s) are never looked at", g.stmt[inits[0]])
    # (2) the loop condition is `cursor < len(tokens)`
    try:
        for n in (1, 2, 3):
            for k in range(0, n + 1):
                if bool(_eval_int(lp.test, {cur: k}, is_len, n)) != (k < n):
                    what = "the walk is not entered / stops before the last token" if k < n else "the walk runs past the last token"
                    return ("object-walk:condition", f"`{unparse(lp.test, 50)}` is {k >= n} with the cursor at {k} of {n} tokens: {what}", lp)
    except _Unknown:
        return None
    # (3) every turn advances by exactly the tokens it consumed (a token that is only peeked at in a test is not consumed by that)
    pm = L.parents_of(f)
    try:
        paths = C.acyclic_paths(g, head, lambda n: n == head, limit=4000)
    except RuntimeError:
        return None
    try:
        for path in paths:
            if len(path) < 2 or path[0] != (head, "iter"):
                continue
            last = path[-1]
            if not (last[0] == head and last[1] == "back"):
                continue            # raises / leaves the loop (the early-exit clause decides that)
            adv, reads, data_reads = 0, set(), set()
            for n, _lab in path[1:-1]:
                st = g.stmt[n]
                h = C.header(st) if st is not None else None
                if h is None:
                    continue
                moved = None
                if isinstance(st, ast.AugAssign) and isinstance(st.target, ast.Name) and st.target.id == cur:
                    if not isinstance(st.op, (ast.Add, ast.Sub)):
                        raise _Unknown("cursor op")
                    k = _fold_or_unknown(st.value)
                    moved = k if isinstance(st.op, ast.Add) else -k
                    h = st.value
                elif isinstance(st, (ast.Assign, ast.AnnAssign)) and cur in C.defs_of(st):
                    if isinstance(st, ast.Assign) and not (len(st.targets) == 1 and isinstance(st.targets[0], ast.Name)):
                        raise _Unknown("cursor unpacked")
                    moved = _cursor_offset(st.value, cur)
                    h = ast.Constant(value=0)
                elif cur in C.defs_of(st):
                    raise _Unknown("cursor rebound")
                for sub in ast.walk(h):
                    if isinstance(sub, ast.Subscript) and isinstance(sub.ctx, ast.Load) and not isinstance(sub.slice, ast.Slice) and is_list(sub.value):
                        reads.add(adv + _cursor_offset(sub.slice, cur))
                        if not _only_tested(pm, sub):
                            data_reads.add(adv + _cursor_offset(sub.slice, cur))
                if moved is not None:
                    adv += moved
            if not reads:
                raise _Unknown("no token read on a path")
            at = next((g.stmt[n] for n, _l in reversed(path[1:-1]) if isinstance(g.stmt[n], (ast.AugAssign, ast.Assign)) and cur in C.defs_of(g.stmt[n])), lp)
            if adv < 1:
                return ("object-walk:advance", f"a turn of the token loop that looks at token(s) {sorted(reads)} leaves the cursor where it was (advance {adv}): the walk "
                        f"never ends", at)
            if data_reads and max(data_reads) > adv - 1:
                return ("object-walk:advance", f"a turn of the token loop reads the tokens at offsets {sorted(reads)} but advances the cursor by {adv}: token "
                        f"{adv} is read again as if it were new (a type name becomes an object)", at)
            if max(reads) < adv - 1 or set(range(adv)) - reads:
                miss = sorted(set(range(adv)) - reads)
                return ("object-walk:advance", f"a turn of the token loop reads the tokens at offsets {sorted(reads)} but advances the cursor by {adv}: token(s) "
                        f"{miss} are skipped unseen (declared objects are lost)", at)
    except _Unknown:
        return None
    return ()
