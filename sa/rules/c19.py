"""C19 -- planner logs yield exactly the plan's steps, in order."""
from __future__ import annotations

import ast
import warnings
from typing import Dict, List, Optional, Set, Tuple

with warnings.catch_warnings():
    warnings.simplefilter("ignore")
    import re._parser as sre_parse  # type: ignore
    import re._constants as sre_c  # type: ignore

from .. import cfg as C
from .. import lib as L
from .. import strshape as S
from ..core import AnalysisError, FuncInfo, Repo, unparse
from ..prov import callee_name
from ..report import Finding, RuleResult
from . import _c19_util as U

FF = "exporters.ff_output_parser"
FF_STATUS = "MetricFFParser.get_solving_status"
FF_WRITE = "MetricFFParser.parse_plan"
EN_READ = "ENHSPParser.parse_plan_content"
EN_WRITE = "ENHSPParser.parse_plan"
MARKER_NAME = "VALID_PLAN_FOUND_PATTERN"
MARKER_TEXT = "found legal plan"
STEP_REGEX_NAME = "PLAN_COMPONENT_REGEX"
RE_DOTALL, RE_MULTILINE = 16, 8
# oracle: the texts by which Metric-FF says that the problem has NO solution (the entries of NO_SOLUTION_OPTIONS as shipped).  A plan-less
# log that contains one of them is 'no-solution', every other plan-less log (cut off / empty / still searching) is 'timeout'.
NO_SOLUTION_NAMES = ("NO_SOLUTION_OPTIONS", "NO_SOLUTION_FOUND_PATTERN", "NO_SOLUTION_FOUND_PATTERN_2", "NO_SOLUTION_FOUND_PATTERN_3")
NO_SOLUTION_TEXTS = ("problem proven unsolvable", "goal can be simplified to FALSE", "all increasers applied yet goal not fulfilled")
# marker families: guard atom -> (texts one of which the searched string contains, module constants that hold such a string)
FAMILIES = {
    "found": ((MARKER_TEXT,), (MARKER_NAME,)),                   # the plan marker: decides 'ok'
    "unsolvable": (NO_SOLUTION_TEXTS, NO_SOLUTION_NAMES),         # decides between 'no-solution' and 'timeout'
}
# sizes of the collected step list for which the result is judged (C19.lower [non-empty result]); one more than every constant a length
# test compares with is added
STEP_COUNTS = (1, 2)

EXPLANATION = (
    "All clauses are decided on the PUBLIC functions (MetricFFParser.get_solving_status / parse_plan, ENHSPParser.parse_plan_content / "
    "parse_plan) with every helper of the class / module inlined (private or not), values followed through local aliases, conditional "
    "expressions, tuple assignments and module / class constants, and branches decided by valuation of the guard 'the found-plan marker "
    "is in the log' (re.search of the marker compared with None or used as truth value, marker in text, text.find(marker) compared "
    "with -1, directly or through a compiled pattern / boolean local / helper); reaching definitions are recomputed on the part of "
    "the CFG that the valuation allows. Before anything is judged the flattened body is brought into a normal form and flattened again "
    "until nothing changes: calls of callable values are replaced by what they evaluate (lambdas and one-expression local functions, "
    "module-level NAME = lambda / operator.methodcaller / attrgetter / itemgetter / functools.partial / TEMPLATE.format, operator.* "
    "functions, str.lower(x)), map / filter become generator expressions, a loop or comprehension over a one-generator comprehension is "
    "fused with it, private generator helpers consumed inside an inlined helper are expanded, constant dicts indexed with a constant "
    "(or a {True:, False:} table indexed with a boolean) give the selected value, fields / one-expression properties and methods of a "
    "freshly built NamedTuple / dataclass record give the constructor argument; values are additionally followed through table rows "
    "(loop variables over a constant table, TABLE[key] with the keys possible under the valuation, next(generator, default)) and a "
    "test whose value is a constant chosen by the marker test (a classification record / row, also through a one-expression property "
    "of the record) counts as the marker test itself. Further exact normal forms: a table written inside the function (a local bound "
    "once to a display of constants / record constructors and only iterated) is iterated as the display (the flattener then writes "
    "the loop / any() / next() out), locals and module names bound once to literals (also by `a, b = x, y`) are the literals, "
    "one-expression helpers called inside comprehensions are applied in place, TABLE[name](args) / TABLE.get(name, d) over string keys "
    "become the entries chosen by name == key (the lookup as written stays as last alternative unless the name can only hold keys), a "
    "conditional expression with a pure test and a helper call in a branch splits its statement, `xs = xs + [e]` / `xs = [*xs, e]` on a "
    "list nothing else observes is `xs += [e]`, single-use aliases of generator expressions / generator helpers are put where they are "
    "consumed, comprehension variables are renamed apart from other bindings. The text in which the marker is searched must come "
    "from what the function was given (a search in a constant / in the marker itself is not the found-plan test). "
    "C19.regex: the step pattern is the one that reaches the finditer / findall call (re.<fn>(pattern, ...) or a compiled pattern; "
    "literal, module or class constant) whose matches become the returned steps; its regex AST (re._parser) is inspected: the step "
    "prefix is a digit followed by ':', the capture group is a repeat over a character class none of whose members can match a line "
    "break (no \\s, no negated class, no '.' under DOTALL -- flags are taken from the call, the compile call and the pattern itself), "
    "and the group is followed by a line terminator ('$' only counts under MULTILINE), so a step cannot extend over the end of its "
    "line. C19.lower: the list returned with status 'ok' is built by exactly one unconditional repetition over the matches in match "
    "order (loop + append / += / extend, comprehension; string-shape evaluation; no filter, break, continue, sorted / reversed / set, "
    "slice), every element has the shape '(' step ')\\n' (f-string, +, format, %, join) and step is group(1) of the match (the element "
    "itself for findall with one group) with lower() and strip() applied and nothing else; the scanned text is the log the function "
    "was given (no piece of a split text; a slice bound that comes from str.find must be unreachable when find returned -1); what "
    "parse_plan writes (writelines / write in a loop / write(''.join())) is that same list, to a freshly opened file at the output "
    "path. Tests on the NUMBER of steps (len(xs) <op> c, xs == [], truth value of xs, over the collected list, any copy of it, or the "
    "list of matches it is built from one-to-one) are evaluated for every size n >= 1 that the constants distinguish: when they decide "
    "that for some n only empty lists are returned [non-empty result] / that the writing is skipped [non-empty plan is written], the "
    "guard does not single out the empty plan. "
    "C19.status: with the marker present every return is ('ok', <computed actions>), with the marker absent every return "
    "carries 'no-solution' or 'timeout' and an empty list, and the end of the body is not reached without a return (decided under "
    "complete valuations of the marker atoms). A plan-less log is classified by the no-solution markers (NO_SOLUTION_TEXTS, recognised "
    "in the same forms as the plan marker: atom 'unsolvable'): both classes can be returned [status:classes]; where the valuation of "
    "'unsolvable' decides the class it is 'no-solution' for a marker in the log and 'timeout' for none [status:unsolvable=..]; a regular "
    "expression call whose pattern is the log and whose text is a marker has its arguments the wrong way round [status:search-arguments]. "
    "One-expression helpers called in the later operands of and / or are applied in place (normal form). C19.enhsp: one output line per line of the input file (opened on the path "
    "parameter in text mode; readlines() or iteration), lower-cased and otherwise untouched, no filter, order kept; parse_plan writes "
    "that list back. C19.cache: no memoising decorator (resolved through import aliases) and no hand-written memo dict at module / "
    "class level on a function that reads external state or receives mutable objects."
)
UNDECIDED = "that a real planner's log contains nothing else that matches the step pattern (log layout is an assumption)"


# ------------------------------------------------------------------------------------------------------------ regex AST
def _can_match_newline(items, dotall: bool = False) -> List[str]:
    """reasons why some item of the (sub)pattern can match '\\n' or '\\r'"""
    out = []
    for op, av in items:
        if op == sre_c.LITERAL and av in (10, 13):
            out.append("literal line break")
        elif op == sre_c.NOT_LITERAL:
            out.append(f"negated literal [^{chr(av)}]")
        elif op == sre_c.ANY:
            if dotall:
                out.append("'.' with DOTALL")   # '.' does not match \n without DOTALL
        elif op == sre_c.CATEGORY:
            if av in (sre_c.CATEGORY_SPACE, sre_c.CATEGORY_NOT_DIGIT, sre_c.CATEGORY_NOT_WORD):
                out.append(f"category {str(av).lower()}")
        elif op == sre_c.IN:
            neg = any(o == sre_c.NEGATE for o, _ in av)
            if neg:
                members = [x for x in av if x[0] != sre_c.NEGATE]
                excl_nl = any((o == sre_c.LITERAL and a == 10) or (o == sre_c.CATEGORY and a == sre_c.CATEGORY_SPACE) for o, a in members)
                if not excl_nl:
                    out.append("negated class that does not exclude the line break")
            else:
                for o, a in av:
                    if o == sre_c.LITERAL and a in (10, 13):
                        out.append("line break inside the class")
                    elif o == sre_c.CATEGORY and a in (sre_c.CATEGORY_SPACE, sre_c.CATEGORY_NOT_DIGIT, sre_c.CATEGORY_NOT_WORD):
                        out.append("\\s (or a negated category) inside the class")
                    elif o == sre_c.RANGE and a[0] <= 10 <= a[1]:
                        out.append("range containing the line break")
        elif op in (sre_c.MAX_REPEAT, sre_c.MIN_REPEAT, sre_c.POSSESSIVE_REPEAT):
            out += _can_match_newline(list(av[2]), dotall)
        elif op == sre_c.SUBPATTERN:
            out += _can_match_newline(list(av[3]), dotall)
        elif op == sre_c.ATOMIC_GROUP:
            out += _can_match_newline(list(av), dotall)
        elif op == sre_c.BRANCH:
            for alt in av[1]:
                out += _can_match_newline(list(alt), dotall)
    return out


def _is_digit_item(op, av) -> bool:
    if op == sre_c.IN:
        return any((o == sre_c.CATEGORY and a == sre_c.CATEGORY_DIGIT) or (o == sre_c.RANGE and a == (48, 57)) for o, a in av)
    if op in (sre_c.MAX_REPEAT, sre_c.MIN_REPEAT, sre_c.POSSESSIVE_REPEAT):
        return any(_is_digit_item(o, a) for o, a in av[2])
    return False


def _terminates(items, multiline: Optional[bool]) -> Optional[bool]:
    """some item after the group ends the line: a line-break literal, '$' under MULTILINE, or a look-ahead for one of them.
    None: it depends on flags that could not be decided"""
    unknown = False
    for op, av in items:
        if op == sre_c.LITERAL and av == 10:
            return True
        if op == sre_c.AT and av == sre_c.AT_END_LINE:
            return True
        if op == sre_c.AT and av == sre_c.AT_END:
            if multiline:
                return True
            if multiline is None:
                unknown = True
        if op == sre_c.ASSERT and av[0] == 1:
            t = _terminates(list(av[1]), multiline)
            if t:
                return True
            unknown = unknown or t is None
        if op == sre_c.BRANCH:
            ts = [_terminates(list(alt), multiline) for alt in av[1]]
            if ts and all(ts):
                return True
            unknown = unknown or (ts and all(t is None or t for t in ts))
        if op == sre_c.SUBPATTERN:
            t = _terminates(list(av[3]), multiline)
            if t:
                return True
            unknown = unknown or t is None
    return None if unknown else False


def _parse(pat: str):
    with warnings.catch_warnings():
        warnings.simplefilter("ignore")
        try:
            return sre_parse.parse(pat)
        except Exception as ex:   # re.error
            raise AnalysisError(f"step pattern {pat!r} is not a valid regular expression ({ex})")


def _group_count(pat: str) -> int:
    return _parse(pat).state.groups - 1


# ------------------------------------------------------------------------------------------------------------ shared model
class _Steps:
    """result of interpreting one list-of-steps value"""

    def __init__(self):
        self.valid = False
        self.problems: List[str] = []      # the element / repetition differs from what is demanded  (role step-text / per-line)
        self.shape_problem = False         # the list is not one repetition over the matches at all   (role result)
        self.scans: List[U.Scan] = []
        self.loops: List[ast.AST] = []     # the for statements / comprehensions that repeat over the matches (lines)
        self.rendered: Optional[str] = None
        self.node: Optional[ast.AST] = None


def _fmt_ops(ops) -> str:
    return "".join(f".{n}({', '.join(map(str, a))})" if n not in ("item", "slice") else (f"[{a[0]}]" if n == "item" else "[:]") for n, a, _ in ops) or "<unchanged>"


def _escapes(loop_node: Optional[ast.AST]) -> Optional[str]:
    """a statement in the body of the for loop that leaves it or skips the rest of an iteration (break / continue / return / raise,
    also the return of an inlined helper that jumps out of the loop)"""
    if not isinstance(loop_node, ast.For):
        return None
    inner_labels = {getattr(s, "label", None) for s in C.stmts_in(loop_node.body) if getattr(s, "_inline_block", False)}
    for s in C.stmts_in(loop_node.body):
        if isinstance(s, (ast.Break, ast.Continue, ast.Return, ast.Raise)):
            return type(s).__name__.lower()
        if getattr(s, "_inline_jump", False) and getattr(s, "label", None) not in inner_labels:
            return "return"
    return None


class _Model:
    """one public anchor: flattened function, guards on the found-plan marker, views per valuation"""

    def __init__(self, repo: Repo, spec: str, with_marker: bool):
        self.repo = repo
        self.f = U.anchor(repo, spec)
        self.p = L.prov(repo, self.f)
        self._log_leaves: Optional[Set[int]] = None
        self._plain = U.View(repo, self.f, L.Guards(self.f, lambda e: None), {})
        self.G = L.Guards(self.f, self._marker_atom if with_marker else (lambda e: None))
        self._views: Dict[Tuple, U.View] = {}
        if with_marker and "found" in self.G.atoms_seen:
            self._derive_atoms()

    def _derive_atoms(self) -> None:
        """a test that is not a marker test itself but whose value is a constant decided by the marker test (a classification
        record / table row chosen by it: `if outcome.has_plan:`, `if kind == "plan":`) is the same atom: it evaluates to a truthy
        constant on every path with the marker present and to a falsy one on every path with the marker absent (or the reverse)"""
        base = self.G
        vt = U.View(self.repo, self.f, base, {"found": True, "nonempty": True})
        vf = U.View(self.repo, self.f, base, {"found": False})
        tests: List[ast.AST] = []
        for n in ast.walk(self.f.node):
            if isinstance(n, (ast.If, ast.While, ast.IfExp, ast.Assert)):
                tests.append(n.test)
            elif isinstance(n, ast.comprehension):
                tests += list(n.ifs)
        derived: Dict[int, str] = {}
        todo = list(tests)
        while todo:
            e = todo.pop()
            if isinstance(e, ast.BoolOp):
                todo += list(e.values)
                continue
            if isinstance(e, ast.UnaryOp) and isinstance(e.op, ast.Not):
                todo.append(e.operand)
                continue
            if isinstance(e, ast.Constant) or self._marker_atom(e) is not None:
                continue
            a, b = vt.const_values(e), vf.const_values(e)
            if not a or not b:
                continue
            ta, tb = {bool(x) for x in a}, {bool(x) for x in b}
            if ta == {True} and tb == {False}:
                derived[id(e)] = "found"
            elif ta == {False} and tb == {True}:
                derived[id(e)] = "!found"
        if derived:
            self._derived = derived     # keeps the ids meaningful: the nodes live in self.f.node
            self.G = L.Guards(self.f, lambda e: self._marker_atom(e) or derived.get(id(e)))

    def view(self, **valuation) -> U.View:
        if valuation.get("found"):
            valuation = dict(valuation, nonempty=True)      # a log that contains the marker is not empty
        k = tuple(sorted(valuation.items()))
        if k not in self._views:
            self._views[k] = U.View(self.repo, self.f, self.G, valuation)
        return self._views[k]

    # -------------------------------------------------------------- the found-plan marker
    def _is_marker_text(self, e: ast.AST, mod: Optional[str] = None, fam: str = "found") -> bool:
        texts, names = FAMILIES[fam]
        ss = self._plain.strings(e, mod)
        return bool(ss) and all((t is not None and any(x in t for x in texts)) or any(nm in leaf.via for nm in names) for t, leaf in ss)

    def _is_marker_search(self, e: ast.AST, fam: str = "found") -> bool:
        """the value is the match object (or None) of searching the marker anywhere in a text"""
        cs = self._plain.chains(e, stop=lambda n, m_: U.scan_of(self._plain, n, m_) is not None)
        if not cs:
            return False
        for ops, base in cs:
            if ops:
                return False
            sc = U.scan_of(self._plain, base.node, base.mod)
            if sc is None or sc.fn != "search" or sc.pattern is None or sc.extra_positional or not self._is_marker_text(sc.pattern, sc.pattern_mod, fam):
                return False
            if base.mod is None and not self._reads_the_log(sc.text):
                return False
        return True

    def _reads_the_log(self, text: Optional[ast.AST]) -> bool:
        """the searched text comes from what the function was given (the content of the file at the path parameter), not from a
        constant or from the marker itself"""
        if text is None:
            return False
        try:
            tr = self.p.trace(text)
        except (KeyError, RecursionError):
            return not isinstance(text, ast.Constant)
        params = {x for x in self.f.params if x != self.f.self_name}
        return any(x[0].startswith("param:") and x[0][6:] in params for x in tr)

    def _is_log_text(self, e: ast.AST) -> bool:
        """the expression is (an alias of) the text in which the marker is searched"""
        if self._log_leaves is None:
            self._log_leaves = set()
            for c in L.calls_in(self.f.node):
                sc = U.scan_of(self._plain, c)
                if sc is not None and sc.fn == "search" and sc.text is not None and sc.pattern is not None and self._is_marker_text(sc.pattern, sc.pattern_mod):
                    self._log_leaves |= {id(leaf.node) for leaf in self._plain.alts(sc.text) if leaf.mod is None}
        if not self._log_leaves:
            return False
        leaves = self._plain.alts(e)
        return bool(leaves) and all(id(leaf.node) in self._log_leaves for leaf in leaves)

    def _marker_atom(self, e: ast.AST) -> Optional[str]:
        """'found': the plan marker is in the log;  'unsolvable': one of the no-solution markers is in the log;  'nonempty': the log
        text is not empty (implied by 'found')"""
        if isinstance(e, ast.Name) and isinstance(e.ctx, ast.Load) and self._is_log_text(e):
            return "nonempty"        # truth value of the text
        if isinstance(e, ast.Compare) and len(e.ops) == 1:
            l, r_, op = e.left, e.comparators[0], e.ops[0]
            if isinstance(l, ast.Call) and isinstance(l.func, ast.Name) and l.func.id == "len" and len(l.args) == 1 and self._is_log_text(l.args[0]):
                c0 = U.const_int(r_)
                t0 = type(op)
                if (t0, c0) in ((ast.Eq, 0), (ast.Lt, 1), (ast.LtE, 0)):
                    return "!nonempty"
                if (t0, c0) in ((ast.NotEq, 0), (ast.Gt, 0), (ast.GtE, 1)):
                    return "nonempty"
                return None
            if isinstance(r_, ast.Constant) and r_.value == "" and isinstance(op, (ast.Eq, ast.NotEq)) and self._is_log_text(l):
                return "!nonempty" if isinstance(op, ast.Eq) else "nonempty"
        elif not isinstance(e, ast.Call):
            return None
        for fam in FAMILIES:
            a = self._family_atom(e, fam)
            if a is not None:
                return a
        return None

    def _family_atom(self, e: ast.AST, fam: str) -> Optional[str]:
        """`e` is true exactly when (-> fam) / exactly when not (-> '!' + fam) a marker of the family occurs in the log"""
        yes, no = fam, "!" + fam
        if isinstance(e, ast.Compare) and len(e.ops) == 1:
            l, r_, op = e.left, e.comparators[0], e.ops[0]
            if isinstance(r_, ast.Constant) and r_.value is None and isinstance(op, (ast.Is, ast.IsNot, ast.Eq, ast.NotEq)):
                if isinstance(l, (ast.Name, ast.Call, ast.NamedExpr)) and self._is_marker_search(l, fam):
                    return yes if isinstance(op, (ast.IsNot, ast.NotEq)) else no
                return None
            if isinstance(op, (ast.In, ast.NotIn)) and not isinstance(r_, (ast.List, ast.Tuple, ast.Set, ast.Dict)) and self._is_marker_text(l, None, fam) \
                    and self._reads_the_log(r_):
                return yes if isinstance(op, ast.In) else no
            c, x, flip = U.const_int(r_), l, False
            if c is None:
                c, x, flip = U.const_int(l), r_, True
            if c is not None and not isinstance(x, ast.Constant):
                leaves = self._plain.alts(x)
                verdicts = set()
                for leaf in leaves:
                    b = leaf.node
                    if not (leaf.mod is None and isinstance(b, ast.Call) and isinstance(b.func, ast.Attribute) and b.func.attr in ("find", "rfind", "count")
                            and len(b.args) == 1 and not b.keywords and self._is_marker_text(b.args[0], None, fam) and self._reads_the_log(b.func.value)):
                        return None
                    t = type(op)
                    if flip:
                        t = {ast.Lt: ast.Gt, ast.Gt: ast.Lt, ast.LtE: ast.GtE, ast.GtE: ast.LtE}.get(t, t)
                    cnt = b.func.attr == "count"
                    pos = ((ast.Gt, 0), (ast.GtE, 1), (ast.NotEq, 0)) if cnt else ((ast.GtE, 0), (ast.Gt, -1), (ast.NotEq, -1))
                    neg = ((ast.Eq, 0), (ast.Lt, 1), (ast.LtE, 0)) if cnt else ((ast.Lt, 0), (ast.LtE, -1), (ast.Eq, -1))
                    verdicts.add(yes if (t, c) in pos else no if (t, c) in neg else None)
                return verdicts.pop() if len(verdicts) == 1 else None
            return None
        if isinstance(e, ast.Call) and self._is_marker_search(e, fam):
            return yes       # truth value of the match object
        return None

    # -------------------------------------------------------------- interpretation of a list of steps
    def steps(self, v: U.View, seq: S.Seq, kind: str, node: ast.AST) -> _Steps:
        out = _Steps()
        out.node = node
        seq = self._peel(v, seq, out)
        if seq.ordered:
            out.problems.append(f"the steps are passed through {seq.ordered}() -- match order is lost")
        if len(seq.items) != 1 or not isinstance(seq.items[0], S.RepItems):
            out.shape_problem = True
            out.problems.append("the list is not built by one repetition over the matches (" + ", ".join(S.render_seq(seq, lambda n: unparse(n, 30)))[:120] + ")")
            for it in seq.items:
                if isinstance(it, S.RepItems):
                    self._source(v, it.loop, kind, out, quiet=True)
            return out
        rep = seq.items[0]
        if len(rep.items) != 1 or not isinstance(rep.items[0], S.Shape):
            out.problems.append("one match does not yield exactly one step")
            self._source(v, rep.loop, kind, out, quiet=True)
            return out
        loop = rep.loop
        if loop.node is not None:
            out.loops.append(loop.node)
        if loop.conds or getattr(loop, "guards", None):
            out.problems.append("a step is emitted only under a condition -- not every match / line yields a step")
        esc = _escapes(loop.node)
        if esc:
            out.problems.append(f"the repetition is left / an iteration is skipped by `{esc}` -- not every match / line yields a step")
        target, source_ok, fn, groups = self._source(v, loop, kind, out)

        def hole(n: ast.AST) -> str:
            names = set()
            for ops, base in v.chains(n):
                if not v.bound_by(base.node, loop, target):
                    names.add("?" + unparse(base.node, 30) + _fmt_ops(ops))
                    continue
                ops = list(ops)
                if kind == "ff":
                    if fn == "finditer":
                        if ops[:1] and ops[0][0] in ("group", "item") and ops[0][1] == (1,):
                            ops = ops[1:]
                        elif len(ops) >= 2 and ops[0][0] == "groups" and ops[0][1] == () and ops[1][0] == "item" and ops[1][1] == (0,) and groups == 1:
                            ops = ops[2:]
                        else:
                            names.add("?match" + _fmt_ops(ops))
                            continue
                    elif not (fn == "findall" and groups == 1):
                        names.add("?" + str(fn) + "-element" + _fmt_ops(ops))
                        continue
                    kinds = [o[0] for o in ops]
                    if all(o[0] in ("lower", "strip") and o[1] == () for o in ops) and "lower" in kinds and "strip" in kinds:
                        names.add("step")
                    else:
                        names.add("?group(1)" + _fmt_ops(ops))
                else:
                    if ops and all(o[0] == "lower" and o[1] == () for o in ops):
                        names.add("line")
                    else:
                        names.add("?line" + _fmt_ops(ops))
            return sorted(names)[0] if len(names) == 1 else "?" + "|".join(sorted(names))

        got = S.render(rep.items[0], hole)
        out.rendered = got
        want = "({step})\n" if kind == "ff" else "{line}"
        if got != want:
            out.problems.append(f"an emitted element is {got!r}; demanded is {want!r} with " +
                                ("step = group(1).lower().strip()" if kind == "ff" else "line = <input line>.lower()"))
        out.valid = not out.problems and source_ok
        return out

    def _peel(self, v: U.View, seq: S.Seq, out: _Steps) -> S.Seq:
        """a repetition that passes every element of another list on unchanged (`[x for x in steps]`, `map(str, steps)`, a loop
        that appends each element) denotes that list; a filter / early exit on the way is recorded"""
        for _ in range(4):
            if len(seq.items) != 1 or not isinstance(seq.items[0], S.RepItems):
                return seq
            rep = seq.items[0]
            if len(rep.items) != 1 or not isinstance(rep.items[0], S.Hole):
                return seq
            loop = rep.loop
            target, it, enum = v.loop_var(loop)
            cs = v.chains(rep.items[0].node)
            if enum or not cs or not all(not ops and v.bound_by(base.node, loop, target) for ops, base in cs):
                return seq
            try:
                inner = v.lists(it)
            except (KeyError, RecursionError):
                return seq
            if len(inner) != 1 or inner[0][0] != "seq":
                return seq
            isq = inner[0][1]
            if not isq.items or not all(isinstance(x, S.RepItems) and x.loop.target is not None for x in isq.items):
                return seq
            if loop.conds or getattr(loop, "guards", None):
                out.problems.append("a step is passed on only under a condition -- not every match / line yields a step")
            esc = _escapes(loop.node)
            if esc:
                out.problems.append(f"the repetition is left / an iteration is skipped by `{esc}` -- not every match / line yields a step")
            seq = S.Seq(isq.items, seq.ordered or isq.ordered)
        return seq

    def _source(self, v: U.View, loop: S.Loop, kind: str, out: _Steps, quiet: bool = False):
        """what the repetition runs over.  -> (element variable, ok, regex function, capture groups of the pattern)"""
        target, it, _enum = v.loop_var(loop)
        ok, fn, groups = True, None, None
        cs = v.chains(it, stop=(lambda n, m_: U.scan_of(v, n, m_) is not None) if kind == "ff" else None)
        for ops, base in cs:
            if kind == "ff":
                sc = U.scan_of(v, base.node, base.mod)
                if sc is None or sc.fn not in ("finditer", "findall"):
                    ok = False
                    if not quiet:
                        out.shape_problem = True
                        out.problems.append(f"the repetition runs over {unparse(base.node, 50)}{_fmt_ops(ops)}, not over the matches of the step pattern")
                    continue
                out.scans.append(sc)
                fn = sc.fn if fn in (None, sc.fn) else "mixed"
                for t, _leaf in v.strings(sc.pattern, sc.pattern_mod) if sc.pattern is not None else []:
                    if t is not None:
                        gc = _group_count(t)
                        groups = gc if groups in (None, gc) else -1
                if ops:
                    ok = False
                    if not quiet:
                        out.problems.append(f"the matches are passed through {_fmt_ops(ops)} before the steps are built -- match order / completeness is lost")
            else:
                if not self._is_input_file(v, base, ops):
                    ok = False
                    if not quiet:
                        out.shape_problem = True
                        out.problems.append(f"the repetition runs over {unparse(base.node, 50)}{_fmt_ops(ops)}, not over the lines of the input file")
        if not cs:
            ok = False
        return target, ok, fn, groups

    def _is_input_file(self, v: U.View, base: U.Leaf, ops) -> bool:
        """the iterated value is <file opened on the path parameter for reading text>.readlines() or that file object itself;
        the file is `open(path[, 'r' | 'rt'])` / `Path(path).open(...)`, bound by `with ... as`, a plain assignment or used directly"""
        n = base.node
        chains: List[Tuple[list, U.Leaf]] = []
        if isinstance(n, ast.Name) and base.mod is None:
            at = v.node_of(n)
            ds = v.defs_reaching(at, n.id) if at is not None else set()
            if not ds or not all(isinstance(v.g.stmt[d], ast.With) for d in ds):
                return False
            for d in ds:
                for item in v.g.stmt[d].items:
                    if item.optional_vars is not None and n.id in C.target_names(item.optional_vars):
                        chains += [(list(o2) + list(ops), b2) for o2, b2 in v.chains(item.context_expr)]
        else:
            chains.append((list(ops), base))
        params = [x for x in self.f.params if x != self.f.self_name]
        if not chains or not params:
            return False
        for ops_, b in chains:
            c = b.node
            if isinstance(c, ast.Call) and isinstance(c.func, ast.Name) and c.func.id == "open" and b.mod is None and not v._local(c.func):
                opener, path, rest = c, (c.args[0] if c.args else next((k.value for k in c.keywords if k.arg == "file"), None)), ops_
                mode = c.args[1] if len(c.args) > 1 else next((k.value for k in c.keywords if k.arg == "mode"), None)
                extra = len(c.args) > 2 or any(k.arg not in ("file", "mode") for k in c.keywords)
            elif ops_ and ops_[0][0] == "open":
                opener, path, rest = ops_[0][2], c, ops_[1:]
                mode = opener.args[0] if opener.args else next((k.value for k in opener.keywords if k.arg == "mode"), None)
                extra = len(opener.args) > 1 or any(k.arg != "mode" for k in opener.keywords)
            else:
                return False
            if path is None or extra or [o[0] for o in rest] not in ([], ["readlines"]) or any(o[1] != () for o in rest):
                return False      # another file, other decoding / newline handling, or something else than the lines is iterated
            if mode is not None:
                ms = v.strings(mode)
                if not ms or any(t not in ("r", "rt", "tr") for t, _ in ms):
                    return False
            try:
                tr = self.p.trace(path)
            except KeyError:
                return False
            tr = {x for x in tr if x not in (("ext:Path",), ("ext:PurePath",), ("builtin:str",))}   # the constructor itself
            if not tr or not all(x[0] == f"param:{params[0]}" and all(st.startswith(("arg0:Path", "arg0:str", "arg0:fspath")) for st in x[1:]) for x in tr):
                return False
        return True


def _model(repo: Repo, spec: str, with_marker: bool = False) -> _Model:
    cache = repo.__dict__.setdefault("_c19_models", {})
    if spec not in cache:
        cache[spec] = _Model(repo, spec, with_marker)
    return cache[spec]


class _MarkerTestChanged(Exception):
    def __init__(self, node, what):
        self.node, self.what = node, what


def _ff(repo: Repo) -> _Model:
    m = _model(repo, FF_STATUS, True)
    if "found" not in m.G.atoms_seen:
        # is the marker looked for in a way that is NOT 'anywhere in the log'?
        for c in L.calls_in(m.f.node):
            sc = U.scan_of(m._plain, c)
            if sc is not None and sc.fn in ("match", "fullmatch") and sc.pattern is not None and m._is_marker_text(sc.pattern, sc.pattern_mod):
                raise _MarkerTestChanged(c, f"re.{sc.fn} only finds the marker at the very start of the log")
            if sc is not None and sc.fn == "search" and sc.extra_positional and sc.pattern is not None and m._is_marker_text(sc.pattern, sc.pattern_mod):
                raise _MarkerTestChanged(c, "the marker is searched in a part of the log only")
            if sc is not None and sc.fn == "search" and not sc.extra_positional and sc.pattern is not None and m._is_marker_text(sc.pattern, sc.pattern_mod) \
                    and not m._reads_the_log(sc.text):
                raise _MarkerTestChanged(c, "the marker is searched in a text that is not the planner log the function read")
            if isinstance(c.func, ast.Attribute) and c.func.attr in ("startswith", "endswith") and len(c.args) == 1 and m._is_marker_text(c.args[0]):
                raise _MarkerTestChanged(c, f"str.{c.func.attr} only finds the marker at one end of the log")
        sw = _swapped_search(m, m._plain, "found")
        if sw is not None:
            raise _MarkerTestChanged(sw, "the planner log is used as the regular expression and the marker as the searched text")
        raise AnalysisError("get_solving_status: found-plan test not recognised (no test of a search for the "
                            f"'{MARKER_TEXT}' marker / {MARKER_NAME} in the log decides the status)")
    return m


def _result_pairs(v: U.View) -> List[Tuple[ast.Return, Optional[ast.AST], Optional[ast.AST]]]:
    """(return statement, status expression, action-list expression) for every way the function returns under the valuation"""
    out = []
    for ret in v.returns():
        if ret.value is None:
            out.append((ret, None, None))
            continue
        for leaf in v.alts(ret.value):
            n = leaf.node
            rec = U.record_fields(v.repo, v.f.mod.name, n, v._local_name) if leaf.mod is None else None
            if isinstance(n, ast.Tuple) and len(n.elts) == 2 and leaf.mod is None:
                out.append((ret, n.elts[0], n.elts[1]))
            elif rec is not None and len(rec) == 2:       # a NamedTuple / record (status, actions)
                st, acts = rec.values()
                out.append((ret, st, acts))
            else:
                out.append((ret, None, None))
    return out


def _ff_steps(repo: Repo) -> Tuple[_Model, U.View, List[Tuple[str, object, ast.AST]], List[_Steps]]:
    """the action lists returned by get_solving_status when the marker is present, interpreted"""
    cache = repo.__dict__.setdefault("_c19_ffsteps", {})
    if "x" not in cache:
        try:
            m = _ff(repo)
            v = m.view(found=True)
        except _MarkerTestChanged:      # reported by C19.status; the steps are judged over all paths
            m = _model(repo, FF_STATUS, True)
            v = m.view()
        lists: List[Tuple[str, object, ast.AST]] = []
        for ret, _st, acts in _result_pairs(v):
            if acts is None:
                lists.append(("opaque", "the function does not return a (status, actions) pair", ret))
            else:
                lists += v.lists(acts)
        interp = [m.steps(v, sq, "ff", n) for k, sq, n in lists if k == "seq"]
        cache["x"] = (m, v, lists, interp)
    return cache["x"]


def _all_scans(m: _Model, v: U.View, interp: List[_Steps]) -> List[U.Scan]:
    scans = [sc for st in interp for sc in st.scans]
    if not scans:       # the list could not be interpreted: every finditer / findall reachable with the marker present
        for c in L.calls_in(m.f.node):
            sc = U.scan_of(v, c)
            if sc is not None and sc.fn in ("finditer", "findall") and v.reachable(c):
                scans.append(sc)
    seen: Set[int] = set()
    return [sc for sc in scans if not (id(sc.call) in seen or seen.add(id(sc.call)))]


# ------------------------------------------------------------------------------------------------------------ C19.regex
def rule_regex(repo: Repo) -> RuleResult:
    r = RuleResult("C19.regex", "a plan step is '<digit>: <text up to the end of that line>'; nothing inside the capture group can match a line break",
                   "exactly the plan's steps, independent of the surrounding log text")
    m, v, _lists, interp = _ff_steps(repo)
    mod = repo.module(FF)
    pats: Dict[Tuple[str, str], Tuple[str, Optional[int]]] = {}
    for sc in _all_scans(m, v, interp):
        if sc.pattern is None:
            raise AnalysisError(f"{unparse(sc.call, 60)}: pattern argument not found")
        for t, leaf in v.strings(sc.pattern, sc.pattern_mod):
            if t is None:
                raise AnalysisError(f"the step pattern {unparse(leaf.node, 60)} cannot be folded to a string")
            name = leaf.via[-1] if leaf.via else ""
            old = pats.get((t, name))
            fl = sc.flags if old is None or old[1] == sc.flags else None
            pats[(t, name)] = (t, fl)
    if not pats:
        ok, pat = repo.const_value(mod.name, STEP_REGEX_NAME)
        if not ok or not isinstance(pat, str):
            raise AnalysisError(f"no finditer / findall over the log found in {FF_STATUS} and {FF}.{STEP_REGEX_NAME} cannot be folded to a string")
        pats[(pat, STEP_REGEX_NAME)] = (pat, None)
    for (pat, name), (_p, call_flags) in sorted(pats.items()):
        label = f"{FF}.{name}" if name else f"{m.f.qn} (inline pattern)"
        owner = (mod.short, name, str(mod.path)) if name else m.f
        tree = _parse(pat)
        flags: Optional[int] = None if call_flags is None else (call_flags | tree.state.flags)
        dotall = None if flags is None else bool(flags & RE_DOTALL)
        multiline = None if flags is None else bool(flags & RE_MULTILINE)
        items = list(tree)
        r.site(f"{label} [prefix]")
        pre = []
        gi = None
        for i, (op, av) in enumerate(items):
            if op == sre_c.SUBPATTERN and av[0] == 1:
                gi = i
                break
            pre.append((op, av))
        if gi is None:
            if tree.state.groups - 1 >= 1:
                raise AnalysisError(f"{label}: capture group 1 of {pat!r} is nested inside another construct; not interpreted")
            r.fail(Finding("C19.regex", owner, "prefix", f"the step pattern {pat!r} has no capture group for the step text"))
            continue
        has_digit = any(_is_digit_item(op, av) for op, av in pre)
        has_colon = any(op == sre_c.LITERAL and av == ord(":") for op, av in pre)
        # a left anchor in front of a SINGLE digit (\b\d:, ^\d:, (?<!\d)\d:) only matches one-digit step numbers: steps 10, 11, .. are lost
        first = pre[0] if pre else None
        single_digit = any(_is_digit_item(op, av) and op not in (sre_c.MAX_REPEAT, sre_c.MIN_REPEAT) for op, av in pre) and \
            not any(op in (sre_c.MAX_REPEAT, sre_c.MIN_REPEAT) and av[1] > 1 and _is_digit_item(op, av) for op, av in pre)
        anchored = first is not None and (first[0] == sre_c.AT or first[0] in (sre_c.ASSERT, sre_c.ASSERT_NOT))
        line_start = first is not None and first[0] == sre_c.AT and first[1] in (sre_c.AT_BEGINNING, sre_c.AT_BEGINNING_STRING, sre_c.AT_BEGINNING_LINE)
        if has_digit and has_colon and line_start:
            # Metric-FF prints the first step as 'step    0: ACTION' and the others indented: a pattern tied to the start of the text /
            # of a line (only blanks allowed before the number) cannot match the first step (and, without MULTILINE, no later one either)
            r.fail(Finding("C19.regex", owner, "prefix-at-line-start", f"the step pattern {pat!r} is anchored at the start of the text / line: the first step line "
                           f"'step    0: ...' has the word 'step' in front of the number and is dropped"
                           + ("" if multiline else "; without re.MULTILINE '^' matches only at the very beginning of the log")))
        elif has_digit and has_colon and anchored and single_digit:
            r.fail(Finding("C19.regex", owner, "prefix-anchored", f"the step prefix of {pat!r} is a single digit behind a left anchor: step numbers with "
                           f"two or more digits (10:, 11:, ...) are not matched and those steps are dropped"))
        elif has_digit and has_colon:
            r.ok({"prefix": "digit(s) ':'", "pattern": pat})
        else:
            r.fail(Finding("C19.regex", owner, "prefix", f"the step prefix of {pat!r} is not <digit>:"))
        r.site(f"{label} [capture group]")
        group_items = list(items[gi][1][3])
        has_any = "'.' with DOTALL" in _can_match_newline(group_items, True)
        if has_any and dotall is None:
            raise AnalysisError(f"{label}: the flags of the call that uses {pat!r} cannot be decided and the capture group contains '.'")
        reasons = _can_match_newline(group_items, bool(dotall))
        if reasons:
            r.fail(Finding("C19.regex", owner, "group-matches-newline", f"inside the capture group of {pat!r}: {sorted(set(reasons))} -- a following line made of "
                           f"group characters is swallowed into the last step"), {"pattern": pat, "reasons": sorted(set(reasons))})
        else:
            r.ok({"capture_group_can_match_line_break": False})
        r.site(f"{label} [capture group admits PDDL names]")
        missing = [ch for ch in "azAZ09_- " if not _group_admits(group_items, ch)]
        if missing:
            shown = ["<space>" if ch == " " else ch for ch in missing]
            r.fail(Finding("C19.regex", owner, "group-alphabet", f"the capture group of {pat!r} cannot match {shown}: a step whose action name or arguments contain "
                           f"such a character (PDDL names are made of letters, digits, '_' and '-') does not match and is dropped from the plan"), {"pattern": pat})
        else:
            r.ok({"capture_group_alphabet": "letters, digits, '_', '-', blank"})
        r.site(f"{label} [terminator]")
        term = _terminates(items[gi + 1:], multiline)
        if term is None:
            raise AnalysisError(f"{label}: {pat!r} ends a step with '$' and the flags of the call cannot be decided")
        if term:
            r.ok({"terminated_by": "end of line"})
        else:
            r.fail(Finding("C19.regex", owner, "terminator", f"the capture group of {pat!r} is not followed by a line terminator"
                           + ("" if multiline or not any(op == sre_c.AT and av == sre_c.AT_END for op, av in items[gi + 1:]) else " ('$' without MULTILINE only matches at the end of the log)")))
    r.require_sites(3)
    return r


def _class_admits(av, ch: str) -> bool:
    """membership of a character in a parsed character class (re._parser IN items)"""
    o = ord(ch)
    hit = False
    neg = False
    for op, a in av:
        opn = str(op)
        if opn == "NEGATE":
            neg = True
        elif opn == "LITERAL":
            hit = hit or a == o
        elif opn == "RANGE":
            hit = hit or a[0] <= o <= a[1]
        elif opn == "CATEGORY":
            cat = str(a)
            if cat in ("CATEGORY_WORD", "CATEGORY_UNI_WORD"):
                hit = hit or ch.isalnum() or ch == "_"
            elif cat in ("CATEGORY_DIGIT", "CATEGORY_UNI_DIGIT"):
                hit = hit or ch.isdigit()
            elif cat in ("CATEGORY_SPACE", "CATEGORY_UNI_SPACE"):
                hit = hit or ch.isspace()
            elif cat in ("CATEGORY_NOT_WORD", "CATEGORY_UNI_NOT_WORD"):
                hit = hit or not (ch.isalnum() or ch == "_")
            elif cat in ("CATEGORY_NOT_DIGIT", "CATEGORY_UNI_NOT_DIGIT"):
                hit = hit or not ch.isdigit()
            elif cat in ("CATEGORY_NOT_SPACE", "CATEGORY_UNI_NOT_SPACE"):
                hit = hit or not ch.isspace()
    return hit != neg


def _group_admits(items, ch: str) -> bool:
    """can some atom of the (sub)pattern match the character?"""
    for op, av in items:
        opn = str(op)
        if opn == "IN" and _class_admits(av, ch):
            return True
        if opn == "LITERAL" and av == ord(ch):
            return True
        if opn == "NOT_LITERAL" and av != ord(ch):
            return True
        if opn == "ANY":
            return True
        if opn == "CATEGORY" and _class_admits([(op, av)], ch):
            return True
        if opn in ("MAX_REPEAT", "MIN_REPEAT", "POSSESSIVE_REPEAT") and _group_admits(av[2], ch):
            return True
        if opn == "SUBPATTERN" and _group_admits(av[3], ch):
            return True
        if opn == "BRANCH" and any(_group_admits(alt, ch) for alt in av[1]):
            return True
        if opn == "ATOMIC_GROUP" and _group_admits(av, ch):
            return True
    return False


# ------------------------------------------------------------------------------------------------------------ C19.lower
def _check_text(m: _Model, v: U.View, sc: U.Scan, r: RuleResult) -> None:
    """the pattern is matched against the complete log: a slice bound that comes from str.find must have been tested"""
    f = m.f
    if sc.text is None or sc.extra_positional:
        r.fail(Finding("C19.lower", f, "searched-text", f"{unparse(sc.call, 70)}: the scanned text / range is not the whole log", node=sc.call))
        return
    tr = m.p.trace(sc.text)
    params = {x for x in f.params if x != f.self_name}
    if not any(x[0].startswith("param:") and x[0][6:] in params for x in tr):
        r.fail(Finding("C19.lower", f, "searched-text", f"{unparse(sc.call, 70)} does not scan the planner log that the function was given", node=sc.call))
        return
    bad = []
    for ops, _base in v.chains(sc.text):
        for name, _a, node in ops:
            if name == "item":      # one piece of a split / partitioned log, one character, ...
                bad.append(("part", node))
            if name != "slice":
                continue
            for which, b in (("lower", node.slice.lower), ("upper", node.slice.upper)):
                if b is None:
                    continue
                target = U.find_calls(v, b)
                if not target:
                    continue
                base_atom = m.G.matcher
                am = U.absent_matcher(v, target)
                G2 = L.Guards(f, lambda e: base_atom(e) or am(e))
                val2 = dict(v.valuation, absent=True)
                uses = [x for x in ast.walk(b) if isinstance(x, (ast.Name, ast.Call)) and U.find_calls(v, x) & target
                        and not any(isinstance(a, ast.Compare) and any(y is x for y in ast.walk(a)) for a in ast.walk(b))]
                if any(G2.reaches_expr(val2, x) for x in uses):
                    bad.append((which, node))
    seen: Set[Tuple[str, int]] = set()
    for which, node in bad:
        if (which, id(node)) in seen:
            continue
        seen.add((which, id(node)))
        if which == "part":
            r.fail(Finding("C19.lower", f, "searched-text", f"{unparse(sc.call, 70)} scans only {unparse(node, 50)}, one part of the log", node=node))
            continue
        r.fail(Finding("C19.lower", f, f"unchecked-find-bound:{which}", f"{unparse(node, 60)} slices the log with a {which} bound that comes from str.find "
                       f"and is not compared with -1 on the way: when the marker is absent the slice silently drops the end of the log", node=node))
    if not bad:
        r.ok({"searched_text": "the log (slices only with checked bounds)"})


def _sink_lists(m: _Model, v: U.View) -> List[Tuple[ast.AST, List[Tuple[str, object, ast.AST]], List[str]]]:
    """(write call, lists written, problems) for the recognised ways a list of lines is written to a file"""
    out = []
    f = m.f
    pm = L.parents_of(f)
    for c in L.calls_in(f.node):
        if not (isinstance(c.func, ast.Attribute) and c.func.attr in ("writelines", "write", "write_text") and len(c.args) >= 1 and v.reachable(c)):
            continue
        if m.repo.resolve_call(f, c)[0] == "logging":
            continue
        arg = c.args[0]
        if c.func.attr == "writelines":
            out.append((c, v.lists(arg), []))
            continue
        # write("".join(lines)) / write_text("".join(lines))
        joined = [leaf.node for leaf in v.alts(arg)]
        if all(isinstance(j, ast.Call) and isinstance(j.func, ast.Attribute) and j.func.attr == "join" and len(j.args) == 1 for j in joined) and joined:
            probs, ls = [], []
            for j in joined:
                seps = v.strings(j.func.value)
                if not seps or any(t != "" for t, _ in seps):
                    probs.append("the lines are joined with a separator")
                ls += v.lists(j.args[0])
            out.append((c, ls, probs))
            continue
        if c.func.attr != "write":
            continue
        # for line in lines: out.write(line)
        cur, loop, conds = c, None, False
        while cur in pm and not isinstance(cur, ast.FunctionDef):
            par = pm[cur]
            if isinstance(par, ast.If) and not getattr(par, "_inline_block", False) and isinstance(cur, ast.stmt):
                conds = True
            if isinstance(par, ast.For) and isinstance(cur, ast.stmt) and any(cur is s for s in par.body):
                loop = par
                break
            cur = par
        if loop is None:
            continue
        lp = S.Loop(loop.iter, loop.target, [], loop)
        target, it, _enum = v.loop_var(lp)
        cs = v.chains(arg)
        if not (cs and all(v.bound_by(base.node, lp, target) for _ops, base in cs)):
            continue
        probs = []
        if conds:
            probs.append("a line is written only under a condition")
        if any(ops for ops, _b in cs):
            probs.append(f"a line is changed ({_fmt_ops(cs[0][0])}) before it is written")
        if _escapes(loop):
            probs.append(f"the writing loop is left / an iteration is skipped by `{_escapes(loop)}`")
        out.append((c, v.lists(it), probs))
    return out


def _target_problems(m: _Model, v: U.View, call: ast.Call, param_index: int) -> List[str]:
    """positive evidence that the lines go somewhere else than a fresh file at the expected path parameter (nothing is
    reported when the way the file is opened is not recognised)"""
    params = [x for x in m.f.params if x != m.f.self_name]
    if param_index >= len(params):
        return []
    want = params[param_index]
    h = call.func.value
    exprs: List[ast.AST] = [h]
    if isinstance(h, ast.Name):
        at = v.node_of(h)
        ds = v.defs_reaching(at, h.id) if at is not None else set()
        if ds and all(isinstance(v.g.stmt[d], ast.With) for d in ds):
            exprs = [item.context_expr for d in ds for item in v.g.stmt[d].items
                     if item.optional_vars is not None and h.id in C.target_names(item.optional_vars)]
    probs: List[str] = []
    for e in exprs:
        for ops, b in v.chains(e):
            c = b.node
            path = mode = None
            if isinstance(c, ast.Call) and isinstance(c.func, ast.Name) and c.func.id == "open" and not ops and c.args:
                path = c.args[0]
                mode = c.args[1] if len(c.args) > 1 else next((k.value for k in c.keywords if k.arg == "mode"), None)
                if mode is None:
                    probs.append("the file is opened for reading")
            elif ops and ops[0][0] == "open" and len(ops) == 1:
                path, on = c, ops[0][2]
                mode = on.args[0] if on.args else next((k.value for k in on.keywords if k.arg == "mode"), None)
            elif call.func.attr == "write_text" and not ops:
                path = c
            if mode is not None:
                for t, _ in v.strings(mode):
                    if t is not None and t not in ("w", "wt", "tw"):
                        probs.append(f"the file is opened with mode {t!r} (existing content is kept / not text)")
            if path is not None:
                try:
                    roots = {x[0] for x in m.p.trace(path)}
                except KeyError:
                    continue
                proots = {x for x in roots if x.startswith("param:")}
                if proots and f"param:{want}" not in proots:
                    probs.append(f"the lines are written to {sorted(proots)[0][6:]} instead of {want}")
    return probs


def _check_written(repo: Repo, spec: str, kind: str, rid: str, r: RuleResult) -> None:
    """what parse_plan writes is the list of steps (checked when the way of writing is one of the recognised forms; an
    unrecognised form is noted, not reported)"""
    m = _model(repo, spec)
    v = m.view()
    r.site(f"{m.f.qn} [written plan]")
    sinks = _sink_lists(m, v)
    if not sinks:
        r.notes.append(f"{m.f.qn}: no writelines / write-in-loop / write(''.join()) of a list found; the written file is not checked")
        r.ok({"written": "not interpreted"}, n=0)
        return
    role = "written-plan"
    for call, lists, probs in sinks:
        seqs = [(sq, n) for k, sq, n in lists if k == "seq"]
        opaque = [(why, n) for k, why, n in lists if k == "opaque"]
        partial = [(why, n) for k, why, n in lists if k == "partial"]
        if partial:
            probs = probs + [f"{unparse(partial[0][1], 40)} is {partial[0][0]}"]
        probs = probs + _target_problems(m, v, call, 1 if kind == "ff" else 0)
        if opaque and not seqs and not probs:
            r.notes.append(f"{m.f.qn}: {unparse(call, 60)} writes a value whose construction is not interpreted ({opaque[0][0]})")
            continue
        for sq, n in seqs:
            st = m.steps(v, sq, kind, n)
            probs = probs + st.problems
        if opaque:
            probs = probs + [f"an alternative of the written value is not the list of steps ({unparse(opaque[0][1], 40)})"]
        if not seqs and not opaque and not probs:
            continue   # only empty lists reach this call under this valuation
        if probs:
            r.fail(Finding(rid, m.f, role, f"{unparse(call, 60)} does not write exactly the extracted steps in order: {probs[0]}", node=call))
        else:
            r.ok({"written": unparse(call, 60)})
    _check_written_nonempty(m, v, sinks, kind, rid, r)


def _check_written_nonempty(m: _Model, v: U.View, sinks, kind: str, rid: str, r: RuleResult) -> None:
    """with n >= 1 steps extracted every path through the function writes them: a test on the number of steps may only skip the
    writing of an EMPTY plan"""
    good: List[_Steps] = []
    for _call, lists, _probs in sinks:
        for k, sq, n in lists:
            if k == "seq":
                st = m.steps(v, sq, kind, n)
                if st.loops and not st.shape_problem:
                    good.append(st)
    if not good:
        return
    sz = _Sizes(m, v, good)
    if not sz.seen:
        return
    r.site(f"{m.f.qn} [non-empty plan is written]")
    pm = L.parents_of(m.f)
    for n in sz.counts():
        vn = sz.view(n)
        g = vn.g
        stops: Set[int] = set()
        for call, _lists, _probs in sinks:
            at = vn.node_of(call)
            if at is not None:
                stops.add(at)
            cur = call
            while cur in pm and not isinstance(cur, ast.FunctionDef):      # `for line in steps: out.write(line)`: n >= 1 turns
                cur = pm[cur]
                if isinstance(cur, ast.For) and sz._is_steps(cur.iter):
                    hn = g.node_of(cur)
                    if hn is not None:
                        stops.add(hn)
        seen: Set[int] = set()
        todo = [g.entry]
        while todo:
            x = todo.pop()
            if x in seen or x not in vn.seen:
                continue
            seen.add(x)
            todo += [y for y, l in g.succ[x] if vn._allowed(x, l)]
        # reported when the tests on the number of steps DECIDE that the writing is skipped for this n
        if stops and not (stops & seen) and g.exit in seen:
            r.fail(Finding(rid, m.f, "written-plan-nonempty", f"with {n} step{'s' if n > 1 else ''} extracted from the log the function ends without writing "
                           f"them: the test on the number of steps that guards the writing does not single out the empty plan"))
            return
    r.ok({"written_whenever": "at least one step", "sizes_checked": sz.counts()})


# --------------------------------------------------------------------------------------------- tests on the number of steps
_FLIP = {ast.Lt: ast.Gt, ast.Gt: ast.Lt, ast.LtE: ast.GtE, ast.GtE: ast.LtE}
_CMP = {ast.Eq: lambda a, b: a == b, ast.NotEq: lambda a, b: a != b, ast.Lt: lambda a, b: a < b, ast.LtE: lambda a, b: a <= b,
        ast.Gt: lambda a, b: a > b, ast.GtE: lambda a, b: a >= b}


def _length_test(e: ast.AST):
    """`len(Z) <op> c` / `c <op> len(Z)` / `Z == []` / `Z != []`  ->  (Z, truth value as a function of the size of Z, c);  else None"""
    if not (isinstance(e, ast.Compare) and len(e.ops) == 1):
        return None
    l, r_, op = e.left, e.comparators[0], type(e.ops[0])
    is_len = lambda x: isinstance(x, ast.Call) and isinstance(x.func, ast.Name) and x.func.id == "len" and len(x.args) == 1 and not x.keywords
    if is_len(r_) and not is_len(l):
        l, r_, op = r_, l, _FLIP.get(op, op)
    if is_len(l) and op in _CMP:
        c = U.const_int(r_)
        if c is None:
            return None
        return l.args[0], (lambda n, op=op, c=c: _CMP[op](n, c)), c
    if op in (ast.Eq, ast.NotEq):
        if U.is_empty_list(l) and not U.is_empty_list(r_):
            l, r_ = r_, l
        if U.is_empty_list(r_) and isinstance(l, ast.Name):
            return l, (lambda n, op=op: (n == 0) == (op is ast.Eq)), 0
    return None


def _test_positions(f: FuncInfo) -> Set[int]:
    """ids of the expressions whose TRUTH VALUE is used: tests of if / while / conditional expressions / comprehension filters / assert,
    operands of not / and / or in such a position, the argument of bool()"""
    out: Set[int] = set()
    todo: List[ast.AST] = []
    for n in ast.walk(f.node):
        if isinstance(n, (ast.If, ast.While, ast.IfExp, ast.Assert)):
            todo.append(n.test)
        elif isinstance(n, ast.comprehension):
            todo += list(n.ifs)
        elif isinstance(n, ast.Call) and isinstance(n.func, ast.Name) and n.func.id == "bool" and len(n.args) == 1 and not n.keywords:
            todo.append(n.args[0])
        elif isinstance(n, ast.UnaryOp) and isinstance(n.op, ast.Not):
            todo.append(n.operand)
    while todo:
        e = todo.pop()
        if id(e) in out:
            continue
        out.add(id(e))
        if isinstance(e, ast.BoolOp):
            todo += list(e.values)
    return out


class _Sizes:
    """Guard atoms for tests on the NUMBER of collected steps.  The collection tested must be the list of steps itself (a list built by
    the very repetition over the matches that the judged list is built by, whatever it is called and wherever it was copied to) or the
    list of matches that repetition runs over (one step per match).  For a given size n every such test has a definite truth value,
    so `matcher(n)` maps it to the atom 'size' (true for n) or '!size' (false for n) and the valuation {size: True} describes 'exactly
    n steps were collected'."""

    def __init__(self, m: _Model, v: U.View, interp: List[_Steps]):
        self.m, self.v = m, v
        self.loops = {id(x) for st in interp for x in st.loops}
        self.scans = {id(sc.call) for st in interp for sc in st.scans}
        self.positions = _test_positions(m.f)
        self._is: Dict[int, bool] = {}
        self.constants: Set[int] = set()
        self.seen = False
        if self.loops:
            for n in ast.walk(m.f.node):
                if self._parse(n) is not None:
                    self.seen = True

    def _is_steps(self, z: ast.AST) -> bool:
        k = id(z)
        if k not in self._is:
            self._is[k] = False         # (recursion guard)
            self._is[k] = self._decide(z)
        return self._is[k]

    def _decide(self, z: ast.AST) -> bool:
        v = self.v
        if isinstance(z, ast.Constant):
            return False
        try:
            cs = v.chains(z, stop=lambda n, m_: U.scan_of(v, n, m_) is not None)
            if cs and self.scans and all(not ops and id(b.node) in self.scans for ops, b in cs):
                # the list of matches (re.findall(..) / list(re.finditer(..)) bound to a name): one step per match
                return all(self._materialised(z))
            ls = v.lists(z)
        except (KeyError, RecursionError, S.NotInterpretable, AttributeError, TypeError):
            return False
        if not any(kind == "seq" for kind, _sq, _node in ls):
            return False
        for kind, sq, _node in ls:
            if kind == "empty":
                continue        # `[]` handed on in place of the collected list: that this happens for 0 steps only is what [non-empty result] decides
            if kind != "seq":
                return False
            sq = self.m._peel(v, sq, _Steps())
            if sq.ordered or len(sq.items) != 1 or not isinstance(sq.items[0], S.RepItems) or id(sq.items[0].loop.node) not in self.loops:
                return False
        return True

    def _materialised(self, z: ast.AST):
        """the tested value is a LIST of the matches (an iterator is always true and has no len)"""
        for leaf in self.v.alts(z):
            n = leaf.node
            sc = U.scan_of(self.v, n, leaf.mod)
            if sc is not None:
                yield sc.fn == "findall"
            else:
                yield isinstance(n, ast.Call) and isinstance(n.func, ast.Name) and n.func.id in ("list", "tuple") and len(n.args) == 1 or isinstance(n, ast.ListComp)

    def _parse(self, e: ast.AST):
        """(truth value as a function of the number of steps) when e is a test on the size of the steps list"""
        lt = _length_test(e)
        if lt is not None:
            z, fn, c = lt
            if self._is_steps(z):
                self.constants.add(c)
                return fn
            return None
        if isinstance(e, ast.Name) and isinstance(e.ctx, ast.Load) and id(e) in self.positions and self._is_steps(e):
            return lambda n: n > 0
        return None

    def counts(self) -> List[int]:
        ns = set(STEP_COUNTS) | {c + 1 for c in self.constants if 0 <= c <= 6} | {c for c in self.constants if 1 <= c <= 6}
        return sorted(ns)

    def view(self, n: int) -> U.View:
        base = self.m.G.matcher

        def matcher(e):
            a = base(e)
            if a is not None:
                return a
            fn = self._parse(e)
            if fn is None:
                return None
            return "size" if fn(n) else "!size"
        G2 = L.Guards(self.m.f, matcher)
        return U.View(self.m.repo, self.m.f, G2, dict(self.v.valuation, size=True))


def _check_nonempty_result(m: _Model, v: U.View, interp: List[_Steps], r: RuleResult) -> None:
    """with n >= 1 steps collected every return carries the collected list: an empty list is returned only for an empty plan"""
    f = m.f
    r.site(f.qn + " [non-empty result]")
    good = [st for st in interp if st.loops and not st.shape_problem]
    if not good:
        r.ok(n=0)
        return
    sz = _Sizes(m, v, good)
    if not sz.seen:
        r.ok({"tests_on_the_number_of_steps": 0})
        return
    for n in sz.counts():
        vn = sz.view(n)
        kinds: List[Tuple[str, ast.AST, ast.AST]] = []
        for ret, _st, acts in _result_pairs(vn):
            if acts is None:
                kinds.append(("opaque", ret, ret))
                continue
            kinds += [(k, node, ret) for k, _sq, node in vn.lists(acts)]
        # reported when the tests on the number of steps DECIDE that only empty lists are returned for this n (a guard that is not
        # interpreted leaves the return of the collected list reachable and nothing is claimed)
        if kinds and all(k == "empty" for k, _n, _r in kinds):
            _k, node, ret = kinds[0]
            r.fail(Finding("C19.lower", f, "result-nonempty", f"with {n} step{'s' if n > 1 else ''} collected from the log the returned action list is the "
                           f"empty list {unparse(node, 30)}: the test on the number of steps that guards it does not single out the empty plan",
                           node=node if hasattr(node, "lineno") else ret))
            return
    r.ok({"empty_result_only_for": "0 steps", "sizes_checked": sz.counts()})


def rule_lower(repo: Repo) -> RuleResult:
    r = RuleResult("C19.lower", "every step = '(' + group(1).lower().strip() + ')\\n', one per match of the step pattern over the whole log, in match order; "
                   "that list is what is returned with 'ok' and what parse_plan writes", "in order, lower-cased, arguments in order")
    m, v, lists, interp = _ff_steps(repo)
    f = m.f
    r.site(f.qn + " [step text]")
    elem_problems = [(st, p) for st in interp for p in st.problems if not st.shape_problem]
    if elem_problems:
        st, p = elem_problems[0]
        r.fail(Finding("C19.lower", f, "step-text", f"an emitted step is not '(' + group(1).lower().strip() + ')\\n' for every match in match order: {p}", node=st.node))
    elif any(st.valid for st in interp):
        r.ok({"step": next(st.rendered for st in interp if st.valid), "with": "step = group(1).lower().strip()", "order": "match order"})
    else:
        r.notes.append("no list of steps interpreted; see [result]")
        r.ok(n=0)
    r.site(f.qn + " [searched text]")
    scans = _all_scans(m, v, interp)
    if not scans:
        r.fail(Finding("C19.lower", f, "searched-text", "with the plan marker present no finditer / findall of the step pattern over the log is reached"))
    for sc in scans:
        _check_text(m, v, sc, r)
    r.site(f.qn + " [result]")
    opaque = [(why, n) for k, why, n in lists if k in ("opaque", "partial")]
    shape = [st for st in interp if st.shape_problem]
    if opaque:
        why, n = opaque[0]
        r.fail(Finding("C19.lower", f, "result", f"with the plan marker present the returned actions can be {unparse(n, 50)}, which is not the list of collected steps ({why})",
                       node=n if hasattr(n, "lineno") else None))
    elif shape:
        r.fail(Finding("C19.lower", f, "result", f"the returned actions are not one step per match: {shape[0].problems[-1]}", node=shape[0].node))
    elif not interp:
        r.fail(Finding("C19.lower", f, "result", "with the plan marker present no collected steps are returned (only empty lists)"))
    else:
        r.ok({"returns": "the collected steps" + (" (or a fresh empty list)" if any(k == "empty" for k, _s, _n in lists) else "")})
    _check_nonempty_result(m, v, interp, r)
    _check_written(repo, FF_WRITE, "ff", "C19.lower", r)
    r.require_sites(3)
    return r


# ------------------------------------------------------------------------------------------------------------ C19.status
def _falls_off(v: U.View) -> bool:
    """under the valuation the end of the function body can be reached without a return statement (the caller gets None, not a pair)"""
    g = v.g
    for n in v.seen:
        if g.kind[n] in ("return", "raise", "exit", "raise-exit"):
            continue
        if any(m == g.exit and v._allowed(n, l) for m, l in g.succ[n]):
            return True
    return False


def _swapped_search(m: _Model, v: U.View, fam: str) -> Optional[ast.Call]:
    """a regular-expression call whose PATTERN comes from the log the function read and whose searched TEXT is a marker of the family:
    the arguments are the wrong way round (the log is compiled as a regular expression)"""
    for c in L.calls_in(m.f.node):
        sc = U.scan_of(v, c)
        if sc is None or sc.pattern is None or sc.text is None or sc.pattern_mod is not None:
            continue
        if isinstance(sc.pattern, ast.Constant) or not m._is_marker_text(sc.text, None, fam):
            continue
        if v.strings(sc.pattern) and all(t is not None for t, _ in v.strings(sc.pattern)):
            continue        # a constant pattern
        try:
            tr = m.p.trace(sc.pattern)
        except (KeyError, RecursionError):
            continue
        params = {x for x in m.f.params if x != m.f.self_name}
        if any(x[0].startswith("param:") and x[0][6:] in params for x in tr):
            return c
    return None


def _opaque_marker_use(m: _Model, fam: str) -> Optional[ast.Call]:
    """a call that is handed a marker of the family and is not one of the recognised searches (a helper the flattener left as a call):
    what it answers is not known, so tests that depend on it are not decided by the valuation"""
    for c in L.calls_in(m.f.node):
        if U.scan_of(m._plain, c) is not None:
            continue
        if isinstance(c.func, ast.Attribute) and c.func.attr in ("find", "rfind", "count", "index", "__contains__", "debug", "info", "warning", "error"):
            continue
        if isinstance(c.func, ast.Name) and c.func.id in ("bool", "str", "len", "print"):
            continue
        for a in list(c.args) + [k.value for k in c.keywords]:
            if isinstance(a, (ast.Constant, ast.Name, ast.Attribute, ast.Subscript)):
                try:
                    if m._is_marker_text(a, None, fam):
                        return c
                except (KeyError, RecursionError):
                    continue
    return None


def _statuses(v: U.View) -> Tuple[Set[str], bool]:
    """(status texts of all returns reachable under the view, some return is not a (status, actions) pair / nothing is returned)"""
    out: Set[str] = set()
    odd = _falls_off(v)
    pairs = _result_pairs(v)
    for _ret, st, _acts in pairs:
        if st is None:
            odd = True
            continue
        ss = v.strings(st)
        if not ss:
            odd = True
        for t, _ in ss:
            if t is None:
                odd = True
            else:
                out.add(t)
    return out, odd or not pairs


def rule_status(repo: Repo) -> RuleResult:
    r = RuleResult("C19.status", "'ok' only under the found-plan marker; every other status carries an empty action list; a plan-less log is "
                   "'no-solution' exactly when it contains one of the planner's no-solution markers, 'timeout' otherwise", "a log without a plan yields no actions")
    try:
        m = _ff(repo)
    except _MarkerTestChanged as ex:
        f = _model(repo, FF_STATUS, True).f
        r.site(f"{f.qn} [plan marker test]")
        r.fail(Finding("C19.status", f, "status:marker-test", f"{unparse(ex.node, 70)}: {ex.what}; a log that contains a plan after its header lines is not classified 'ok'", node=ex.node))
        return r
    f = m.f
    for found in (False, True):
        r.site(f"{f.qn} [plan marker {'present' if found else 'absent'}]")
        v = m.view(found=found)
        seen_pairs = []
        bad = False
        pairs = _result_pairs(v)
        for _ret, st, acts in pairs:
            if st is None:
                seen_pairs.append(("?", "?"))
                bad = True
                continue
            statuses = sorted({t if t is not None else "?" for t, _ in v.strings(st)}) or ["?"]
            kinds = sorted({k for k, _s, _n in v.lists(acts)}) or ["opaque"]
            carries = "empty" if kinds == ["empty"] else "actions"
            seen_pairs.append(("|".join(statuses), carries))
            if found:
                bad = bad or statuses != ["ok"] or carries == "empty"
            else:
                bad = bad or not set(statuses) <= {"no-solution", "timeout"} or carries != "empty"
        if not pairs:
            bad = True
        # the end of the body is reached: None is returned, no (status, actions) pair at all (decided under complete valuations, so that
        # `if c: return A` followed by `if not c: return B` is not mistaken for a function that can fall off its end)
        complete = [v] if found or "unsolvable" not in m.G.atoms_seen else [m.view(found=False, unsolvable=True), m.view(found=False, unsolvable=False)]
        if any(_falls_off(x) for x in complete):
            seen_pairs.append(("<no return statement: None>", "?"))
            bad = True
        if not bad:
            r.ok({"marker_found": found, "returns": sorted(set(seen_pairs))})
        else:
            r.fail(Finding("C19.status", f, f"status:found={found}", f"with the plan marker {'present' if found else 'absent'} the function can return "
                           f"{sorted(set(seen_pairs))} (status, action list)"))
    _classification(m, r)
    r.require_sites(2)
    return r


def _classification(m: _Model, r: RuleResult) -> None:
    """a log without a plan: 'no-solution' when (and only when) the planner said so, 'timeout' otherwise"""
    f = m.f
    v0 = m.view(found=False)
    r.site(f"{f.qn} [plan-less log: both classes]")
    got, odd = _statuses(v0)
    missing = sorted({"no-solution", "timeout"} - got)
    if missing and not odd and got <= {"no-solution", "timeout"}:
        r.fail(Finding("C19.status", f, "status:classes", f"a log without a plan is never classified {missing}: with the plan marker absent only "
                       f"{sorted(got)} can be returned, whatever the planner reported"))
        return
    if missing:        # reported by [plan marker absent]
        r.ok(n=0)
        return
    r.ok({"statuses_without_plan": sorted(got)})
    r.site(f"{f.qn} [plan-less log: decided by the no-solution markers]")
    sw = _swapped_search(m, v0, "unsolvable")
    if sw is not None:
        r.fail(Finding("C19.status", f, "status:search-arguments", f"{unparse(sw, 70)}: the planner log is used as the regular expression and the no-solution "
                       f"marker as the searched text: an unsolvable problem is not recognised and a log that is not a valid pattern raises", node=sw))
        return
    if "unsolvable" not in m.G.atoms_seen:
        r.notes.append(f"{f.qn}: no test of a search for a no-solution marker in the log recognised; how 'no-solution' and 'timeout' are told apart is not checked")
        r.ok(n=0)
        return
    oq = _opaque_marker_use(m, "unsolvable")
    if oq is not None:
        r.notes.append(f"{f.qn}: {unparse(oq, 60)} receives a no-solution marker and is not interpreted; the classification is not checked")
        r.ok(n=0)
        return
    table = {}
    failed = False
    for present, want in ((True, "no-solution"), (False, "timeout")):
        v = m.view(found=False, unsolvable=present)
        got, odd = _statuses(v)
        table[f"marker_in_log={present}"] = sorted(got)
        if odd or want in got or not got:
            if got != {want}:
                r.notes.append(f"{f.qn}: with marker_in_log={present} the class is not decided by the recognised tests alone ({sorted(got)})")
            continue        # reported only when the valuation DECIDES the class and it is the wrong one
        failed = True
        r.fail(Finding("C19.status", f, f"status:unsolvable={present}", f"a log without a plan that contains "
                       f"{'a' if present else 'none of the'} no-solution marker{'' if present else 's'} ({NO_SOLUTION_TEXTS[0]!r}, ..) is classified "
                       f"{sorted(got)}; demanded is {want!r}"), table)
    if not failed:
        r.ok(table)


# ------------------------------------------------------------------------------------------------------------ C19.enhsp
def rule_enhsp(repo: Repo) -> RuleResult:
    r = RuleResult("C19.enhsp", "ENHSP: one output line per input line, lower-cased, order kept", "exactly the plan's steps, in order, lower-cased")
    m = _model(repo, EN_READ)
    f = m.f
    v = m.view()
    r.site(f.qn)
    lists: List[Tuple[str, object, ast.AST]] = []
    rets = v.returns()
    for ret in rets:
        if ret.value is None:
            lists.append(("opaque", "nothing is returned", ret))
        else:
            lists += v.lists(ret.value)
    interp = [m.steps(v, sq, "enhsp", n) for k, sq, n in lists if k == "seq"]
    problems = [p for st in interp for p in st.problems]
    opaque = [(why, n) for k, why, n in lists if k in ("opaque", "partial")]
    if problems or opaque or not interp or any(k == "empty" for k, _s, _n in lists) or not all(st.valid for st in interp):
        why = problems[0] if problems else (f"{unparse(opaque[0][1], 50)} is returned ({opaque[0][0]})" if opaque else
                                            "an empty list is returned whatever the file contains" if lists else "nothing is returned")
        r.fail(Finding("C19.enhsp", f, "per-line", f"the ENHSP reader does not emit exactly one lower-cased line per input line in order: {why}"))
    else:
        r.ok({"per_line": interp[0].rendered, "with": "line = <line of the input file>.lower()"})
    _check_written(repo, EN_WRITE, "enhsp", "C19.enhsp", r)
    r.require_sites(1)
    return r


# ------------------------------------------------------------------------------------------------------------ C19.cache
CACHE_DECORATORS = {("functools", "lru_cache"), ("functools", "cache"), ("functools", "cached_property"), ("cachetools", "cached"),
                    ("cachetools", "cachedmethod"), ("cachetools.func", "lru_cache"), ("cachetools.func", "ttl_cache")}


def _caching_decorator(repo: Repo, f: FuncInfo, d: ast.AST) -> Optional[str]:
    """the decorator (with or without arguments, through import aliases) memoises the function"""
    txt = ast.unparse(d)
    base = d.func if isinstance(d, ast.Call) else d
    if isinstance(base, ast.Name):
        r = repo.lookup(f.mod.name, base.id)
        if r and r[0] == "external" and isinstance(r[1], tuple) and tuple(r[1]) in CACHE_DECORATORS:
            return txt
        if base.id == "cache":
            return txt
    elif isinstance(base, ast.Attribute) and isinstance(base.value, ast.Name):
        r = repo.lookup(f.mod.name, base.value.id)
        modname = r[1] if r and r[0] in ("module", "external") and isinstance(r[1], str) else None
        if modname and (modname, base.attr) in CACHE_DECORATORS:
            return txt
    if any(k in txt for k in ("lru_cache", "functools.cache", "cached_property")):
        return txt
    return None


READ_CALLS = ("open", "read_text", "read_bytes", "readlines", "read")
DICT_CTORS = ("dict", "OrderedDict", "defaultdict", "WeakValueDictionary")


def _shared_dict(repo: Repo, f: FuncInfo, e: ast.AST, local: Set[str]) -> Optional[str]:
    """the expression names a dict that outlives the call: a module-level `NAME = {}` or a class-level `ATTR = {}` reached through
    self / cls / the class name"""
    def is_dict(v: Optional[ast.AST]) -> bool:
        return isinstance(v, ast.Dict) or (isinstance(v, ast.Call) and callee_name(v) in DICT_CTORS)

    if isinstance(e, ast.Name) and e.id not in local:
        r = repo.lookup(f.mod.name, e.id)
        if r and r[0] == "const" and is_dict(r[1]):
            return e.id
    if isinstance(e, ast.Attribute) and isinstance(e.value, ast.Name) and f.cls and f.cls in repo.classes and \
            (e.value.id in (f.self_name, "cls", f.cls) or e.value.id in repo.classes):
        cname = e.value.id if e.value.id in repo.classes else f.cls
        for c in repo.mro(cname):
            for b in repo.classes[c].node.body:
                tg = b.targets if isinstance(b, ast.Assign) else [b.target] if isinstance(b, ast.AnnAssign) and b.value is not None else []
                if any(isinstance(t, ast.Name) and t.id == e.attr for t in tg) and is_dict(b.value):
                    return f"{c}.{e.attr}"
    return None


def _manual_memo(repo: Repo, f: FuncInfo) -> Optional[Tuple[str, ast.AST]]:
    """hand-written memoisation: the function looks a value up in a shared dict and stores into the same dict"""
    local = set(f.params) | {n.id for n in ast.walk(f.node) if isinstance(n, ast.Name) and isinstance(n.ctx, ast.Store)}
    for n in ast.walk(f.node):
        if isinstance(n, ast.Global):
            local -= set(n.names)
    stores: Dict[str, ast.AST] = {}
    loads: Dict[str, ast.AST] = {}
    for n in ast.walk(f.node):
        if isinstance(n, ast.Subscript):
            d = _shared_dict(repo, f, n.value, local)
            if d:
                (stores if isinstance(n.ctx, ast.Store) else loads).setdefault(d, n)
        elif isinstance(n, ast.Call) and isinstance(n.func, ast.Attribute) and n.func.attr in ("setdefault", "update", "get", "pop"):
            d = _shared_dict(repo, f, n.func.value, local)
            if d:
                (loads if n.func.attr in ("get", "pop") else stores).setdefault(d, n)
                if n.func.attr == "setdefault":
                    loads.setdefault(d, n)
        elif isinstance(n, ast.Compare) and len(n.ops) == 1 and isinstance(n.ops[0], (ast.In, ast.NotIn)):
            d = _shared_dict(repo, f, n.comparators[0], local)
            if d:
                loads.setdefault(d, n)
    for d in sorted(set(stores) & set(loads)):
        return d, stores[d]
    return None


def rule_cache(repo: Repo, rid: str = "C19.cache", module_filter=None, manual: bool = False, objects: bool = False) -> RuleResult:
    """memoisation decorators keep hidden process-wide state; on a function that reads a file (or takes mutable objects) the
    cached answer goes stale.  manual=True: hand-written memoisation through a module- / class-level dict is reported as well (objects=True:
    also when the function does not read a file but is a method / takes library objects: the key cannot identify a mutable object)"""
    r = RuleResult(rid, "no memoising decorator (lru_cache / cache) on a function that reads external state or receives mutable objects",
                   "repeating a call returns the result for the CURRENT log / domain, not a remembered one")
    n = 0
    for f in repo.all_funcs():
        if module_filter and not module_filter(f):
            continue
        n += 1
        caching = [c for c in (_caching_decorator(repo, f, d) for d in f.node.decorator_list) if c]
        if not caching and manual:
            mm = _manual_memo(repo, f)
            if mm is not None and L.calls_reaching(repo, f, READ_CALLS):
                r.site(L.site(f, None, "hand-written memoisation"))
                r.fail(Finding(rid, f, "cached-stale", f"{f.qn} remembers its result in the shared dict {mm[0]} although it depends on a file that may be "
                               f"rewritten: a later call for the same key returns the old result", node=mm[1]))
            elif mm is not None and objects and (f.is_method or any(
                    (repo.ann_to_type(f.annotations.get(a), f.mod.name) or ("?",))[0] in ("cls", "dict", "list", "set", "union") for a in f.params if a != f.self_name)):
                r.site(L.site(f, None, "hand-written memoisation"))
                r.fail(Finding(rid, f, "cached-stale", f"{f.qn} remembers its result in the shared dict {mm[0]}, which outlives the objects it was computed from: the "
                               f"answer for another domain / problem with equal names is the remembered one", node=mm[1]))
        if not caching:
            continue
        r.site(L.site(f, None, "cached function"))
        reads = [c for c in L.calls_in(f.node) if callee_name(c) in READ_CALLS]
        mutable_params = [a for a in f.params if a != f.self_name and (repo.ann_to_type(f.annotations.get(a), f.mod.name) or ("?",))[0] in ("cls", "dict", "list", "set", "union")]
        if reads or mutable_params or f.is_method:
            r.fail(Finding(rid, f, "cached-stale", f"@{caching[0]} on {f.qn}: the answer is remembered per argument value although it depends on "
                           f"{'a file that may be rewritten' if reads else 'mutable objects'}: a later call returns the old result"))
        else:
            r.ok({"cached": f.qn, "pure_of_immutable_arguments": True})
    r.site(f"{n} functions scanned for memoising decorators")
    r.ok({"functions_scanned": n})
    r.require_sites(1)
    return r


def rule_inplace(repo: Repo) -> RuleResult:
    """a parser that rewrites a file in place must have read it before it opens it for writing (opening with 'w' truncates)"""
    r = RuleResult("C19.inplace", "a plan file that is rewritten in place is read completely before it is opened for writing",
                   "the written plan holds exactly the steps that were read")
    checked = 0
    for spec in ("ENHSPParser.parse_plan", "MetricFFParser.parse_plan"):
        if repo.func_opt(spec) is None:
            continue
        f = U.anchor(repo, spec)       # every helper of the class / module in place, generator helpers and callable values expanded
        p = L.prov(repo, f)
        g = C.cfg_of(f.node)

        def path_roots(e):
            try:
                return {x[0] for x in p.trace(e) if x[0].startswith("param:")}
            except KeyError:
                return set()

        opens = []
        for c in L.calls_in(f.node):
            nm = callee_name(c)
            if nm == "open" and c.args:
                mode = c.args[1] if len(c.args) > 1 else next((k.value for k in c.keywords if k.arg == "mode"), None)
                target = c.func.value if isinstance(c.func, ast.Attribute) else c.args[0]
                m = mode.value if isinstance(mode, ast.Constant) and isinstance(mode.value, str) else ("r" if mode is None else "?")
                opens.append((c, path_roots(target), m))
            elif nm in ("read_text", "read_bytes") and isinstance(c.func, ast.Attribute):
                opens.append((c, path_roots(c.func.value), "r"))
            elif nm in ("write_text", "write_bytes") and isinstance(c.func, ast.Attribute):
                opens.append((c, path_roots(c.func.value), "w"))
        writes = [(c, rt) for c, rt, m in opens if m[:1] in ("w", "a", "x") or "+" in m]
        reads = [(c, rt) for c, rt, m in opens if m[:1] == "r" and "+" not in m]
        for wc, wr in writes:
            same = [(rc, rr) for rc, rr in reads if rr & wr]
            if not same:
                continue
            checked += 1
            r.site(L.site(f, wc, "in-place rewrite"))
            wn = g.node_containing(wc)
            after = C.reachable_from(g, wn) if wn is not None else set()
            late = [rc for rc, _rr in same if g.node_containing(rc) in after and g.node_containing(rc) != wn]
            # a read nested in the body of the `with open(.., 'w')` is after the truncation as well (the with node itself is `wn`)
            if late:
                r.fail(Finding("C19.inplace", f, "read-after-truncate", f"{unparse(late[0], 50)} reads the file after {unparse(wc, 40)} has truncated it: "
                               f"the rewritten plan is empty", node=late[0]))
            else:
                r.ok({"function": f.qn, "read_before_write": True})
    if not checked:
        r.site("no parser rewrites its input in place")
        r.ok({"in_place_rewrites": 0})
    r.require_sites(1)
    return r


def rules(repo: Repo, tier: str) -> List[RuleResult]:
    return [rule_regex(repo), rule_lower(repo), rule_status(repo), rule_enhsp(repo), rule_inplace(repo),
            rule_cache(repo, "C19.cache", lambda f: "output_parser" in f.mod.short, manual=True)]
