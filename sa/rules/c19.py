"""C19 -- planner logs yield exactly the plan's steps, in order."""
from __future__ import annotations

import ast
import warnings
from typing import List, Optional, Set

with warnings.catch_warnings():
    warnings.simplefilter("ignore")
    import re._parser as sre_parse  # type: ignore
    import re._constants as sre_c  # type: ignore

from .. import cfg as C
from .. import lib as L
from ..core import AnalysisError, Repo, unparse
from ..prov import callee_name
from ..report import Finding, RuleResult

FF = "exporters.ff_output_parser"

EXPLANATION = (
    "C19.regex: the regex AST (re._parser) of PLAN_COMPONENT_REGEX is inspected: the step prefix is a digit followed by ':', the "
    "capture group is a repeat over a character class none of whose members can match a line break (no \\s, no negated class, no "
    "'.' under DOTALL), and the group is followed by a line terminator, so a step cannot extend over the end of its line. "
    "C19.lower: each emitted step derives from group(1) through lower() and strip(), in match order (finditer, no sort). C19.status: "
    "'ok' is returned only under the found-plan marker and every other return carries an empty list. C19.enhsp: one output line "
    "per input line, lower-cased, order kept."
)
UNDECIDED = "that a real planner's log contains nothing else that matches the step pattern (log layout is an assumption)"


def _can_match_newline(items) -> List[str]:
    """reasons why some item of the (sub)pattern can match '\\n' or '\\r'"""
    out = []
    for op, av in items:
        if op == sre_c.LITERAL and av in (10, 13):
            out.append("literal line break")
        elif op == sre_c.NOT_LITERAL:
            out.append(f"negated literal [^{chr(av)}]")
        elif op == sre_c.ANY:
            pass  # '.' does not match \n without DOTALL (flags checked separately)
        elif op == sre_c.CATEGORY:
            if av in (sre_c.CATEGORY_SPACE, sre_c.CATEGORY_NOT_DIGIT, sre_c.CATEGORY_NOT_WORD):
                out.append(f"category {str(av).lower()}")
        elif op == sre_c.IN:
            neg = any(o == sre_c.NEGATE for o, _ in av)
            if neg:
                members = [x for x in av if x[0] != sre_c.NEGATE]
                excl_nl = any((o == sre_c.LITERAL and a == 10) or (o == sre_c.CATEGORY and a == sre_c.CATEGORY_SPACE) for o, a in members)
                if not excl_nl:
                    out.append("negated class that does not exclude the line break")
            else:
                for o, a in av:
                    if o == sre_c.LITERAL and a in (10, 13):
                        out.append("line break inside the class")
                    elif o == sre_c.CATEGORY and a in (sre_c.CATEGORY_SPACE, sre_c.CATEGORY_NOT_DIGIT, sre_c.CATEGORY_NOT_WORD):
                        out.append("\\s (or a negated category) inside the class")
                    elif o == sre_c.RANGE and a[0] <= 10 <= a[1]:
                        out.append("range containing the line break")
        elif op in (sre_c.MAX_REPEAT, sre_c.MIN_REPEAT, sre_c.POSSESSIVE_REPEAT):
            out += _can_match_newline(list(av[2]))
        elif op == sre_c.SUBPATTERN:
            out += _can_match_newline(list(av[3]))
        elif op == sre_c.BRANCH:
            for alt in av[1]:
                out += _can_match_newline(list(alt))
    return out


def rule_regex(repo: Repo) -> RuleResult:
    r = RuleResult("C19.regex", "a plan step is '<digit>: <text up to the end of that line>'; nothing inside the capture group can match a line break",
                   "exactly the plan's steps, independent of the surrounding log text")
    m = repo.module(FF)
    ok, pat = repo.const_value(m.name, "PLAN_COMPONENT_REGEX")
    if not ok or not isinstance(pat, str):
        raise AnalysisError("ff_output_parser.PLAN_COMPONENT_REGEX cannot be folded to a string")
    owner = (m.short, "PLAN_COMPONENT_REGEX", str(m.path))
    with warnings.catch_warnings():
        warnings.simplefilter("ignore")
        tree = sre_parse.parse(pat)
    items = list(tree)
    r.site(f"{FF}.PLAN_COMPONENT_REGEX [prefix]")
    pre = []
    gi = None
    for i, (op, av) in enumerate(items):
        if op == sre_c.SUBPATTERN and av[0] == 1:
            gi = i
            break
        pre.append((op, av))
    if gi is None:
        raise AnalysisError("PLAN_COMPONENT_REGEX has no capture group 1")
    has_digit = any((op == sre_c.IN and any(o == sre_c.CATEGORY and a == sre_c.CATEGORY_DIGIT for o, a in av)) or
                    (op in (sre_c.MAX_REPEAT, sre_c.MIN_REPEAT) and any(o == sre_c.IN and any(oo == sre_c.CATEGORY and aa == sre_c.CATEGORY_DIGIT for oo, aa in a)
                                                                      for o, a in av[2])) for op, av in pre)
    has_colon = any(op == sre_c.LITERAL and av == ord(":") for op, av in pre)
    if has_digit and has_colon:
        r.ok({"prefix": "digit(s) ':'", "pattern": pat})
    else:
        r.fail(Finding("C19.regex", owner, "prefix", f"the step prefix of {pat!r} is not <digit>:"))
    r.site(f"{FF}.PLAN_COMPONENT_REGEX [capture group]")
    reasons = _can_match_newline(list(items[gi][1][3]))
    # flags: DOTALL anywhere in the calls that use the pattern?
    dotall = False
    for f in repo.all_funcs():
        if f.mod is m:
            for c in L.calls_in(f.node):
                if any(isinstance(a, ast.Name) and a.id == "PLAN_COMPONENT_REGEX" for a in c.args):
                    if any("DOTALL" in ast.unparse(a) or ast.unparse(a).endswith(".S") for a in list(c.args) + [k.value for k in c.keywords]):
                        dotall = True
    if dotall and any(op == sre_c.ANY for op, _ in sre_parse.parse(pat)):
        reasons.append("'.' with DOTALL")
    if reasons:
        r.fail(Finding("C19.regex", owner, "group-matches-newline", f"inside the capture group of {pat!r}: {sorted(set(reasons))} -- a following line made of "
                       f"group characters is swallowed into the last step"), {"pattern": pat, "reasons": sorted(set(reasons))})
    else:
        r.ok({"capture_group_can_match_line_break": False})
    r.site(f"{FF}.PLAN_COMPONENT_REGEX [terminator]")
    post = items[gi + 1:]
    term = any((op == sre_c.LITERAL and av == 10) or (op == sre_c.AT and av in (sre_c.AT_END, sre_c.AT_END_LINE, sre_c.AT_END_STRING)) or
               (op in (sre_c.MAX_REPEAT, sre_c.MIN_REPEAT) and any(o == sre_c.LITERAL and a == 13 for o, a in av[2])) for op, av in post)
    if term:
        r.ok({"terminated_by": "end of line"})
    else:
        r.fail(Finding("C19.regex", owner, "terminator", f"the capture group of {pat!r} is not followed by a line terminator"))
    r.require_sites(3)
    return r


def rule_lower(repo: Repo) -> RuleResult:
    r = RuleResult("C19.lower", "every step = group(1).lower().strip() wrapped in parentheses, appended in match order", "in order, lower-cased, arguments in order")
    f = repo.func("MetricFFParser._parse_plan_content")
    p = L.prov(repo, f)
    r.site(f.qn)
    apps = [c for c in L.calls_in(f.node) if isinstance(c.func, ast.Attribute) and c.func.attr == "append"]
    if not apps:
        raise AnalysisError("_parse_plan_content: append of the step not found")
    tr = p.trace(apps[0].args[0])
    src = [x for x in tr if "call:group" in x]
    ok = bool(src) and all("call:lower" in x and "call:strip" in x for x in src) and \
        any(any(s.startswith("arg1:finditer") or s.startswith("arg1:findall") for s in x) and x[0] == "param:planner_output" for x in tr) and \
        any(x[0] == "global:PLAN_COMPONENT_REGEX" or x[0].startswith("const:") and any(s.startswith("arg0:finditer") for s in x) for x in tr) and \
        not any(any(s.startswith(("arg0:sorted", "arg0:reversed", "arg0:set")) for s in x) for x in tr)
    g1 = [c for c in L.calls_in(f.node) if callee_name(c) == "group" and c.args and isinstance(c.args[0], ast.Constant) and c.args[0].value == 1]
    tmpl = apps[0].args[0]
    wrapped = isinstance(tmpl, ast.JoinedStr) and "".join(v.value for v in tmpl.values if isinstance(v, ast.Constant)).strip() in ("()",)
    if ok and g1 and wrapped:
        r.ok({"step": "'(' + group(1).lower().strip() + ')\\n'", "order": "match order"})
    else:
        r.fail(Finding("C19.lower", f, "step-text", f"an emitted step is not '(' + group(1).lower().strip() + ')' in match order (lower/strip={ok}, group(1)={bool(g1)}, wrapped={wrapped})"))
    # the pattern is matched against the complete log (a slice needs bounds that were checked)
    r.site(f.qn + " [searched text]")
    g = C.cfg_of(f.node)
    dom = C.dominators(g)
    scans = [c for c in L.calls_in(f.node) if callee_name(c) in ("finditer", "findall", "search") and len(c.args) >= 2]
    bad_slice = None
    for c in scans:
        for x in p.trace(c.args[1]):
            if x[0] == "param:planner_output" and any(s.startswith("slice:") for s in x):
                # find the slicing statement and its bound names
                for n in ast.walk(f.node):
                    if isinstance(n, ast.Subscript) and isinstance(n.slice, ast.Slice):
                        for b in (n.slice.lower, n.slice.upper):
                            if isinstance(b, ast.Name):
                                from_find = any(any(s in ("call:find", "call:rfind") for s in y) for y in p.trace(b))
                                if from_find:
                                    sn = g.node_containing(n)
                                    checked = any(isinstance(g.stmt[d], ast.If) and any(isinstance(t, ast.Name) and t.id == b.id for t in ast.walk(g.stmt[d].test))
                                                  for d in dom[sn]) if sn is not None else False
                                    if not checked:
                                        bad_slice = (n, b.id)
    if bad_slice:
        r.fail(Finding("C19.lower", f, f"unchecked-find-bound:{bad_slice[1]}", f"{unparse(bad_slice[0], 60)} slices the log with `{bad_slice[1]}` which comes from str.find "
                       f"and is never compared with -1: when the marker is absent the slice silently drops the end of the log", node=bad_slice[0]))
    else:
        r.ok({"searched_text": "the log (slices only with checked bounds)"})
    rets = L.func_returns(f)
    r.site(f.qn + " [result]")
    names = {x.value.id for x in rets if isinstance(x.value, ast.Name)}
    lists = [x for x in rets if isinstance(x.value, ast.List) and not x.value.elts]
    tgt = apps[0].func.value.id if isinstance(apps[0].func.value, ast.Name) else None
    if names == {tgt} and len(names) + len(lists) == len(rets):
        r.ok({"returns": tgt})
    else:
        r.fail(Finding("C19.lower", f, "result", "the collected steps are not what is returned"))
    r.require_sites(3)
    return r


def rule_status(repo: Repo) -> RuleResult:
    r = RuleResult("C19.status", "'ok' only under the found-plan marker; every other status carries an empty action list", "a log without a plan yields no actions")
    f = repo.func("MetricFFParser.get_solving_status")
    p = L.prov(repo, f)
    g = C.cfg_of(f.node)

    def matcher(e):
        if isinstance(e, ast.Compare) and len(e.ops) == 1 and isinstance(e.comparators[0], ast.Constant) and e.comparators[0].value is None:
            tr = p.trace(e.left)
            if any(x[0] == "global:VALID_PLAN_FOUND_PATTERN" for x in tr):
                return "found" if isinstance(e.ops[0], ast.IsNot) else "!found"
        return None

    G = L.Guards(f, matcher)
    if "found" not in G.atoms_seen:
        raise AnalysisError("get_solving_status: found-plan test not recognised")
    for found in (False, True):
        r.site(f"{f.qn} [plan marker {'present' if found else 'absent'}]")
        seen = G.reach({"found": found})
        statuses = []
        for n in seen:
            if g.kind[n] == "return":
                v = g.stmt[n].value
                if isinstance(v, ast.Tuple) and len(v.elts) == 2 and isinstance(v.elts[0], ast.Constant):
                    empty = isinstance(v.elts[1], ast.List) and not v.elts[1].elts
                    statuses.append((v.elts[0].value, empty))
                else:
                    statuses.append(("?", False))
        if found:
            ok = statuses == [("ok", False)]
        else:
            ok = bool(statuses) and all(s in ("no-solution", "timeout") and e for s, e in statuses)
        if ok:
            r.ok({"marker_found": found, "returns": statuses})
        else:
            r.fail(Finding("C19.status", f, f"status:found={found}", f"with the plan marker {'present' if found else 'absent'} the function can return {statuses}"))
    r.require_sites(2)
    return r


def rule_enhsp(repo: Repo) -> RuleResult:
    r = RuleResult("C19.enhsp", "ENHSP: one output line per input line, lower-cased, order kept", "exactly the plan's steps, in order, lower-cased")
    f = repo.func("ENHSPParser.parse_plan_content")
    p = L.prov(repo, f)
    r.site(f.qn)
    apps = [c for c in L.calls_in(f.node) if isinstance(c.func, ast.Attribute) and c.func.attr == "append"]
    ok = False
    if apps:
        tr = p.trace(apps[0].args[0])
        ok = all("call:lower" in x for x in tr if "elem" in x) and any("call:readlines" in x and "elem" in x for x in tr) and \
            not any(any(s.startswith(("arg0:sorted", "arg0:reversed", "arg0:set")) for s in x) for x in tr)
    g = C.cfg_of(f.node)
    loops = [n for n in ast.walk(f.node) if isinstance(n, ast.For)]
    uncond = bool(apps) and bool(loops) and not any(isinstance(s, (ast.If, ast.Continue, ast.Break)) for s in C.stmts_in(loops[0].body))
    if ok and uncond:
        r.ok({"per_line": "append(line.lower())"})
    else:
        r.fail(Finding("C19.enhsp", f, "per-line", "the ENHSP reader does not emit exactly one lower-cased line per input line in order"))
    r.require_sites(1)
    return r


def rule_cache(repo: Repo, rid: str = "C19.cache", module_filter=None) -> RuleResult:
    """memoisation decorators keep hidden process-wide state; on a function that reads a file (or takes mutable objects) the
    cached answer goes stale"""
    r = RuleResult(rid, "no memoising decorator (lru_cache / cache) on a function that reads external state or receives mutable objects",
                   "repeating a call returns the result for the CURRENT log / domain, not a remembered one")
    n = 0
    for f in repo.all_funcs():
        if module_filter and not module_filter(f):
            continue
        n += 1
        decos = [ast.unparse(d) for d in f.node.decorator_list]
        caching = [d for d in decos if any(k in d for k in ("lru_cache", "functools.cache", "cached_property")) or d in ("cache",)]
        if not caching:
            continue
        r.site(L.site(f, None, "cached function"))
        reads = [c for c in L.calls_in(f.node) if callee_name(c) in ("open", "read_text", "read_bytes", "readlines", "read")]
        mutable_params = [a for a in f.params if a != f.self_name and (repo.ann_to_type(f.annotations.get(a), f.mod.name) or ("?",))[0] in ("cls", "dict", "list", "set", "union")]
        if reads or mutable_params or f.is_method:
            r.fail(Finding(rid, f, "cached-stale", f"@{caching[0]} on {f.qn}: the answer is remembered per argument value although it depends on "
                           f"{'a file that may be rewritten' if reads else 'mutable objects'}: a later call returns the old result"))
        else:
            r.ok({"cached": f.qn, "pure_of_immutable_arguments": True})
    r.site(f"{n} functions scanned for memoising decorators")
    r.ok({"functions_scanned": n})
    r.require_sites(1)
    return r


def rules(repo: Repo, tier: str) -> List[RuleResult]:
    return [rule_regex(repo), rule_lower(repo), rule_status(repo), rule_enhsp(repo),
            rule_cache(repo, "C19.cache", lambda f: "output_parser" in f.mod.short)]
