"""Helpers of the C15 rules (local engine extensions; candidates for promotion into sa/lib.py, sa/inline.py, sa/prov.py).

* `discover`      -- the two steps of PlanConverter.convert_plan (text -> action sequence, sequence -> joint actions) are located by
                     the provenance of the arguments of the calls made by the public function; the private functions that implement
                     them are identified by what they receive, not by their names, and their parameters are bound to roles
                     (AGENTS / PROBLEM / PLAN / TEXT / FLAG) by the call's arguments (wrappers are followed).
* `flatten_full`  -- sa.inline flattening that (a) also inlines helpers called in a `while` test (`while t(): b` is analysed as
                     `while True: if not t(): break; b`, re-flattened until nothing is left to inline), (b) keeps a chosen set of
                     callees opaque (their qualified names are put on the inliner's recursion stack), (c) reads module-level integer
                     constants as literals and (d) rewrites polarity-filtered comprehensions / conditional receivers into statements
                     so that valuation-aware provenance can tell add from delete effects.
* normal forms  -- rewrites of the flattened copy, applied round by round together with the inliner until nothing changes:
                     `_Functional` (map / filter / operator-module functions / attrgetter / itemgetter / methodcaller / unbound
                     builtin methods / lambdas applied on the spot / trivial classmethods / lookups in module-level dicts of
                     constants and callables / boolean-indexed two-way tables / any-all over a table of constant keys),
                     `_split_boolops` (`x = a and self._h()` -> statements, so that the conditionally evaluated helper is inlined
                     on its branch), `_hoist_nested_comprehensions`, the engine's generator-helper expansion, `_Records`
                     (NamedTuple / dataclass locals: members inlined, then one local per field, loops over zip(record, record)
                     unrolled, typed field reads become positions) and `_ConstDicts` (dicts only used with constant keys -> one
                     local per key).  What cannot be split is listed in `FuncInfo.unsplit_records`.
                     Round 3 additions: `functools.partial` objects bound once are applied (`_Functional._is_partial`), `f(*(a, b))` is
                     `f(a, b)`, `getattr(x, "n")` is `x.n`, a local bound once to a module-level class / function is that object
                     (`cls__i3 = Rec` of an inlined classmethod), any / all over static tables built by `tuple(<comprehension over a
                     literal>)` and over in-place tuples of pairs of locals (`F(*row) for row in ((a, b), ..)`) are written out,
                     `_unroll_local_tables` (for loops over tuples of pairs of locals, with break / continue / else, in the engine's
                     block / jump forms), `bool(a and self._h())` is split like `a and self._h()`, record methods called through the
                     class (`Rec.merge(acc, item)`), `Rec(*(E for x, y in zip(r1, r2)))`, a record local computed from its own old
                     value (fields read before any is written), `_expand_generators_keeping` (the engine's generator expansion with
                     the extractors kept opaque inside the generator's body).
* `ShortProv`     -- provenance in which "put into a container, taken out again" leaves no steps (the engine's paths are cut at a fixed
                     length); used for the element kinds of sets.
* `Members`       -- the walks over the members of a step (for statements / comprehension generators over the slot list or over a
                     container filled member by member), their completeness and what they compute (C15.members; the guard scenarios
                     use them to know that a walk which every non-nop member leaves does not come to its normal end).
* `origins` / `flows_from` / `same_object`
                  -- allocation-site identity of a local object: the expression(s) that created the value a name holds, following
                     plain copies (also the parameter bindings of inlined helpers), tuple-literal unpacking and tuples returned by
                     inlined helpers.
* `Extractors` / `Polarised`
                  -- summaries of the private functions that turn an operator into sets of grounded literal texts; each returned
                     component is classified by the operator fields its elements are read from (add / del / num / pre / numpre).
* `Verdict`       -- truth value of a boolean expression of the packing loop under a *scenario* (slot occupied, candidate
                     inapplicable, one interference pair non-empty), for any spelling of the set tests: len(a.intersection(b)) > 0,
                     a & b, not a.isdisjoint(b), all(x.isdisjoint(y) for x, y in TABLE), any([...]), intermediate variables; and
                     `Verdict.reach`: reachability under a scenario by a flow-sensitive abstract interpretation of boolean locals
                     (branch refinement, pointwise join) -- follows accumulated flags where sa.lib.Guards (reaching definitions
                     filtered by reachability) cannot.
* `per_iteration` -- every iteration of a loop passes exactly one of a set of CFG nodes (raise paths excluded).
"""
from __future__ import annotations

import ast
import copy
import itertools
import re
from typing import Dict, Iterable, List, Optional, Set, Tuple

from .. import cfg as C
from .. import lib as L
from .. import prov as P
from ..core import AnalysisError, FuncInfo, Repo
from ..inline import Flattener, specialise
try:        # generator-helper expansion of the engine (absent in older engines: generator helpers then stay opaque)
    from ..inline import expand_generators, _loops_over_generators
except ImportError:                                                         # pragma: no cover
    def expand_generators(repo, f, fn, stack):
        return False

    def _loops_over_generators(repo, f, body):
        return body
from ..prov import callee_name

ANCHOR = "PlanConverter.convert_plan"
PUBLIC_ROLES = {"problem": "PROBLEM", "agent_names": "AGENTS", "plan_file_path": "PATH", "should_validate_concurrency_constraint": "FLAG"}


def short(paths) -> Set[tuple]:
    """provenance paths that were not cut at the engine's length limit (a cut path has lost its last steps)"""
    return {x for x in paths if len(x) < P.MAXLEN}


def is_private(name: str) -> bool:
    return name.startswith("_") and not (name.startswith("__") and name.endswith("__"))


# --------------------------------------------------------------------------------------------------------------- flattening
def _normalise_whiles(fl: Flattener, fn: ast.AST, ctx: FuncInfo) -> None:
    for n in ast.walk(fn):
        if isinstance(n, ast.While) and not n.orelse and not (isinstance(n.test, ast.Constant) and n.test.value is True):
            try:
                inl = fl._has_inlinable_call(n.test, ctx, (ctx.qn,), None)
            except Exception:
                inl = False
            if not inl:
                continue
            brk = ast.If(test=ast.UnaryOp(op=ast.Not(), operand=n.test), body=[ast.Break()], orelse=[])
            ast.copy_location(brk, n)
            ast.copy_location(brk.test, n.test)
            ast.copy_location(brk.body[0], n)
            n.test = ast.copy_location(ast.Constant(value=True), n.test)
            n.body = [brk] + list(n.body)


class _FoldIntConstants(ast.NodeTransformer):
    """module-level integer constants used as literals (`HEAD = 0 ... plan[HEAD]`) are read as the literal"""

    def __init__(self, repo: Repo, f: FuncInfo, fn: ast.AST):
        self.repo, self.f = repo, f
        self.locals = {n.id for n in ast.walk(fn) if isinstance(n, ast.Name) and isinstance(n.ctx, ast.Store)} | set(f.params)
        for n in ast.walk(fn):
            if isinstance(n, ast.arg):
                self.locals.add(n.arg)

    def visit_Name(self, n: ast.Name):
        if isinstance(n.ctx, ast.Load) and n.id not in self.locals:
            try:
                r = self.repo.lookup(self.f.mod.name, n.id)
                if r and r[0] == "const":
                    ok, v = self.repo.fold(r[1], r[2])
                    if ok and isinstance(v, int) and not isinstance(v, bool):
                        return ast.copy_location(ast.Constant(value=v), n)
            except Exception:
                pass
        return n


def _mentions_polarity(e: ast.AST) -> bool:
    return any(isinstance(n, ast.Attribute) and n.attr == "is_positive" for n in ast.walk(e))


def _expand_polarity_constructs(fl: Flattener, fn: ast.AST) -> None:
    """valuation-aware provenance decides `if lit.is_positive: adds.add(t) else: dels.add(t)` statement by statement; the same
    split written as filtered comprehensions (`{t for .. if lit.is_positive}`, anywhere in a statement) or with a conditional
    receiver (`(adds if lit.is_positive else dels).add(t)`) is rewritten into that statement form first"""
    COMPS = (ast.ListComp, ast.SetComp, ast.GeneratorExp)

    def has_filter(c) -> bool:
        return isinstance(c, COMPS) and any(_mentions_polarity(i) for g_ in c.generators for i in g_.ifs)

    def alias_ifs(body: List[ast.stmt]) -> List[ast.stmt]:
        """`t = a if lit.is_positive else b` (or the same as an if statement) followed by uses of t in the same block: t is read as
        the conditional expression (then `t.add(x)` is the conditional receiver handled below)"""
        body = list(body)
        i = 0
        while i < len(body):
            st = body[i]
            t = ife = None
            if isinstance(st, ast.Assign) and len(st.targets) == 1 and isinstance(st.targets[0], ast.Name) and isinstance(st.value, ast.IfExp):
                t, ife = st.targets[0].id, st.value
            elif type(st) is ast.If and len(st.body) == 1 and len(st.orelse) == 1 and all(
                    isinstance(x, ast.Assign) and len(x.targets) == 1 and isinstance(x.targets[0], ast.Name) for x in (st.body[0], st.orelse[0])) \
                    and st.body[0].targets[0].id == st.orelse[0].targets[0].id:
                t = st.body[0].targets[0].id
                ife = ast.copy_location(ast.IfExp(test=st.test, body=st.body[0].value, orelse=st.orelse[0].value), st)
            if t is not None and _mentions_polarity(ife.test) and isinstance(ife.body, ast.Name) and isinstance(ife.orelse, ast.Name):
                rest = body[i + 1:]
                loads_rest = sum(1 for s_ in rest for x in ast.walk(s_) if isinstance(x, ast.Name) and x.id == t and isinstance(x.ctx, ast.Load))
                loads_all = sum(1 for x in ast.walk(fn) if isinstance(x, ast.Name) and x.id == t and isinstance(x.ctx, ast.Load))
                stores_all = sum(1 for x in ast.walk(fn) if isinstance(x, ast.Name) and x.id == t and not isinstance(x.ctx, ast.Load))
                stores_here = sum(1 for x in ast.walk(st) if isinstance(x, ast.Name) and x.id == t and not isinstance(x.ctx, ast.Load))
                used = {x.id for x in ast.walk(ife) if isinstance(x, ast.Name)}
                restored = {x.id for s_ in rest for x in ast.walk(s_) if isinstance(x, ast.Name) and not isinstance(x.ctx, ast.Load)}
                if loads_rest and loads_rest == loads_all and stores_all == stores_here and not (used & restored):
                    body[i + 1:] = [_Subst({t: ife}).visit(s_) for s_ in rest]
                    del body[i]
                    continue
            i += 1
        return body

    def rewrite_block(body: List[ast.stmt]) -> List[ast.stmt]:
        out: List[ast.stmt] = []
        body = alias_ifs(body)
        for st in body:
            for fld in ("body", "orelse", "finalbody"):
                sub = getattr(st, fld, None)
                if isinstance(sub, list) and sub and isinstance(sub[0], ast.stmt):
                    setattr(st, fld, rewrite_block(sub))
            if isinstance(st, ast.Try):
                for h in st.handlers:
                    h.body = rewrite_block(h.body)
            # (a if c else b).add(x)  ->  if c: a.add(x) else: b.add(x)
            if isinstance(st, ast.Expr) and isinstance(st.value, ast.Call) and isinstance(st.value.func, ast.Attribute) \
                    and isinstance(st.value.func.value, ast.IfExp) and _mentions_polarity(st.value.func.value.test):
                ife = st.value.func.value

                def arm(recv):
                    c = copy.deepcopy(st.value)
                    c.func.value = recv
                    return ast.copy_location(ast.Expr(value=c), st)
                new_if = ast.copy_location(ast.If(test=ife.test, body=[arm(ife.body)], orelse=[arm(ife.orelse)]), st)
                ast.fix_missing_locations(new_if)
                out.append(new_if)
                continue
            hdr = C.header(st) if not isinstance(st, (ast.FunctionDef, ast.ClassDef)) else None
            if hdr is None or isinstance(st, (ast.For, ast.While, ast.If, ast.With)):
                out.append(st)
                continue
            pre: List[ast.stmt] = []
            # X.update(<filtered comprehension>) / X.extend(..)
            if isinstance(st, ast.Expr) and isinstance(st.value, ast.Call) and isinstance(st.value.func, ast.Attribute) and st.value.func.attr in ("update", "extend") \
                    and len(st.value.args) == 1 and has_filter(st.value.args[0]) and isinstance(st.value.func.value, ast.Name):
                exp = fl._expand_comprehension(st.value.args[0], st.value.func.value.id, st, adder="add" if st.value.func.attr == "update" else "append")
                if exp is not None:
                    for x_ in exp:
                        ast.fix_missing_locations(x_)
                    out.extend(exp)
                    continue

            class Hoist(ast.NodeTransformer):
                def visit_Lambda(self, n):
                    return n

                def _comp(self, n, wrapper=None):
                    kind = wrapper or ("set" if isinstance(n, ast.SetComp) else "list")
                    tmp = f"__pol__c{next(_pol_counter)}"
                    init = ast.Call(func=ast.Name(id="set", ctx=ast.Load()), args=[], keywords=[]) if kind in ("set", "frozenset") else ast.List(elts=[], ctx=ast.Load())
                    exp = fl._expand_comprehension(n, tmp, st, adder="add" if kind in ("set", "frozenset") else "append")
                    if exp is None:
                        return None
                    a = ast.copy_location(ast.Assign(targets=[ast.Name(id=tmp, ctx=ast.Store())], value=init, lineno=st.lineno), st)
                    for x_ in [a] + exp:
                        ast.fix_missing_locations(x_)
                    pre.append(a)
                    pre.extend(exp)
                    return ast.copy_location(ast.Name(id=tmp, ctx=ast.Load()), n)

                def visit_Call(self, n):
                    if isinstance(n.func, ast.Name) and n.func.id in ("set", "list", "frozenset", "tuple", "sorted") and len(n.args) == 1 and not n.keywords \
                            and has_filter(n.args[0]):
                        r_ = self._comp(n.args[0], "set" if n.func.id in ("set", "frozenset") else "list")
                        if r_ is not None:
                            return r_
                    return self.generic_visit(n)

                def visit_ListComp(self, n):
                    if has_filter(n):
                        r_ = self._comp(n)
                        if r_ is not None:
                            return r_
                    return n

                visit_SetComp = visit_ListComp

                def visit_GeneratorExp(self, n):
                    return n

                def visit_DictComp(self, n):
                    return n

            for fld in ("value", "test"):
                v = getattr(st, fld, None)
                if isinstance(v, ast.AST) and any(has_filter(n) for n in ast.walk(v)):
                    setattr(st, fld, Hoist().visit(v))
            out.extend(pre)
            out.append(st)
        return out

    fn.body = rewrite_block(list(fn.body))



# --------------------------------------------------------------------------------------------------------------- normal forms
# Local engine extensions (candidates for promotion into sa/inline.py): source-level idioms are rewritten, in the flattened copy
# only, into the statement forms the provenance / valuation engines interpret.
_nf_counter = itertools.count(1)
_SCOPES = (ast.FunctionDef, ast.AsyncFunctionDef, ast.Lambda, ast.ClassDef)
_OP_BIN = {"and_": ast.BitAnd, "or_": ast.BitOr, "xor": ast.BitXor, "sub": ast.Sub, "add": ast.Add}
_OP_CMP = {"eq": ast.Eq, "ne": ast.NotEq, "is_": ast.Is, "is_not": ast.IsNot, "lt": ast.Lt, "le": ast.LtE, "gt": ast.Gt, "ge": ast.GtE}
_BUILTIN_TYPES = ("set", "frozenset", "list", "dict", "str", "tuple")


def _walk_scope(node: ast.AST):
    todo = [node]
    while todo:
        n = todo.pop()
        yield n
        for ch in ast.iter_child_nodes(n):
            if not isinstance(ch, _SCOPES):
                todo.append(ch)


def _store_counts(fn: ast.AST) -> Dict[str, int]:
    out: Dict[str, int] = {}
    for n in ast.walk(fn):
        if isinstance(n, ast.Name) and isinstance(n.ctx, (ast.Store, ast.Del)):
            out[n.id] = out.get(n.id, 0) + 1
        elif isinstance(n, ast.arg):
            out[n.arg] = out.get(n.arg, 0) + 1
        elif isinstance(n, ast.ExceptHandler) and n.name:
            out[n.name] = out.get(n.name, 0) + 1
    return out


def _single_defs(fn: ast.AST) -> Dict[str, ast.AST]:
    """names stored exactly once, by a plain assignment: name -> value expression"""
    cnt = _store_counts(fn)
    out: Dict[str, ast.AST] = {}
    for n in ast.walk(fn):
        if isinstance(n, ast.Assign) and len(n.targets) == 1 and isinstance(n.targets[0], ast.Name) and cnt.get(n.targets[0].id) == 1:
            out[n.targets[0].id] = n.value
        elif isinstance(n, ast.AnnAssign) and isinstance(n.target, ast.Name) and n.value is not None and cnt.get(n.target.id) == 1:
            out[n.target.id] = n.value
    return out


class _Subst(ast.NodeTransformer):
    """replace loads of names by (copies of) expressions"""

    def __init__(self, mapping: Dict[str, ast.AST]):
        self.m = mapping

    def visit_Name(self, n):
        if isinstance(n.ctx, ast.Load) and n.id in self.m:
            return ast.copy_location(copy.deepcopy(self.m[n.id]), n)
        return n


def _located(new: ast.AST, at: ast.AST) -> ast.AST:
    ast.copy_location(new, at)
    for sub in ast.walk(new):
        if isinstance(sub, (ast.expr, ast.stmt)) and not hasattr(sub, "lineno"):
            ast.copy_location(sub, at)
    ast.fix_missing_locations(new)
    return new


class _Functional(ast.NodeTransformer):
    """map / filter / operator-module functions / attrgetter / itemgetter / methodcaller / unbound builtin methods / lambdas that
    are applied on the spot / trivial classmethods (`return cls(..)`) / boolean-indexed two-way tables are read as the expression
    they compute: `map(f, xs)` -> `(f(x) for x in xs)`, `set.isdisjoint(a, b)` -> `a.isdisjoint(b)`, `attrgetter('n')(x)` -> `x.n`,
    `{True: a, False: b}[c]` / `(b, a)[c]` -> `a if c else b`; `set(<generator>)` / `list(<generator>)` become comprehensions"""

    def __init__(self, repo: Repo, f: FuncInfo, fn: ast.AST):
        self.repo, self.f = repo, f
        self.changed = False
        self.counts = _store_counts(fn)
        self.locals = set(self.counts)
        self.single = _single_defs(fn)

    def visit_FunctionDef(self, n):
        if getattr(self, "_top", None) is None:
            self._top = n
            self.generic_visit(n)
        return n

    def visit_ClassDef(self, n):
        return n

    # -- what an expression denotes
    def ext(self, e: ast.AST) -> Optional[str]:
        try:
            if isinstance(e, ast.Name) and e.id not in self.locals:
                r = self.repo.lookup(self.f.mod.name, e.id)
                if r and r[0] == "external":
                    return f"{r[1][0]}.{r[1][1]}"
            if isinstance(e, ast.Attribute) and isinstance(e.value, ast.Name) and e.value.id not in self.locals:
                r = self.repo.lookup(self.f.mod.name, e.value.id)
                if r and r[0] == "module":
                    return f"{r[1]}.{e.attr}"
        except Exception:
            pass
        return None

    def is_form(self, e: ast.AST) -> bool:
        """a callable written as an expression this pass can apply"""
        if isinstance(e, ast.Lambda):
            return True
        if isinstance(e, ast.Call) and (self.ext(e.func) or "") in ("operator.attrgetter", "operator.itemgetter", "operator.methodcaller"):
            return True
        if self._is_partial(e):
            return True
        if (self.ext(e) or "").startswith("operator."):
            return True
        if isinstance(e, ast.Attribute) and isinstance(e.value, ast.Name) and e.value.id in _BUILTIN_TYPES and e.value.id not in self.locals:
            return True
        return False

    def _frozen(self, a: ast.AST) -> bool:
        """an argument whose value is the same when the partial is called as when it was made"""
        if isinstance(a, ast.Constant):
            return True
        if isinstance(a, ast.Name):
            return a.id not in self.locals or self.counts.get(a.id) == 1
        if isinstance(a, ast.Attribute):
            return self._frozen(a.value)
        return False

    def _is_partial(self, e: ast.AST) -> bool:
        return isinstance(e, ast.Call) and (self.ext(e.func) or "") == "functools.partial" and bool(e.args) \
            and not any(isinstance(a, ast.Starred) for a in e.args) and not any(k.arg is None for k in e.keywords) \
            and all(self._frozen(a) for a in e.args[1:]) and all(self._frozen(k.value) for k in e.keywords)

    def resolve(self, F: ast.AST, depth: int = 0) -> ast.AST:
        if isinstance(F, ast.Name) and depth < 4:
            v = None
            if F.id in self.single:
                v = self.single[F.id]
            elif F.id not in self.locals:
                try:
                    r = self.repo.lookup(self.f.mod.name, F.id)
                except Exception:
                    r = None
                if r and r[0] == "const":
                    v = r[1]
            if v is not None:
                v = self.resolve(v, depth + 1)
                if self.is_form(v):
                    return v
        return F

    def apply(self, F: ast.AST, args: List[ast.AST], keywords=()) -> Optional[ast.AST]:
        """the expression F(*args); None when F is an ordinary function reference"""
        F = self.resolve(F)
        if isinstance(F, ast.Lambda) and not keywords:
            a = F.args
            if a.vararg or a.kwarg or a.kwonlyargs or a.defaults or len(a.posonlyargs + a.args) != len(args):
                return None
            names = [x.arg for x in a.posonlyargs + a.args]
            if not all(isinstance(x, (ast.Name, ast.Constant, ast.Attribute)) for x in args):
                return None
            mapping = dict(zip(names, args))
            # the inliner renames the locals of a helper but not the parameters of its lambdas: a parameter that shares its name
            # with a local of the helper is read as `<param>__i<n>` in the lambda's body
            for x in ast.walk(F.body):
                if isinstance(x, ast.Name) and x.id not in mapping:
                    m = re.match(r"(.+?)(__[igc]\d+)+$", x.id)
                    if m and m.group(1) in mapping:
                        mapping[x.id] = mapping[m.group(1)]
            return _Subst(mapping).visit(copy.deepcopy(F.body))
        if self._is_partial(F):
            # partial(G, a, k=v)(b, k2=w) is G(a, b, k=v, k2=w)
            later = {k.arg for k in keywords}
            kws = [copy.deepcopy(k) for k in F.keywords if k.arg not in later] + list(keywords)
            inner = copy.deepcopy(F.args[0])
            new_args = [copy.deepcopy(a) for a in F.args[1:]] + list(args)
            if self.is_form(self.resolve(inner)):
                got = self.apply(inner, new_args, kws)
                if got is not None:
                    return got
            return ast.Call(func=inner, args=new_args, keywords=kws)
        if isinstance(F, ast.Call) and not keywords:
            kind = self.ext(F.func) or ""
            if kind == "operator.attrgetter" and len(F.args) == 1 and len(args) == 1 and isinstance(F.args[0], ast.Constant) and isinstance(F.args[0].value, str):
                out = args[0]
                for part in F.args[0].value.split("."):
                    out = ast.Attribute(value=out, attr=part, ctx=ast.Load())
                return out
            if kind == "operator.itemgetter" and len(F.args) == 1 and len(args) == 1:
                return ast.Subscript(value=args[0], slice=copy.deepcopy(F.args[0]), ctx=ast.Load())
            if kind == "operator.methodcaller" and F.args and len(args) == 1 and isinstance(F.args[0], ast.Constant) and isinstance(F.args[0].value, str):
                return ast.Call(func=ast.Attribute(value=args[0], attr=F.args[0].value, ctx=ast.Load()), args=[copy.deepcopy(x) for x in F.args[1:]],
                                keywords=[copy.deepcopy(k) for k in F.keywords])
            return None
        kind = self.ext(F) or ""
        if kind.startswith("operator.") and not keywords:
            op = kind.split(".", 1)[1]
            if op in _OP_BIN and len(args) == 2:
                return ast.BinOp(left=args[0], op=_OP_BIN[op](), right=args[1])
            if op in _OP_CMP and len(args) == 2:
                return ast.Compare(left=args[0], ops=[_OP_CMP[op]()], comparators=[args[1]])
            if op == "contains" and len(args) == 2:
                return ast.Compare(left=args[1], ops=[ast.In()], comparators=[args[0]])
            if op == "not_" and len(args) == 1:
                return ast.UnaryOp(op=ast.Not(), operand=args[0])
            if op == "truth" and len(args) == 1:
                return ast.Call(func=ast.Name(id="bool", ctx=ast.Load()), args=[args[0]], keywords=[])
            if op == "getitem" and len(args) == 2:
                return ast.Subscript(value=args[0], slice=args[1], ctx=ast.Load())
            return None
        if isinstance(F, ast.Attribute) and isinstance(F.value, ast.Name) and F.value.id in _BUILTIN_TYPES and F.value.id not in self.locals and args:
            return ast.Call(func=ast.Attribute(value=args[0], attr=F.attr, ctx=ast.Load()), args=list(args[1:]), keywords=list(keywords))
        return None

    def _trivial_classmethod(self, n: ast.Call) -> Optional[ast.AST]:
        fn = n.func
        if not (isinstance(fn, ast.Attribute) and isinstance(fn.value, ast.Name) and fn.value.id in self.repo.classes and fn.value.id not in self.locals):
            return None
        m = self.repo.find_method(fn.value.id, fn.attr)
        if m is None or not any(isinstance(d, ast.Name) and d.id == "classmethod" for d in m.node.decorator_list) or len(m.node.decorator_list) != 1:
            return None
        body = [s for s in m.node.body if not (isinstance(s, ast.Expr) and isinstance(s.value, ast.Constant) and isinstance(s.value.value, str))]
        if len(body) != 1 or not isinstance(body[0], ast.Return) or body[0].value is None or not m.params:
            return None
        if any(isinstance(a, ast.Starred) for a in n.args) or any(k.arg is None for k in n.keywords):
            return None
        bound = bind_args(n, m)
        mapping: Dict[str, ast.AST] = {m.params[0]: ast.Name(id=fn.value.id, ctx=ast.Load())}
        for pn in m.params[1:]:
            v = bound.get(pn, m.defaults.get(pn))
            if v is None or not isinstance(v, (ast.Name, ast.Constant)):
                return None
            mapping[pn] = v
        if any(isinstance(x, ast.Name) and isinstance(x.ctx, ast.Store) for x in ast.walk(body[0].value)):
            return None
        return _Subst(mapping).visit(copy.deepcopy(body[0].value))

    def visit_Call(self, n: ast.Call):
        self.generic_visit(n)
        new: Optional[ast.AST] = None
        fn = n.func
        if any(isinstance(a, ast.Starred) and isinstance(a.value, (ast.Tuple, ast.List)) and not any(isinstance(y, ast.Starred) for y in a.value.elts) for a in n.args):
            # f(*(a, b)) is f(a, b)
            flat: List[ast.AST] = []
            for a in n.args:
                if isinstance(a, ast.Starred) and isinstance(a.value, (ast.Tuple, ast.List)) and not any(isinstance(y, ast.Starred) for y in a.value.elts):
                    flat.extend(a.value.elts)
                else:
                    flat.append(a)
            n.args = flat
            self.changed = True
        if isinstance(fn, ast.Name) and fn.id in self.single and isinstance(self.single[fn.id], ast.Name) and self.single[fn.id].id not in self.locals:
            # a local bound once to a module-level class / function (`cls__i3 = Rec` of an inlined classmethod): the call is a call of that
            n.func = fn = ast.copy_location(ast.Name(id=self.single[fn.id].id, ctx=ast.Load()), fn)
            self.changed = True
        star = any(isinstance(a, ast.Starred) for a in n.args) or any(k.arg is None for k in n.keywords)
        if isinstance(fn, ast.Name) and fn.id in ("map", "filter") and fn.id not in self.locals and not star and not n.keywords and len(n.args) >= 2:
            k = next(_nf_counter)
            if fn.id == "map":
                vs = [ast.Name(id=f"__m{k}_{i}", ctx=ast.Load()) for i in range(len(n.args) - 1)]
                elt = self.apply(n.args[0], list(vs))
                if elt is None:
                    elt = ast.Call(func=copy.deepcopy(n.args[0]), args=list(vs), keywords=[])
                if len(vs) == 1:
                    tgt, it = ast.Name(id=vs[0].id, ctx=ast.Store()), n.args[1]
                else:
                    tgt = ast.Tuple(elts=[ast.Name(id=v.id, ctx=ast.Store()) for v in vs], ctx=ast.Store())
                    it = ast.Call(func=ast.Name(id="zip", ctx=ast.Load()), args=list(n.args[1:]), keywords=[])
                new = ast.GeneratorExp(elt=elt, generators=[ast.comprehension(target=tgt, iter=it, ifs=[], is_async=0)])
            elif len(n.args) == 2:
                v = ast.Name(id=f"__m{k}_0", ctx=ast.Load())
                if isinstance(n.args[0], ast.Constant) and n.args[0].value is None:
                    cond: Optional[ast.AST] = ast.Name(id=v.id, ctx=ast.Load())
                else:
                    cond = self.apply(n.args[0], [ast.Name(id=v.id, ctx=ast.Load())]) or ast.Call(func=copy.deepcopy(n.args[0]), args=[ast.Name(id=v.id, ctx=ast.Load())], keywords=[])
                new = ast.GeneratorExp(elt=v, generators=[ast.comprehension(target=ast.Name(id=v.id, ctx=ast.Store()), iter=n.args[1], ifs=[cond], is_async=0)])
            if new is not None:
                new._from_functional = True
        elif not star:
            new = self.apply(fn, list(n.args), list(n.keywords)) if self.is_form(self.resolve(fn)) else None
            if new is None and isinstance(fn, ast.Name) and fn.id in ("any", "all") and fn.id not in self.locals and len(n.args) == 1 and not n.keywords:
                new = self._unrolled(n)
            if new is None and isinstance(fn, ast.Name) and fn.id == "getattr" and fn.id not in self.locals and len(n.args) == 2 and not n.keywords \
                    and isinstance(n.args[1], ast.Constant) and isinstance(n.args[1].value, str) and n.args[1].value.isidentifier():
                new = ast.Attribute(value=n.args[0], attr=n.args[1].value, ctx=ast.Load())
            if new is None:
                new = self._trivial_classmethod(n)
            if new is None and isinstance(fn, ast.Name) and fn.id in ("set", "list") and fn.id not in self.locals and len(n.args) == 1 and not n.keywords \
                    and isinstance(n.args[0], ast.GeneratorExp) and (getattr(n.args[0], "_from_functional", False) or _has_private_call(n.args[0])):
                g = n.args[0]
                new = (ast.SetComp if fn.id == "set" else ast.ListComp)(elt=g.elt, generators=g.generators)
        if new is None:
            return n
        self.changed = True
        return _located(new, n)

    def _static(self, e: ast.AST) -> bool:
        """a value that can be copied to its place of use: a constant, a reference to a module-level object, a callable form"""
        if isinstance(e, ast.Constant) or self.is_form(e):
            return True
        if isinstance(e, ast.Name):
            return e.id not in self.locals
        if isinstance(e, ast.Attribute):
            return self._static(e.value)
        if isinstance(e, ast.Tuple):
            return all(self._static(x) for x in e.elts)
        return False

    def _global_value(self, e: ast.AST) -> Optional[ast.AST]:
        if isinstance(e, ast.Name) and e.id not in self.locals:
            try:
                r = self.repo.lookup(self.f.mod.name, e.id)
            except Exception:
                r = None
            if r and r[0] == "const":
                return r[1]
        return None

    def _const_rows(self, it: ast.AST, depth: int = 0) -> Optional[List[ast.AST]]:
        """rows of a static table: a display of static values (constants, references to module-level objects, callable forms,
        tuples of those) written in place or bound once at module level, `tuple(..)` / `list(..)` of such a table, and a
        comprehension over such a table whose element is static once the row is put in (`tuple((attrgetter(a), attrgetter(b))
        for a, b in (("x", "y"), ..))`)"""
        if depth > 4:
            return None
        t = self._global_value(it) if isinstance(it, ast.Name) else it
        if isinstance(t, ast.Call) and isinstance(t.func, ast.Name) and t.func.id in ("tuple", "list") and t.func.id not in self.locals \
                and len(t.args) == 1 and not t.keywords:
            return self._const_rows(t.args[0], depth + 1)
        if isinstance(t, (ast.Tuple, ast.List)) and t.elts and all(self._static(x) and not isinstance(x, ast.Name) for x in t.elts):
            return list(t.elts)
        if isinstance(t, (ast.GeneratorExp, ast.ListComp)) and len(t.generators) == 1 and not t.generators[0].ifs and not t.generators[0].is_async:
            gen = t.generators[0]
            inner = self._const_rows(gen.iter, depth + 1)
            if inner is None:
                return None
            rows = []
            for row in inner:
                env: Dict[str, ast.AST] = {}
                if not Verdict.bind(gen.target, row, env):
                    return None
                elt = _Subst(env).visit(copy.deepcopy(t.elt))
                if not self._static(elt) or isinstance(elt, ast.Name):
                    return None
                rows.append(elt)
            return rows
        return None

    @staticmethod
    def _applies_rows(elt: ast.AST, names: Set[str]) -> bool:
        """the row is the argument list of a call: `F(*row)`"""
        return any(isinstance(x, ast.Call) and any(isinstance(a, ast.Starred) and isinstance(a.value, ast.Name) and a.value.id in names for a in x.args)
                   for x in ast.walk(elt))

    def _local_rows(self, it: ast.AST) -> Optional[List[ast.AST]]:
        """rows of a display of tuples of plain locals (written in place, or bound once to a local): each row can be written where it
        is used (the locals named in it are bound once, so they still hold the same value there)"""
        t = self.single.get(it.id) if isinstance(it, ast.Name) else it
        if isinstance(t, ast.Call) and isinstance(t.func, ast.Name) and t.func.id in ("tuple", "list") and t.func.id not in self.locals and len(t.args) == 1 and not t.keywords:
            t = t.args[0]
        if not isinstance(t, (ast.Tuple, ast.List)) or not t.elts:
            return None

        def plain(e: ast.AST) -> bool:
            if isinstance(e, ast.Constant):
                return True
            if isinstance(e, ast.Name):
                return e.id not in self.locals or self.counts.get(e.id) == 1
            if isinstance(e, (ast.Tuple, ast.List)):
                return all(plain(y) for y in e.elts)
            return False
        if not all(isinstance(r_, (ast.Tuple, ast.List)) and plain(r_) for r_ in t.elts):
            return None
        return list(t.elts)

    @staticmethod
    def _selecting_use(elt: ast.AST, names: Set[str]) -> bool:
        """the row selects what is computed: it is used as a subscript, is called, or names an attribute (`getattr(x, row)`)"""
        for x in ast.walk(elt):
            if isinstance(x, ast.Subscript) and any(isinstance(y, ast.Name) and y.id in names for y in ast.walk(x.slice)):
                return True
            if isinstance(x, ast.Call):
                if isinstance(x.func, ast.Name) and x.func.id in names:
                    return True
                if isinstance(x.func, ast.Name) and x.func.id == "getattr" and len(x.args) >= 2 and isinstance(x.args[1], ast.Name) and x.args[1].id in names:
                    return True
        return False

    def _unrolled(self, n: ast.Call) -> Optional[ast.AST]:
        """any / all over a comprehension whose only iterable is a static table: the list of the instantiated elements"""
        c = n.args[0]
        if not isinstance(c, (ast.GeneratorExp, ast.ListComp)) or len(c.generators) != 1 or c.generators[0].ifs or c.generators[0].is_async:
            return None
        gen = c.generators[0]
        names = C.target_names(gen.target)
        if any(isinstance(x, ast.Name) and x.id in names and not isinstance(x.ctx, ast.Load) for x in ast.walk(c.elt)):
            return None
        rows = self._const_rows(gen.iter)
        if rows is not None and not self._selecting_use(c.elt, names):
            return None         # only when the rows select something (keys of a dict / positions / fields / functions to apply)
        if rows is None and self._applies_rows(c.elt, names):
            rows = self._local_rows(gen.iter)       # F(*row) for row in ((a, b), (c, d)): the rows are the argument lists
        if rows is None or len(rows) > 40:
            return None
        elts = []
        for row in rows:
            env: Dict[str, ast.AST] = {}
            if not Verdict.bind(gen.target, row, env):
                return None
            elts.append(_Subst(env).visit(copy.deepcopy(c.elt)))
        return ast.Call(func=n.func, args=[ast.List(elts=elts, ctx=ast.Load())], keywords=[])

    def visit_Subscript(self, n: ast.Subscript):
        self.generic_visit(n)
        if isinstance(n.ctx, ast.Load) and isinstance(n.slice, ast.Constant):
            # TABLE['key'] where TABLE is a module-level dict of constants / callables
            t = self._global_value(n.value)
            if isinstance(t, ast.Dict) and all(isinstance(k, ast.Constant) for k in t.keys):
                hits = [v for k, v in zip(t.keys, t.values) if k.value == n.slice.value and type(k.value) is type(n.slice.value)]
                if len(hits) == 1 and self._static(hits[0]):
                    self.changed = True
                    return _located(copy.deepcopy(hits[0]), n)
        if not isinstance(n.ctx, ast.Load) or isinstance(n.slice, (ast.Slice, ast.Constant, ast.Tuple)):
            return n
        t = self.resolve(n.value) if isinstance(n.value, ast.Name) else n.value
        yes = no = None
        if isinstance(t, ast.Dict) and len(t.keys) == 2 and all(isinstance(k, ast.Constant) and isinstance(k.value, bool) for k in t.keys) \
                and {k.value for k in t.keys} == {True, False}:
            for k, v in zip(t.keys, t.values):
                if k.value:
                    yes = v
                else:
                    no = v
        elif isinstance(t, (ast.Tuple, ast.List)) and len(t.elts) == 2 and _boolean_valued(n.slice):
            no, yes = t.elts
        if yes is None or no is None or not all(isinstance(x, (ast.Name, ast.Attribute, ast.Constant)) for x in (yes, no)):
            return n
        self.changed = True
        return _located(ast.IfExp(test=n.slice, body=copy.deepcopy(yes), orelse=copy.deepcopy(no)), n)


def _boolean_valued(e: ast.AST) -> bool:
    if isinstance(e, ast.Compare) or (isinstance(e, ast.UnaryOp) and isinstance(e.op, ast.Not)):
        return True
    if isinstance(e, ast.Call) and isinstance(e.func, ast.Name) and e.func.id in ("bool", "isinstance"):
        return True
    if isinstance(e, ast.Attribute) and e.attr.startswith(("is_", "has_")):
        return True
    return False


def _has_private_call(e: ast.AST) -> bool:
    return any(isinstance(n, ast.Call) and is_private(callee_name(n)) for n in ast.walk(e))


def _split_boolops(fn: ast.AST) -> bool:
    """`x = a and self._h(..)` is exactly `x = a; if x: x = self._h(..)` (`or`: `if not x`).  Written as statements the conditionally
    evaluated private helper can be inlined on its own branch; the same for `return a and h()`, `if a and h():`, `if not (a and h()):`"""
    changed = [False]

    def chain(name: str, e: ast.BoolOp, at: ast.stmt) -> List[ast.stmt]:
        def assign(v):
            return _located(ast.Assign(targets=[ast.Name(id=name, ctx=ast.Store())], value=v, lineno=at.lineno), at)
        out = [assign(e.values[0])]
        cur = out
        for v in e.values[1:]:
            test: ast.AST = ast.Name(id=name, ctx=ast.Load())
            if isinstance(e.op, ast.Or):
                test = ast.UnaryOp(op=ast.Not(), operand=test)
            nxt = _located(ast.If(test=test, body=[assign(v)], orelse=[]), at)
            cur.append(nxt)
            cur = nxt.body
        return out

    def wanted(e: Optional[ast.AST]) -> bool:
        return isinstance(e, ast.BoolOp) and any(_has_private_call(v) for v in e.values[1:])

    def stmt(st: ast.stmt) -> List[ast.stmt]:
        if isinstance(st, ast.Assign) and len(st.targets) == 1 and isinstance(st.targets[0], ast.Name) and wanted(st.value) \
                and not any(isinstance(x, ast.Name) and x.id == st.targets[0].id for v in st.value.values[1:] for x in ast.walk(v)):
            changed[0] = True
            return chain(st.targets[0].id, st.value, st)
        fld = "value" if isinstance(st, (ast.Return, ast.Assign, ast.AnnAssign)) else ("test" if type(st) is ast.If or isinstance(st, ast.Assert) else None)
        if fld is None:
            return [st]
        e = getattr(st, fld)
        neg = False
        inner = e
        wraps: List[str] = []
        while True:
            if isinstance(inner, ast.UnaryOp) and isinstance(inner.op, ast.Not):
                inner = inner.operand
                wraps.append("not")
            elif isinstance(inner, ast.Call) and isinstance(inner.func, ast.Name) and inner.func.id == "bool" and len(inner.args) == 1 and not inner.keywords:
                inner = inner.args[0]           # bool(a and h()): the truth value of the chain
                wraps.append("bool")
            else:
                break
        if not wanted(inner):
            return [st]
        tmp = f"__bo{next(_nf_counter)}"
        pre = chain(tmp, inner, st)
        new: ast.AST = ast.Name(id=tmp, ctx=ast.Load())
        for w_ in reversed(wraps):
            new = ast.UnaryOp(op=ast.Not(), operand=new) if w_ == "not" else ast.Call(func=ast.Name(id="bool", ctx=ast.Load()), args=[new], keywords=[])
        setattr(st, fld, _located(new, e))
        changed[0] = True
        return pre + [st]

    _rewrite_blocks(fn, stmt)
    return changed[0]


def _unroll_local_tables(fn: ast.AST) -> bool:
    """`for a, b in ((x, y), (u, v)): BODY [else: ELSE]` over a display of tuples of plain locals (written in place or bound once to a
    local; the locals named in the rows are bound once) is written out: one copy of BODY per row with the loop variables replaced,
    `continue` ends the copy, `break` ends the sequence, ELSE runs when no copy broke out (the engine's block / jump forms)"""
    try:
        from ..inline import _own_jumps_to_blocks, _block
    except ImportError:                                                     # pragma: no cover
        return False
    counts = _store_counts(fn)
    single = _single_defs(fn)
    changed = [False]

    def plain(e: ast.AST) -> bool:
        if isinstance(e, ast.Constant):
            return True
        if isinstance(e, ast.Name):
            return counts.get(e.id, 0) <= 1
        if isinstance(e, (ast.Tuple, ast.List)):
            return all(plain(y) for y in e.elts)
        return False

    def stmt(st: ast.stmt) -> List[ast.stmt]:
        if not isinstance(st, ast.For):
            return [st]
        t = single.get(st.iter.id) if isinstance(st.iter, ast.Name) else st.iter
        if not isinstance(t, (ast.Tuple, ast.List)) or not (1 <= len(t.elts) <= 12) or not all(isinstance(r_, (ast.Tuple, ast.List)) and plain(r_) for r_ in t.elts):
            return [st]
        tnames = C.target_names(st.target)
        if any(isinstance(x, ast.Name) and x.id in tnames and not isinstance(x.ctx, ast.Load) for s_ in st.body + st.orelse for x in ast.walk(s_)):
            return [st]
        if any(isinstance(x, (ast.FunctionDef, ast.AsyncFunctionDef, ast.Lambda, ast.Global, ast.Nonlocal, ast.Yield, ast.YieldFrom)) for s_ in st.body for x in ast.walk(s_)):
            return [st]
        k = next(_nf_counter)
        outer = f"lt{k}:loop"
        copies: List[ast.stmt] = []
        for idx, row in enumerate(t.elts):
            env: Dict[str, ast.AST] = {}
            if not Verdict.bind(st.target, row, env) or not all(isinstance(v, (ast.Name, ast.Constant)) for v in env.values()):
                return [st]
            body = [_Subst(env).visit(copy.deepcopy(s_)) for s_ in st.body]
            # the loop variables keep their last values
            body = [_located(ast.Assign(targets=[ast.Name(id=nm, ctx=ast.Store())], value=copy.deepcopy(v), lineno=st.lineno), st) for nm, v in env.items()] + body
            inner = f"lt{k}:{idx}"
            copies.append(_block(inner, _own_jumps_to_blocks(body, inner, outer), st))
        whole = _block(outer, copies + list(st.orelse), st)
        ast.fix_missing_locations(whole)
        changed[0] = True
        return [whole]

    _rewrite_blocks(fn, stmt)
    return changed[0]


def _hoist_nested_comprehensions(fn: ast.AST) -> bool:
    """the inliner expands a comprehension that calls a private helper when it is the whole value of an assignment / return; one
    that is nested in a larger expression (`return {f(x) for ..}, {g(x) for ..}`) is given a name first"""
    changed = [False]
    COMPS = (ast.ListComp, ast.SetComp, ast.DictComp)

    def in_expr(e: ast.AST, pre: List[ast.stmt], at: ast.stmt, top: bool) -> ast.AST:
        if isinstance(e, (ast.Lambda, ast.GeneratorExp, ast.IfExp)):
            return e
        if isinstance(e, COMPS):
            if top or not _has_private_call(e):
                return e
            tmp = f"__hc{next(_nf_counter)}"
            pre.append(_located(ast.Assign(targets=[ast.Name(id=tmp, ctx=ast.Store())], value=e, lineno=at.lineno), at))
            changed[0] = True
            return ast.copy_location(ast.Name(id=tmp, ctx=ast.Load()), e)
        if isinstance(e, ast.BoolOp):
            e.values[0] = in_expr(e.values[0], pre, at, False)
            return e
        for fld, val in ast.iter_fields(e):
            if isinstance(val, ast.AST):
                setattr(e, fld, in_expr(val, pre, at, False))
            elif isinstance(val, list):
                setattr(e, fld, [in_expr(v, pre, at, False) if isinstance(v, ast.AST) else v for v in val])
        return e

    def stmt(st: ast.stmt) -> List[ast.stmt]:
        if not isinstance(st, (ast.Assign, ast.AnnAssign, ast.Return, ast.Expr, ast.AugAssign)) or getattr(st, "value", None) is None:
            return [st]
        if isinstance(st, ast.AugAssign) and isinstance(st.target, ast.Name) and _has_private_call(st.value) and (
                (isinstance(st.op, ast.BitOr) and isinstance(st.value, ast.SetComp)) or (isinstance(st.op, ast.Add) and isinstance(st.value, ast.ListComp))):
            # s |= {f(x) for ..} is s.update({f(x) for ..}); l += [f(x) for ..] is l.extend([..])
            meth = "update" if isinstance(st.op, ast.BitOr) else "extend"
            changed[0] = True
            return [_located(ast.Expr(value=ast.Call(func=ast.Attribute(value=ast.Name(id=st.target.id, ctx=ast.Load()), attr=meth, ctx=ast.Load()),
                                                     args=[st.value], keywords=[])), st)]
        pre: List[ast.stmt] = []
        st.value = in_expr(st.value, pre, st, True)
        return pre + [st]

    _rewrite_blocks(fn, stmt)
    return changed[0]


# -- records (NamedTuple / dataclass / collections.namedtuple): scalar replacement of record-valued locals
def record_fields(repo: Repo, cname: str) -> Optional[List[str]]:
    ci = repo.classes.get(cname)
    if ci is None:
        return None
    nt = any(b.split(".")[-1] == "NamedTuple" for b in ci.bases)
    dc = any((isinstance(d, ast.Name) and d.id == "dataclass") or (isinstance(d, ast.Attribute) and d.attr == "dataclass")
             or (isinstance(d, ast.Call) and isinstance(d.func, (ast.Name, ast.Attribute)) and (getattr(d.func, "id", None) or getattr(d.func, "attr", None)) == "dataclass")
             for d in ci.node.decorator_list)
    if not (nt or dc) or not ci.fields or "__init__" in ci.methods or "__new__" in ci.methods:
        return None
    return list(ci.fields)


def _record_defaults(repo: Repo, cname: str) -> Dict[str, ast.AST]:
    return {b.target.id: b.value for b in repo.classes[cname].node.body if isinstance(b, ast.AnnAssign) and isinstance(b.target, ast.Name) and b.value is not None}


class _Records:
    """record-valued locals of a flattened function.  `X = Rec(a, b)` ... `X.f` / `X[0]` / `for u, v in zip(X, Y)` / `X.method(..)`:
    methods and properties of the record class are inlined (with the engine's inliner), then every record local is replaced by
    one local per field (`X__f_<field>`), whole-record uses become the tuple of the field locals, and loops over such tuples are
    unrolled.  Anything that cannot be scalarised is listed in `failed` (the rules then refuse to guess)."""

    def __init__(self, repo: Repo, ctx: FuncInfo, fn: ast.AST, extractors: Optional[Dict[str, dict]] = None):
        self.repo, self.ctx, self.fn = repo, ctx, fn
        self.extractors = extractors or {}
        self.failed: List[str] = []
        self.vars: Dict[str, str] = {}
        self._discover()

    # -- typing
    def _returns_record(self, call: ast.Call) -> Optional[str]:
        if not is_private(callee_name(call)):
            return None
        t = unique_target(self.repo, self.ctx, call)
        if t is None or t.node.returns is None:
            return None
        return self._ann_record(t.node.returns)

    def ctor(self, e: ast.AST) -> Optional[str]:
        if isinstance(e, ast.Call) and isinstance(e.func, ast.Name) and e.func.id not in self.locals and record_fields(self.repo, e.func.id):
            return e.func.id
        return None

    def _ann_record(self, a: Optional[ast.AST]) -> Optional[str]:
        name = a.id if isinstance(a, ast.Name) else (a.value if isinstance(a, ast.Constant) and isinstance(a.value, str) else (a.attr if isinstance(a, ast.Attribute) else None))
        return name if isinstance(name, str) and record_fields(self.repo, name) else None

    def _unbound(self, e: ast.AST) -> Optional[Tuple[str, FuncInfo]]:
        """(record class, method) when e is `Rec.method(x, ..)`: the plain method of a record class called through the class"""
        if not (isinstance(e, ast.Call) and isinstance(e.func, ast.Attribute) and isinstance(e.func.value, ast.Name) and e.func.value.id not in self.locals
                and record_fields(self.repo, e.func.value.id) and e.args and not isinstance(e.args[0], ast.Starred)):
            return None
        m = self.repo.find_method(e.func.value.id, e.func.attr)
        if m is None or not m.is_method or m.node.decorator_list or getattr(m, "static", False):
            return None
        return e.func.value.id, m

    def rec_type(self, e: ast.AST, assume: Optional[Dict[str, str]] = None) -> Optional[str]:
        if isinstance(e, ast.Name):
            return self.vars.get(e.id) or (assume or {}).get(e.id)
        c = self.ctor(e)
        if c is not None:
            return c
        ub = self._unbound(e)
        if ub is not None:
            # Rec.method(x, ..) with x a Rec is x.method(..)
            return self._ann_record(ub[1].node.returns) if self.rec_type(e.args[0], assume) == ub[0] else None
        if isinstance(e, ast.Call) and isinstance(e.func, ast.Attribute) and isinstance(e.func.value, ast.Name):
            recv = self.vars.get(e.func.value.id) or (assume or {}).get(e.func.value.id)
            if recv is not None:
                m = self.repo.find_method(recv, e.func.attr)
                return self._ann_record(m.node.returns) if m is not None else None
        if isinstance(e, ast.Call):
            try:
                return self._returns_record(e)
            except Exception:
                return None
        return None

    def _discover(self) -> None:
        self.locals = set(_store_counts(self.fn))
        self.counts = _store_counts(self.fn)
        defs: Dict[str, List[Optional[ast.AST]]] = {}
        simple: Set[int] = set()
        for n in _walk_scope(self.fn):
            if isinstance(n, ast.Assign) and len(n.targets) == 1 and isinstance(n.targets[0], ast.Name):
                defs.setdefault(n.targets[0].id, []).append(n.value)
                simple.add(id(n.targets[0]))
            elif isinstance(n, ast.AnnAssign) and isinstance(n.target, ast.Name) and n.value is not None:
                defs.setdefault(n.target.id, []).append(n.value)
                simple.add(id(n.target))
        for n in _walk_scope(self.fn):
            if isinstance(n, ast.Name) and isinstance(n.ctx, (ast.Store, ast.Del)) and id(n) not in simple:
                defs.setdefault(n.id, []).append(None)
        for a in ast.walk(self.fn.args):
            if isinstance(a, ast.arg):
                defs.setdefault(a.arg, []).append(None)
        self.defs = defs
        changed = True
        while changed:
            changed = False
            for name, vals in defs.items():
                if name in self.vars or any(v is None for v in vals):
                    continue
                ts = {self.rec_type(v) for v in vals if not _is_none(v)}
                if len(ts) > 1 and None in ts:
                    # `X = Rec(..)` ... `X = X.method(..)`: assume the type the other definitions give and check it
                    guess = ts - {None}
                    if len(guess) == 1:
                        ts = {self.rec_type(v, {name: next(iter(guess))}) for v in vals if not _is_none(v)}
                if len(ts) == 1 and None not in ts:
                    self.vars[name] = next(iter(ts))
                    changed = True

    # -- methods and properties of the record class
    def inline_members(self, fl: Flattener, stack: tuple) -> bool:
        """one round: calls `X.m(..)` / property reads `X.p` of record locals, evaluated unconditionally at statement level"""
        done = [False]
        me = self

        class Bound(ast.NodeTransformer):
            """`Rec.method(x, a)` where x is a record local of exactly that class is `x.method(a)`"""

            def visit_Lambda(self, n):
                return n

            def visit_Call(self, n):
                self.generic_visit(n)
                ub = me._unbound(n)
                if ub is not None and isinstance(n.args[0], ast.Name) and me.vars.get(n.args[0].id) == ub[0]:
                    done[0] = True
                    return _located(ast.Call(func=ast.Attribute(value=n.args[0], attr=n.func.attr, ctx=ast.Load()), args=list(n.args[1:]), keywords=list(n.keywords)), n)
                return n

        Bound().visit(self.fn)
        if done[0]:
            return True

        def member(e: ast.AST) -> Optional[Tuple[FuncInfo, ast.Call]]:
            if isinstance(e, ast.Call) and isinstance(e.func, ast.Attribute) and isinstance(e.func.value, ast.Name) and e.func.value.id in self.vars:
                cname = self.vars[e.func.value.id]
                if e.func.attr in record_fields(self.repo, cname) or any(isinstance(a, ast.Starred) for a in e.args) or any(k.arg is None for k in e.keywords):
                    return None
                m = self.repo.find_method(cname, e.func.attr)
                if m is not None and m.is_method and not m.node.decorator_list and m.qn not in stack:
                    return m, e
            if isinstance(e, ast.Attribute) and isinstance(e.ctx, ast.Load) and isinstance(e.value, ast.Name) and e.value.id in self.vars:
                cname = self.vars[e.value.id]
                m = self.repo.find_method(cname, e.attr)
                if m is not None and self.repo.is_property(cname, e.attr) and len(m.node.decorator_list) == 1 and m.qn not in stack:
                    return m, _located(ast.Call(func=e, args=[], keywords=[]), e)
            return None

        def pure(m: FuncInfo, call: ast.Call) -> Optional[ast.AST]:
            """the member is a single `return <expression>`: the expression, with the parameters replaced by the (simple) arguments"""
            body = [x for x in m.node.body if not (isinstance(x, ast.Expr) and isinstance(x.value, ast.Constant) and isinstance(x.value.value, str))]
            if len(body) != 1 or not isinstance(body[0], ast.Return) or body[0].value is None:
                return None
            if any(isinstance(x, (ast.NamedExpr, ast.Lambda, ast.Yield, ast.YieldFrom, ast.Await)) for x in ast.walk(body[0].value)):
                return None
            bound = bind_args(call, m)
            mapping: Dict[str, ast.AST] = {m.params[0]: call.func.value}
            for pn in m.params[1:]:
                v = bound.get(pn, m.defaults.get(pn))
                if v is None or not isinstance(v, (ast.Name, ast.Constant)):
                    return None
                mapping[pn] = v
            comp_vars = {x.id for x in ast.walk(body[0].value) if isinstance(x, ast.Name) and isinstance(x.ctx, ast.Store)}
            if comp_vars & set(mapping):
                return None
            return _located(_Subst(mapping).visit(copy.deepcopy(body[0].value)), call)

        class Pure(ast.NodeTransformer):
            def visit_Lambda(self, n):
                return n

            def visit_Call(self, n):
                self.generic_visit(n)
                hit = member(n)
                r = pure(hit[0], hit[1]) if hit is not None else None
                if r is not None:
                    done[0] = True
                    return r
                return n

            def visit_Attribute(self, n):
                self.generic_visit(n)
                hit = member(n) if not getattr(n, "_is_func", False) else None
                r = pure(hit[0], hit[1]) if hit is not None else None
                if r is not None:
                    done[0] = True
                    return r
                return n

        for n in ast.walk(self.fn):
            if isinstance(n, ast.Call) and isinstance(n.func, ast.Attribute):
                n.func._is_func = True
        Pure().visit(self.fn)
        if done[0]:
            return True

        def in_expr(e: ast.AST, pre: List[ast.stmt]) -> ast.AST:
            if isinstance(e, (ast.Lambda, ast.ListComp, ast.SetComp, ast.DictComp, ast.GeneratorExp, ast.IfExp)):
                return e
            if isinstance(e, ast.BoolOp):
                e.values[0] = in_expr(e.values[0], pre)
                return e
            if isinstance(e, ast.Call) and isinstance(e.func, ast.Attribute) and member(e) is not None:
                e.args = [in_expr(a, pre) for a in e.args]
            else:
                for fld, val in ast.iter_fields(e):
                    if isinstance(val, ast.AST):
                        setattr(e, fld, in_expr(val, pre))
                    elif isinstance(val, list):
                        setattr(e, fld, [in_expr(v, pre) if isinstance(v, ast.AST) else v for v in val])
            hit = member(e)
            if hit is not None:
                m, call = hit
                try:
                    stmts, result = fl._instantiate(m, call, call.func.value, stack, 1)
                except Exception:
                    return e
                pre.extend(stmts)
                done[0] = True
                return result
            return e

        def stmt(st: ast.stmt) -> List[ast.stmt]:
            fields = {ast.If: ["test"], ast.For: ["iter"], ast.Return: ["value"], ast.Expr: ["value"], ast.Assign: ["value"], ast.AnnAssign: ["value"],
                      ast.AugAssign: ["value"], ast.Assert: ["test"]}.get(type(st))
            if not fields:
                return [st]
            pre: List[ast.stmt] = []
            for fld in fields:
                v = getattr(st, fld)
                if v is not None:
                    setattr(st, fld, in_expr(v, pre))
            if isinstance(st, ast.Expr) and isinstance(st.value, (ast.Constant, ast.Name)) and pre:
                return pre
            return pre + [st]

        _rewrite_blocks(self.fn, stmt)
        return done[0]

    # -- scalar replacement
    def field_var(self, name: str, field: str) -> str:
        return f"{self.alias.get(name, name)}__f_{field}"

    def _ctor_fields(self, call: ast.Call, cname: str, pre: List[ast.stmt]) -> Optional[List[ast.AST]]:
        fields = record_fields(self.repo, cname)
        pos: List[ast.AST] = []
        for a in call.args:
            if not isinstance(a, ast.Starred):
                pos.append(a)
                continue
            v = a.value
            n = None
            if isinstance(v, ast.Name) and v.id in self.vars:
                self._deps.add(v.id)
                pos.extend(ast.Name(id=self.field_var(v.id, f), ctx=ast.Load()) for f in record_fields(self.repo, self.vars[v.id]))
                continue
            if isinstance(v, (ast.GeneratorExp, ast.ListComp)) and len(v.generators) == 1 and not v.generators[0].ifs and not v.generators[0].is_async:
                # Rec(*(E for a, b in zip(X, Y))) with record locals X, Y: one element per field
                gen = v.generators[0]
                zipped = isinstance(gen.iter, ast.Call) and isinstance(gen.iter.func, ast.Name) and gen.iter.func.id == "zip" and "zip" not in self.locals \
                    and bool(gen.iter.args) and not gen.iter.keywords
                srcs = list(gen.iter.args) if zipped else [gen.iter]
                if not all(isinstance(x, ast.Name) and x.id in self.vars for x in srcs):
                    return None
                tn = C.target_names(gen.target)
                if any(isinstance(x, ast.Name) and x.id in tn and not isinstance(x.ctx, ast.Load) for x in ast.walk(v.elt)):
                    return None
                cols = [[ast.Name(id=self.field_var(x.id, f), ctx=ast.Load()) for f in record_fields(self.repo, self.vars[x.id])] for x in srcs]
                for x in srcs:
                    self._deps.add(x.id)
                for i in range(min(len(c_) for c_ in cols)):
                    row: ast.AST = ast.Tuple(elts=[c_[i] for c_ in cols], ctx=ast.Load()) if zipped else cols[0][i]
                    env: Dict[str, ast.AST] = {}
                    if not Verdict.bind(gen.target, row, env):
                        return None
                    pos.append(_Subst(env).visit(copy.deepcopy(v.elt)))
                continue
            src = self.single.get(v.id) if isinstance(v, ast.Name) else v
            if isinstance(src, (ast.Tuple, ast.List)) and not any(isinstance(x, ast.Starred) for x in src.elts):
                n = len(src.elts)
            elif isinstance(src, ast.Call):
                rt = self.rec_type(src)
                if rt is not None:
                    n = len(record_fields(self.repo, rt))
                else:
                    comps = self.extractors.get(callee_name(src))
                    if comps and None not in comps and all(isinstance(k, int) for k in comps):
                        n = max(comps) + 1
                    else:
                        n = _tuple_arity(self.repo, self.ctx, src)
            if n is None:
                return None
            if not isinstance(v, ast.Name):
                tmp = f"__sra_t{next(_nf_counter)}"
                pre.append(_located(ast.Assign(targets=[ast.Name(id=tmp, ctx=ast.Store())], value=v, lineno=call.lineno), call))
                v = ast.Name(id=tmp, ctx=ast.Load())
            pos.extend(ast.Subscript(value=ast.Name(id=v.id, ctx=ast.Load()), slice=ast.Constant(value=i), ctx=ast.Load()) for i in range(n))
        if len(pos) > len(fields):
            return None
        out: Dict[str, ast.AST] = dict(zip(fields, pos))
        for k in call.keywords:
            if k.arg is None or k.arg not in fields or k.arg in out:
                return None
            out[k.arg] = k.value
        dflt = _record_defaults(self.repo, cname)
        for f in fields:
            if f not in out:
                if f not in dflt or not isinstance(dflt[f], ast.Constant):
                    return None
                out[f] = copy.deepcopy(dflt[f])
        return [out[f] for f in fields]

    def scalarise(self) -> bool:
        """rewrite the function; returns whether anything was changed"""
        if not any(record_fields(self.repo, c) for c in self.repo.classes):
            return False
        self.single = _single_defs(self.fn)
        # `return Rec(..)` / `f(Rec(..))`-free normal form: a constructed record that is returned gets a name first
        def name_returns(st: ast.stmt) -> List[ast.stmt]:
            if isinstance(st, ast.Return) and st.value is not None and self.ctor(st.value):
                tmp = f"__sra_r{next(_nf_counter)}"
                a = _located(ast.Assign(targets=[ast.Name(id=tmp, ctx=ast.Store())], value=st.value, lineno=st.lineno), st)
                st.value = _located(ast.Name(id=tmp, ctx=ast.Load()), st)
                return [a, st]
            return [st]
        _rewrite_blocks(self.fn, name_returns)
        self.vars = {}
        self._discover()
        self.single = _single_defs(self.fn)
        self.alias: Dict[str, str] = {}
        if not self.vars:
            self._typed_reads()
            self._note_leftovers()
            ast.fix_missing_locations(self.fn)
            return True
        # a record local that is a plain copy of another record local (parameter bindings of inlined helpers) is that local
        for name in self.vars:
            cur, n = name, 0
            while n < 10 and self.counts.get(cur) == 1 and isinstance(self.single.get(cur), ast.Name) and self.single[cur].id in self.vars \
                    and self.counts.get(self.single[cur].id) == 1:
                cur = self.single[cur].id
                n += 1
            if cur != name:
                self.alias[name] = cur
        me = self

        class Uses(ast.NodeTransformer):
            def visit_FunctionDef(self, n):
                if n is me.fn:
                    self.generic_visit(n)
                return n

            visit_Lambda = visit_ClassDef = lambda self, n: n

            def visit_Attribute(self, n):
                if isinstance(n.value, ast.Name) and n.value.id in me.vars and isinstance(n.ctx, (ast.Load, ast.Store)):
                    if n.attr in record_fields(me.repo, me.vars[n.value.id]):
                        return ast.copy_location(ast.Name(id=me.field_var(n.value.id, n.attr), ctx=n.ctx), n)
                    me.failed.append(f"{me.vars[n.value.id]}.{n.attr}")
                    return n
                if isinstance(n.value, ast.Call) and isinstance(n.ctx, ast.Load):
                    rt = me.rec_type(n.value)
                    if rt is not None and me.ctor(n.value) is None and n.attr in record_fields(me.repo, rt):
                        self.generic_visit(n.value)
                        return _located(ast.Subscript(value=n.value, slice=ast.Constant(value=record_fields(me.repo, rt).index(n.attr)), ctx=ast.Load()), n)
                self.generic_visit(n)
                return n

            def visit_Subscript(self, n):
                if isinstance(n.value, ast.Name) and n.value.id in me.vars and isinstance(n.ctx, ast.Load) and isinstance(n.slice, ast.Constant) \
                        and isinstance(n.slice.value, int) and not isinstance(n.slice.value, bool):
                    fields = record_fields(me.repo, me.vars[n.value.id])
                    if -len(fields) <= n.slice.value < len(fields):
                        return ast.copy_location(ast.Name(id=me.field_var(n.value.id, fields[n.slice.value]), ctx=ast.Load()), n)
                self.generic_visit(n)
                return n

            def visit_Name(self, n):
                if isinstance(n.ctx, ast.Load) and n.id in me.vars:
                    t = ast.Tuple(elts=[ast.Name(id=me.field_var(n.id, f), ctx=ast.Load()) for f in record_fields(me.repo, me.vars[n.id])], ctx=ast.Load())
                    t._sra = True
                    return _located(t, n)
                return n

        plans: Dict[int, List[ast.stmt]] = {}
        deps: Dict[str, Set[str]] = {name: set() for name in self.vars}
        bad: Set[str] = set()

        def simple_def(st: ast.stmt):
            if isinstance(st, ast.Assign) and len(st.targets) == 1 and isinstance(st.targets[0], ast.Name):
                return st.targets[0].id, st.value
            if isinstance(st, ast.AnnAssign) and isinstance(st.target, ast.Name) and st.value is not None:
                return st.target.id, st.value
            return None, None

        for st in list(_walk_scope(self.fn)):
            tgt, val = simple_def(st) if isinstance(st, ast.stmt) else (None, None)
            if tgt is None or tgt not in self.vars:
                continue
            cname = self.vars[tgt]
            fields = record_fields(self.repo, cname)
            pre: List[ast.stmt] = []
            vals: Optional[List[ast.AST]]
            if tgt in self.alias:
                deps[tgt].add(self.alias[tgt])
                plans[id(st)] = []
                continue
            if _is_none(val):
                vals = [ast.Constant(value=None) for _f in fields]
            elif isinstance(val, ast.Name):
                deps[tgt].add(val.id)
                vals = [ast.Name(id=self.field_var(val.id, f), ctx=ast.Load()) for f in fields]
            elif self.ctor(val):
                self._deps = deps[tgt]
                vals = self._ctor_fields(val, cname, pre)
                if vals is None:
                    self.failed.append(cname)
                    bad.add(tgt)
                    continue
            else:
                tmp = f"__sra_t{next(_nf_counter)}"
                pre.append(_located(ast.Assign(targets=[ast.Name(id=tmp, ctx=ast.Store())], value=val, lineno=st.lineno), st))
                vals = [ast.Subscript(value=ast.Name(id=tmp, ctx=ast.Load()), slice=ast.Constant(value=i), ctx=ast.Load()) for i in range(len(fields))]
            root_ = self.alias.get(tgt, tgt)
            own = any(isinstance(x, ast.Name) and ((x.id in self.vars and self.alias.get(x.id, x.id) == root_) or x.id.startswith(root_ + "__f_"))
                      for v in vals for x in ast.walk(v))
            if own and len(fields) > 1:
                # the new record is computed from the old value of the same local: all fields are read before any is written
                k = next(_nf_counter)
                tmps = [f"{self.field_var(tgt, f)}__n{k}" for f in fields]
                plans[id(st)] = pre + [_located(ast.Assign(targets=[ast.Name(id=t_, ctx=ast.Store())], value=v, lineno=st.lineno), st) for t_, v in zip(tmps, vals)] \
                    + [_located(ast.Assign(targets=[ast.Name(id=self.field_var(tgt, f), ctx=ast.Store())], value=ast.Name(id=t_, ctx=ast.Load()), lineno=st.lineno), st)
                       for f, t_ in zip(fields, tmps)]
            else:
                plans[id(st)] = pre + [_located(ast.Assign(targets=[ast.Name(id=self.field_var(tgt, f), ctx=ast.Store())], value=v, lineno=st.lineno), st)
                                       for f, v in zip(fields, vals)]
        # a field that is assigned (`X.f = v`, mutable dataclass): the per-field locals of two record locals that may be the same
        # object would drift apart, so such a class is only split when none of its locals is a field-by-field copy of another
        assigned = {self.vars[n.value.id] for n in _walk_scope(self.fn) if isinstance(n, ast.Attribute) and not isinstance(n.ctx, ast.Load)
                    and isinstance(n.value, ast.Name) and n.value.id in self.vars}
        for name, cname in self.vars.items():
            if cname in assigned and name not in self.alias and any(isinstance(v, ast.Name) for v in self.defs.get(name, []) if v is not None):
                self.failed.append(cname)
                bad.update(x for x, c in self.vars.items() if c == cname)
        # keep it sound: a record that could not be split stays whole everywhere, and so does every record computed from it
        grew = True
        while grew:
            grew = False
            for name, ds in deps.items():
                if name not in bad and ds & bad:
                    bad.add(name)
                    grew = True
        for name in bad:
            self.vars.pop(name, None)

        def define(st: ast.stmt) -> List[ast.stmt]:
            tgt, _val = simple_def(st)
            if tgt is None or tgt not in self.vars or id(st) not in plans:
                return [st]
            return plans[id(st)]

        _rewrite_blocks(self.fn, define)
        Uses().visit(self.fn)
        self._typed_reads()
        _rewrite_blocks(self.fn, self._unroll)
        self._tables()
        self._note_leftovers()
        ast.fix_missing_locations(self.fn)
        return True

    def _typed_reads(self) -> None:
        """`e.field` where e is any expression the (annotation driven) type environment knows to be a record, e.g. an element of a
        parameter declared List[Rec]: a record is a tuple, the field is its position; a record that is constructed on the spot
        without being bound (`xs.append(Rec(a, b))`) is the tuple of its arguments"""
        try:
            te = self.repo.types(FuncInfo(self.ctx.mod, self.ctx.cls, self.fn, static=self.ctx.static))
        except Exception:
            te = None
        me = self

        class T(ast.NodeTransformer):
            def visit_FunctionDef(self, n):
                if n is me.fn:
                    self.generic_visit(n)
                return n

            visit_Lambda = visit_ClassDef = lambda self, n: n

            def visit_Attribute(self, n):
                self.generic_visit(n)
                if not isinstance(n.ctx, ast.Load) or te is None:
                    return n
                try:
                    t = te.typeof(n.value)
                except Exception:
                    t = None
                if t and t[0] == "cls":
                    fields = record_fields(me.repo, t[1])
                    if fields and n.attr in fields and any(b.split(".")[-1] == "NamedTuple" for b in me.repo.classes[t[1]].bases):
                        return _located(ast.Subscript(value=n.value, slice=ast.Constant(value=fields.index(n.attr)), ctx=ast.Load()), n)
                return n

            def visit_Call(self, n):
                self.generic_visit(n)
                c = me.ctor(n)
                if c is not None:
                    pre: List[ast.stmt] = []
                    me._deps = set()
                    vals = me._ctor_fields(n, c, pre)
                    if vals is not None and not pre:
                        return _located(ast.Tuple(elts=vals, ctx=ast.Load()), n)
                return n

        T().visit(self.fn)

    def _note_leftovers(self) -> None:
        for n in _walk_scope(self.fn):
            c = self.ctor(n)
            if c is not None:
                self.failed.append(c)

    @staticmethod
    def _rows(it: ast.AST) -> Optional[List[ast.AST]]:
        """rows of an iterable made of field tuples: the tuple itself, or zip(..) of such tuples"""
        if isinstance(it, ast.Tuple) and getattr(it, "_sra", False):
            return list(it.elts)
        if isinstance(it, ast.Call) and isinstance(it.func, ast.Name) and it.func.id == "zip" and it.args and not it.keywords \
                and all(isinstance(a, ast.Tuple) and getattr(a, "_sra", False) for a in it.args):
            n = min(len(a.elts) for a in it.args)
            return [ast.Tuple(elts=[a.elts[i] for a in it.args], ctx=ast.Load()) for i in range(n)]
        return None

    def _call_arity(self, e: ast.AST) -> Optional[int]:
        """number of components of the record / tuple a private helper call returns"""
        if not isinstance(e, ast.Call) or any(isinstance(a, ast.Starred) for a in e.args):
            return None
        try:
            rt = self.rec_type(e)
        except Exception:
            rt = None
        if rt is not None:
            return len(record_fields(self.repo, rt))
        comps = self.extractors.get(callee_name(e))
        if comps and None not in comps and all(isinstance(k, int) for k in comps):
            return max(comps) + 1
        try:
            return _tuple_arity(self.repo, self.ctx, e)
        except Exception:
            return None

    def _zip_with_calls(self, it: ast.AST, pre: List[ast.stmt], at: ast.stmt) -> Optional[List[ast.AST]]:
        """zip(<field tuple>, self._helper(x)) where the helper returns a record / tuple of known size: the call is evaluated once
        (as zip does), its components are read by position"""
        if not (isinstance(it, ast.Call) and isinstance(it.func, ast.Name) and it.func.id == "zip" and it.args and not it.keywords):
            return None
        if not any(isinstance(a, ast.Tuple) and getattr(a, "_sra", False) for a in it.args):
            return None
        cols: List[List[ast.AST]] = []
        mine: List[ast.stmt] = []
        for a in it.args:
            if isinstance(a, ast.Tuple) and getattr(a, "_sra", False):
                cols.append(list(a.elts))
                continue
            n = self._call_arity(a)
            if n is None:
                return None
            tmp = f"__sra_z{next(_nf_counter)}"
            mine.append(_located(ast.Assign(targets=[ast.Name(id=tmp, ctx=ast.Store())], value=a, lineno=at.lineno), at))
            cols.append([ast.Subscript(value=ast.Name(id=tmp, ctx=ast.Load()), slice=ast.Constant(value=i), ctx=ast.Load()) for i in range(n)])
        pre.extend(mine)
        n = min(len(c_) for c_ in cols)
        return [ast.Tuple(elts=[c_[i] for c_ in cols], ctx=ast.Load()) for i in range(n)]

    def _unroll(self, st: ast.stmt) -> List[ast.stmt]:
        if not isinstance(st, ast.For) or st.orelse:
            return [st]
        if any(isinstance(x, (ast.Break, ast.Continue)) for s in st.body for x in _walk_scope(s)):
            return [st]
        zpre: List[ast.stmt] = []
        rows = self._rows(st.iter)
        if rows is None:
            rows = self._zip_with_calls(st.iter, zpre, st)
        if rows is None:
            return [st]
        if zpre:
            tn = C.target_names(st.target)
            stored_ = {x.id for s in st.body for x in ast.walk(s) if isinstance(x, ast.Name) and isinstance(x.ctx, (ast.Store, ast.Del))}
            out_: List[ast.stmt] = list(zpre)
            for row in rows:
                env_: Dict[str, ast.AST] = {}
                body_ = copy.deepcopy(st.body)
                if not (tn & stored_) and Verdict.bind(st.target, row, env_):
                    body_ = [_Subst(env_).visit(s) for s in body_]      # names and `tmp[i]` reads: pure
                else:
                    out_.append(_located(ast.Assign(targets=[copy.deepcopy(st.target)], value=copy.deepcopy(row), lineno=st.lineno), st))
                out_.extend(body_)
            return out_
        if any(isinstance(x, (ast.Break, ast.Continue)) for s in st.body for x in _walk_scope(s)):
            return [st]
        tnames = C.target_names(st.target)
        stored = {x.id for s in st.body for x in ast.walk(s) if isinstance(x, ast.Name) and isinstance(x.ctx, (ast.Store, ast.Del))}
        out: List[ast.stmt] = []
        for row in rows:
            env: Dict[str, ast.AST] = {}
            body = copy.deepcopy(st.body)
            if not (tnames & stored) and Verdict.bind(st.target, row, env) and all(isinstance(v, ast.Name) for v in env.values()):
                body = [_Subst(env).visit(s) for s in body]
            else:
                out.append(_located(ast.Assign(targets=[copy.deepcopy(st.target)], value=copy.deepcopy(row), lineno=st.lineno), st))
            out.extend(body)
        return out

    def _tables(self) -> None:
        """`.. for a, b in zip(X, Y)` inside comprehensions: the iterable becomes the literal tuple of rows"""
        for n in _walk_scope(self.fn):
            if isinstance(n, (ast.ListComp, ast.SetComp, ast.GeneratorExp, ast.DictComp)):
                for gen in n.generators:
                    if isinstance(gen.iter, ast.Call):
                        rows = self._rows(gen.iter)
                        if rows is not None:
                            gen.iter = _located(ast.Tuple(elts=rows, ctx=ast.Load()), gen.iter)


class _ConstDicts:
    """a local dict that is only ever used with constant keys (`acc = {'add': set(), ..}; acc['add'].update(..); acc['add'] & ..`,
    or `{True: a, False: b}[flag]`) is a bundle of locals: one local per key.  Candidates: a single definition (dict literal,
    dict(k=v, ..), dict(zip(<constant keys>, <value>))) plus stores `d['k'] = v`; every other use is a subscript with a constant
    key or (for the keys True / False) with a boolean-valued index.  Plain copies (parameter bindings of inlined helpers) count
    as the same dict."""

    def __init__(self, fn: ast.AST):
        self.fn = fn

    @staticmethod
    def _keys_values(v: ast.AST):
        """(keys, value expressions or None when taken by position from one expression, that expression)"""
        if isinstance(v, ast.Dict) and all(isinstance(k, ast.Constant) for k in v.keys) and len({(type(k.value), k.value) for k in v.keys}) == len(v.keys):
            return [k.value for k in v.keys], list(v.values), None
        if isinstance(v, ast.Call) and isinstance(v.func, ast.Name) and v.func.id == "dict":
            if not v.args and v.keywords and all(k.arg is not None for k in v.keywords):
                return [k.arg for k in v.keywords], [k.value for k in v.keywords], None
            if len(v.args) == 1 and not v.keywords and isinstance(v.args[0], ast.Call) and isinstance(v.args[0].func, ast.Name) and v.args[0].func.id == "zip" \
                    and len(v.args[0].args) == 2 and not v.args[0].keywords:
                ks, vs = v.args[0].args
                if isinstance(ks, (ast.Tuple, ast.List)) and all(isinstance(k, ast.Constant) for k in ks.elts) and len({k.value for k in ks.elts}) == len(ks.elts):
                    if isinstance(vs, (ast.Tuple, ast.List)) and len(vs.elts) == len(ks.elts) and not any(isinstance(x, ast.Starred) for x in vs.elts):
                        return [k.value for k in ks.elts], list(vs.elts), None
                    if isinstance(vs, (ast.Call, ast.Name)):
                        return [k.value for k in ks.elts], None, vs
        return None

    @staticmethod
    def var(name: str, key) -> str:
        return f"{name}__k_" + re.sub(r"\W", "_", repr(key))

    def run(self) -> bool:
        fn = self.fn
        cnt = _store_counts(fn)
        single = _single_defs(fn)
        cands: Dict[str, list] = {}
        for name, v in single.items():
            kv = self._keys_values(v)
            if kv is not None:
                cands[name] = list(kv[0])
        if not cands:
            return False
        alias: Dict[str, str] = {}
        for name, v in single.items():
            cur, n = v, 0
            while isinstance(cur, ast.Name) and cur.id in single and cur.id not in cands and n < 10:
                cur, n = single[cur.id], n + 1
            if isinstance(cur, ast.Name) and cur.id in cands and name not in cands:
                alias[name] = cur.id
        root = lambda nm: nm if nm in cands else alias.get(nm)
        parents = {}
        for n in ast.walk(fn):
            for ch in ast.iter_child_nodes(n):
                parents[ch] = n
        # keys added by stores; every use must be a constant-key (or boolean) subscript
        bad: Set[str] = set()
        for n in ast.walk(fn):
            if not (isinstance(n, ast.Name) and root(n.id) is not None):
                continue
            r = root(n.id)
            par = parents.get(n)
            if isinstance(n.ctx, ast.Store):
                continue        # the (single) definition of the dict or of an alias
            if isinstance(par, ast.Subscript) and par.value is n:
                if isinstance(par.slice, ast.Constant) and not isinstance(par.ctx, ast.Del):
                    k = par.slice.value
                    if isinstance(par.ctx, ast.Store):
                        if not any(k == x and type(k) is type(x) for x in cands[r]):
                            cands[r].append(k)
                    continue
                if isinstance(par.ctx, ast.Load) and _boolean_valued(par.slice):
                    continue
            if isinstance(par, (ast.Assign, ast.AnnAssign)) and getattr(par, "value", None) is n and alias.get(_target_name(par)) == r:
                continue        # the copy that defines an alias
            bad.add(r)
        for n in ast.walk(fn):
            if isinstance(n, ast.Subscript) and isinstance(n.value, ast.Name) and root(n.value.id) is not None and root(n.value.id) not in bad:
                r = root(n.value.id)
                if isinstance(n.slice, ast.Constant):
                    if isinstance(n.ctx, ast.Load) and not any(n.slice.value == x and type(n.slice.value) is type(x) for x in cands[r]):
                        bad.add(r)
                elif not ({True, False} == set(cands[r]) and all(isinstance(x, bool) for x in cands[r])):
                    bad.add(r)
        good = {r for r in cands if r not in bad}
        if not good:
            return False
        me = self

        def define(st: ast.stmt) -> List[ast.stmt]:
            tgt = _target_name(st)
            if tgt is None:
                return [st]
            if alias.get(tgt) in good and cnt.get(tgt) == 1:
                return []
            if tgt not in good:
                return [st]
            keys, vals, src = me._keys_values(st.value)
            pre: List[ast.stmt] = []
            if vals is None:
                if not isinstance(src, ast.Name):
                    tmp = f"__cd_t{next(_nf_counter)}"
                    pre.append(_located(ast.Assign(targets=[ast.Name(id=tmp, ctx=ast.Store())], value=src, lineno=st.lineno), st))
                    src = ast.Name(id=tmp, ctx=ast.Load())
                vals = [ast.Subscript(value=ast.Name(id=src.id, ctx=ast.Load()), slice=ast.Constant(value=i), ctx=ast.Load()) for i in range(len(keys))]
            return pre + [_located(ast.Assign(targets=[ast.Name(id=me.var(tgt, k), ctx=ast.Store())], value=v, lineno=st.lineno), st) for k, v in zip(keys, vals)]

        _rewrite_blocks(fn, define)

        class Uses(ast.NodeTransformer):
            def visit_Subscript(self, n):
                self.generic_visit(n)
                if isinstance(n.value, ast.Name) and root(n.value.id) in good:
                    r = root(n.value.id)
                    if isinstance(n.slice, ast.Constant):
                        return ast.copy_location(ast.Name(id=me.var(r, n.slice.value), ctx=n.ctx), n)
                    return _located(ast.IfExp(test=n.slice, body=ast.Name(id=me.var(r, True), ctx=ast.Load()), orelse=ast.Name(id=me.var(r, False), ctx=ast.Load())), n)
                return n

        Uses().visit(fn)
        ast.fix_missing_locations(fn)
        return True


def _target_name(st: ast.AST) -> Optional[str]:
    if isinstance(st, ast.Assign) and len(st.targets) == 1 and isinstance(st.targets[0], ast.Name):
        return st.targets[0].id
    if isinstance(st, ast.AnnAssign) and isinstance(st.target, ast.Name) and st.value is not None:
        return st.target.id
    return None


def _is_none(e: Optional[ast.AST]) -> bool:
    return isinstance(e, ast.Constant) and e.value is None


def _tuple_arity(repo: Repo, ctx: FuncInfo, call: ast.Call) -> Optional[int]:
    """number of components of the tuple a private helper returns (every return is a tuple literal of that length)"""
    if not is_private(callee_name(call)):
        return None
    t = unique_target(repo, ctx, call)
    if t is None:
        return None
    rets = [n for n in _walk_scope(t.node) if isinstance(n, ast.Return)]
    ns = {len(r.value.elts) if isinstance(r.value, ast.Tuple) and not any(isinstance(x, ast.Starred) for x in r.value.elts) else None for r in rets}
    return next(iter(ns)) if len(ns) == 1 and None not in ns else None


def _rewrite_blocks(node: ast.AST, fn) -> None:
    """apply fn(statement) -> statements to every statement below node (innermost blocks first; nested definitions are not entered)"""
    def block(stmts: List[ast.stmt]) -> List[ast.stmt]:
        out: List[ast.stmt] = []
        for s in stmts:
            if not isinstance(s, _SCOPES):
                _rewrite_blocks(s, fn)
                out.extend(fn(s))
            else:
                out.append(s)
        return out
    for fld in ("body", "orelse", "finalbody"):
        sub = getattr(node, fld, None)
        if isinstance(sub, list) and sub and isinstance(sub[0], ast.stmt):
            setattr(node, fld, block(sub) or [ast.copy_location(ast.Pass(), sub[0])])
    if isinstance(node, ast.Try):
        for h in node.handlers:
            h.body = block(h.body) or [ast.copy_location(ast.Pass(), h)]
    if isinstance(node, ast.Match):
        for c in node.cases:
            c.body = block(c.body) or [ast.Pass()]


_pol_counter = itertools.count(1)
_flat_cache: Dict[tuple, FuncInfo] = {}


def _expand_generators_keeping(repo: Repo, cur: FuncInfo, fn: ast.AST, stack: tuple, keep: tuple) -> bool:
    """the engine's generator-helper expansion, except that the callees in `keep` stay calls inside the generator's body too (the
    engine flattens the generator on its own, without the caller's exclusions).  Done by handing the engine's expansion a flattening
    function for the duration of this call only; with an engine that does not look the function up that way nothing changes."""
    if not keep:
        return expand_generators(repo, cur, fn, stack)
    from .. import inline as I
    orig = getattr(I, "flatten", None)
    if orig is None:
        return expand_generators(repo, cur, fn, stack)

    def flatten_keeping(repo_, callee, *a, **k):
        if a or k or repo_ is not repo:
            return orig(repo_, callee, *a, **k)
        fl = Flattener(repo, callee)
        node = copy.deepcopy(callee.node)
        body = list(node.body)
        try:
            body = I.normalise_body(body, repo, callee)
        except Exception:
            pass
        try:
            body = _loops_over_generators(repo, callee, body)
        except Exception:
            pass
        node.body = fl._flatten_block(body, callee, (callee.qn,) + tuple(keep), 1)
        ast.fix_missing_locations(node)
        out = FuncInfo(callee.mod, callee.cls, node, static=callee.static)
        out.qn = callee.qn
        return out

    I.flatten = flatten_keeping
    try:
        return expand_generators(repo, cur, fn, stack)
    finally:
        I.flatten = orig


def flatten_full(repo: Repo, f: FuncInfo, exclude: Iterable[str] = ()) -> FuncInfo:
    exclude = tuple(exclude)
    key = (id(repo), f.qn, id(f.node), tuple(sorted(exclude)))
    if key in _flat_cache:
        return _flat_cache[key]
    cur = f
    inlined: List[str] = []
    stack = (f.qn,) + tuple(exclude)

    def info(fn: ast.AST) -> FuncInfo:
        nxt = FuncInfo(f.mod, f.cls, fn, static=f.static)
        nxt.qn = f.qn
        return nxt

    for _ in range(8):
        fl = Flattener(repo, cur)
        fn = copy.deepcopy(cur.node)
        _normalise_whiles(fl, fn, cur)
        fun = _Functional(repo, f, fn)
        fun.visit(fn)
        hoisted = _hoist_nested_comprehensions(fn)
        hoisted = _split_boolops(fn) or hoisted
        hoisted = _unroll_local_tables(fn) or hoisted
        try:
            body = _loops_over_generators(repo, cur, list(fn.body))
        except Exception:
            body = list(fn.body)
        fn.body = fl._flatten_block(body, cur, stack, 1)
        try:
            gen = _expand_generators_keeping(repo, cur, fn, stack, tuple(exclude))
        except Exception:
            gen = False
        members = _Records(repo, cur, fn).inline_members(fl, stack)
        if fl.inlined or gen:
            specialise(fn)
        _expand_polarity_constructs(fl, fn)
        fn = _FoldIntConstants(repo, f, fn).visit(fn)
        ast.fix_missing_locations(fn)
        inlined.extend(fl.inlined)
        cur = info(fn)
        if not (fl.inlined or gen or members or fun.changed or hoisted):
            break
    # record-valued locals -> one local per field (last: every helper that handles whole records is in place by now)
    fn = copy.deepcopy(cur.node)
    rec = _Records(repo, cur, fn)
    split = rec.scalarise()
    if _ConstDicts(fn).run():
        split = True
        _expand_polarity_constructs(Flattener(repo, cur), fn)
    if split:
        ast.fix_missing_locations(fn)
        cur = info(fn)
    cur.unsplit_records = sorted(set(rec.failed))
    cur.flat_of = f
    cur.inlined = list(dict.fromkeys(inlined))
    _flat_cache[key] = cur
    return cur


# --------------------------------------------------------------------------------------------------------------- object identity
def origins(p: P.Prov, e: ast.AST, at: Optional[int] = None, _seen: frozenset = frozenset()) -> List[ast.AST]:
    """the expressions (or binding statements / ast.arg of a parameter) that created the value of `e`"""
    if isinstance(e, ast.NamedExpr):
        return origins(p, e.value, at, _seen)
    if not (isinstance(e, ast.Name) and isinstance(e.ctx, ast.Load)):
        return [e]
    try:
        if p._comp_binding(e) is not None:
            return [e]
        if at is None:
            at = p.node_of(e)
    except KeyError:
        return [e]
    out: List[ast.AST] = []
    for d in sorted(p.rd.defs_reaching(at, e.id)):
        if (e.id, d) in _seen:
            continue
        s2 = _seen | {(e.id, d)}
        if d == p.g.entry:
            a = p.f.node.args
            arg = next((x for x in a.posonlyargs + a.args + a.kwonlyargs if x.arg == e.id), None)
            out.append(arg if arg is not None else e)
            continue
        st = p.g.stmt[d]
        if isinstance(st, ast.Assign):
            for t in st.targets:
                if e.id in C.target_names(t):
                    paired = p._paired(t, st.value, e.id)
                    if paired is not None:
                        out.extend(origins(p, paired, d, s2))
                    elif isinstance(st.value, ast.Name):
                        # unpacked from a local (e.g. the tuple returned by an inlined helper): take the component by position
                        # when the local holds a tuple literal of the same shape
                        for o in origins(p, st.value, d, s2):
                            comp = p._paired(t, o, e.id) if isinstance(o, (ast.Tuple, ast.List)) else None
                            if comp is not None:
                                try:
                                    out.extend(origins(p, comp, p.node_of(comp), s2))
                                except KeyError:
                                    out.append(comp)
                            else:
                                out.append(o)
                    else:
                        out.append(st.value)
        elif isinstance(st, ast.AnnAssign) and st.value is not None:
            out.extend(origins(p, st.value, d, s2))
        elif isinstance(st, ast.AugAssign):
            out.extend(origins(p, ast.copy_location(ast.Name(id=e.id, ctx=ast.Load()), st), d, s2))
            out.append(st)
        else:
            h = C.header(st)
            ne = [n for n in ast.walk(h) if isinstance(n, ast.NamedExpr) and e.id in C.target_names(n.target)] if h is not None else []
            if ne:
                for n in ne:
                    out.extend(origins(p, n.value, d, s2))
            else:
                out.append(st)
    seen_ids, uniq = set(), []
    for o in out:
        if id(o) not in seen_ids:
            seen_ids.add(id(o))
            uniq.append(o)
    return uniq


def flows_from(p: P.Prov, e: ast.AST, depth: int = 4) -> List[ast.AST]:
    """all expression nodes the value of `e` is computed from (origins, and the origins of the names used inside them)"""
    out: List[ast.AST] = []
    seen: Set[int] = set()
    todo = [(o, depth) for o in origins(p, e)]
    while todo:
        o, d = todo.pop()
        if id(o) in seen or isinstance(o, (ast.stmt, ast.arg)):
            continue
        seen.add(id(o))
        for n in ast.walk(o):
            out.append(n)
            if d > 0 and isinstance(n, ast.Name) and isinstance(n.ctx, ast.Load) and n is not o:
                todo.extend((x, d - 1) for x in origins(p, n) if x is not n)
    return out


def same_object(p: P.Prov, e: ast.AST, ids: Set[int]) -> bool:
    os_ = origins(p, e)
    return bool(os_) and any(id(o) in ids for o in os_)


# --------------------------------------------------------------------------------------------------------------- discovery
def bind_args(call: ast.Call, callee: FuncInfo) -> Dict[str, ast.AST]:
    params = list(callee.params)
    if callee.is_method:
        params = params[1:]
    out: Dict[str, ast.AST] = {}
    for pn, a in zip(params, call.args):
        if not isinstance(a, ast.Starred):
            out[pn] = a
    for k in call.keywords:
        if k.arg is not None:
            out[k.arg] = k.value
    return out


def unique_target(repo: Repo, f: FuncInfo, call: ast.Call) -> Optional[FuncInfo]:
    try:
        cat, tg = repo.resolve_call(f, call)
    except Exception:
        return None
    tg = [t for t in tg if t[1] is not None]
    if cat != "repo" or len({t[1].qn for t in tg}) != 1:
        return None
    return tg[0][1]


class Step:
    """one private step of the conversion: the raw function and the names of its parameters by role"""

    def __init__(self, raw: FuncInfo, roles: Dict[str, str]):
        self.raw, self.roles = raw, roles

    def param(self, role: str) -> str:
        if role not in self.roles:
            raise AnalysisError(f"{self.raw.qn}: no parameter receives the {role} of convert_plan")
        return self.roles[role]


def discover(repo: Repo) -> Tuple[FuncInfo, Step, Step]:
    """(public anchor, extraction step, packing step)"""
    c = repo.func(ANCHOR)
    missing = [k for k in PUBLIC_ROLES if k not in c.params]
    if missing:
        raise AnalysisError(f"{ANCHOR}: public parameters {missing} not found")
    found = _discover_in(repo, c, {v: k for k, v in PUBLIC_ROLES.items()}, 0)
    if found is None:
        raise AnalysisError(f"{ANCHOR}: the calls that extract the action sequence from the plan text and that pack it into joint actions "
                            f"were not found (the steps are identified by their arguments: plan text + agent names / problem + sequence + agent names)")
    return (c,) + found


def _discover_in(repo: Repo, f: FuncInfo, roles: Dict[str, str], depth: int):
    p = L.prov(repo, f)
    e_call = None
    e_step = None

    def role_of(expr) -> Optional[str]:
        try:
            tr = p.trace(expr)
        except KeyError:
            return None
        if not tr:
            return None
        for role in ("AGENTS", "PROBLEM", "FLAG", "TEXT"):
            if role in roles and all(x == (f"param:{roles[role]}",) for x in tr):
                return role
        if e_call is not None and any(o is e_call for o in origins(p, expr)):
            return "PLAN"
        if "PATH" in roles:
            mine = [x for x in tr if x[0] == f"param:{roles['PATH']}"]
            if mine and all(x in mine or x[0].startswith(("const:", "ext:", "fresh:", "global:", "builtin:")) for x in tr):
                return "TEXT" if any(len(x) > 1 for x in mine) else "PATH"
        return None

    calls = sorted(L.calls_in(f.node), key=lambda c: (getattr(c, "lineno", 0), getattr(c, "col_offset", 0)))

    def bound_roles(c) -> Optional[Tuple[FuncInfo, Dict[str, str]]]:
        if not is_private(callee_name(c)):
            return None
        t = unique_target(repo, f, c)
        if t is None or t.qn == f.qn:
            return None
        got: Dict[str, str] = {}
        for pn, a in bind_args(c, t).items():
            r = role_of(a)
            if r is not None and r not in got:
                got[r] = pn
        return t, got

    # first the extraction call (it may be nested in the argument list of the packing call, i.e. come later in source order), then
    # the packing call, which is the one that receives the extraction's result
    for c in calls:
        b = bound_roles(c)
        if b is None:
            continue
        t, got = b
        have = set(got)
        if {"AGENTS", "PROBLEM"} <= have and ("TEXT" in have or "PATH" in have) and depth < 2:
            sub = _discover_in(repo, t, got, depth + 1)
            if sub is not None:
                return sub
        if e_call is None and {"TEXT", "AGENTS"} <= have and "PROBLEM" not in have:
            e_call, e_step = c, Step(t, got)
    if e_call is None:
        return None
    for c in calls:
        if c is e_call:
            continue
        b = bound_roles(c)
        if b is not None and {"PLAN", "AGENTS", "PROBLEM"} <= set(b[1]):
            return e_step, Step(b[0], b[1])
    return None


# --------------------------------------------------------------------------------------------------------------- extractors
EFFECT_TEXT = ("attr:grounded_effects", "elem", "attr:grounded_discrete_effects", "elem", "attr:untyped_representation")
NUMERIC_TARGET = ("attr:root", "attr:children", "item:0", "attr:value", "attr:untyped_representation")
PATTERNS = (
    (EFFECT_TEXT, "disc"),
    (("attr:grounded_effects", "elem", "attr:grounded_numeric_effects", "elem") + NUMERIC_TARGET, "num"),
    (("attr:grounded_preconditions", "elem") + NUMERIC_TARGET, "numpre"),
    (("attr:grounded_preconditions", "elem", "attr:untyped_representation"), "pre"),
)


def _polarity_matcher(e):
    if isinstance(e, ast.Attribute) and e.attr == "is_positive" and isinstance(e.ctx, ast.Load):
        return "pos"
    return None


CONTAINER_PASS = {"arg0:set", "arg0:frozenset", "arg0:list", "arg0:sorted", "arg0:tuple", "call:copy", "call:union", "arg0:union",
                  "binop:BitOr:l", "binop:BitOr:r", "aug:BitOr", "aug:Add", "binop:Add:l", "binop:Add:r"}


def normalise(path: tuple) -> Optional[tuple]:
    """`(.., 'in:<i>', 'unpack:<j>' | 'item:<j>', ..)`: component j of a tuple / list literal is its j-th element -- the pair cancels for
    i == j and the path is spurious otherwise (helpers that return tuples and were inlined)"""
    x = list(path)
    k = 0
    while k < len(x) - 1:
        a, b = x[k], x[k + 1]
        if a.startswith("in:") and a[3:].isdigit() and (b.startswith("unpack:") or b.startswith("item:")) and b.split(":", 1)[1].isdigit():
            if a[3:] != b.split(":", 1)[1]:
                return None
            del x[k:k + 2]
            k = max(k - 1, 0)
            continue
        k += 1
    return tuple(x)


def _content_only(steps: tuple) -> bool:
    """the remaining steps only move the element into / between containers (`for e in a: b.add(e)` is 'elem' then 'in:add@b')"""
    return all(s.startswith("in:") or s in CONTAINER_PASS or s == "elem" for s in steps) and not (steps and steps[-1] == "elem")


ELEMENT_IN = ("in:append@", "in:add@", "in:elt", "in:insert@", "in:setitem@")
CONTAINER_MOVE = ("in:update@", "in:extend@")


def _cancel_iteration(steps: tuple) -> tuple:
    """put into a container, then iterate the container: the same element (`pos = [e for e in xs if c]; {e.t for e in pos}`)"""
    out: List[str] = []
    for s in steps:
        if s == "elem":
            k = len(out) - 1
            while k >= 0 and (out[k].startswith(CONTAINER_MOVE) or out[k] in CONTAINER_PASS):
                k -= 1
            if k >= 0 and (out[k].startswith(ELEMENT_IN) or (out[k].startswith("in:") and out[k][3:].isdigit())):
                del out[k:]
                continue
        out.append(s)
    return tuple(out)


FIELD_ROOTS = ("attr:grounded_effects", "attr:grounded_preconditions")


def direct_kinds(path: tuple) -> List[Tuple[tuple, str]]:
    """(provenance of the operator, field kind) when the path says: an element of this container is a grounded literal text /
    numeric target read out of an operator"""
    out = []
    for j in range(1, len(path)):
        if path[j] not in FIELD_ROOTS:
            continue
        tail = _cancel_iteration(path[j:])
        for pat, kind in PATTERNS:
            m = len(pat)
            if tail[:m] == pat:
                rest = tail[m:]
                if rest and rest[0].startswith("in:") and _content_only(rest):
                    out.append((path[:j], kind))
                break
        break
    return out


class ShortProv(P.Prov):
    """provenance whose paths say "put into a container, then taken out again" with no steps at all (the engine says it with two
    steps, `in:append@xs` .. `elem`, and cuts paths at a fixed length: values that are handed through several lists / tuples /
    comprehensions would lose the end of their path).  `in:<i>` followed by `unpack:<i>` / `item:<i>` cancels the same way (another
    position: the path is spurious).  Stores through a subscript (`xs[k] = v`) are kept: they tell which list a value went through."""

    def _ext(self, paths, step):
        digit = (step.startswith("unpack:") or step.startswith("item:")) and step.split(":", 1)[1].isdigit()
        if step != "elem" and not digit:
            return super()._ext(paths, step)
        rest, done = set(), set()
        for x in paths:
            if digit:
                last = x[-1]
                if len(x) > 1 and last.startswith("in:") and last[3:].isdigit():
                    if last[3:] == step.split(":", 1)[1]:
                        done.add(x[:-1])
                    continue
                rest.add(x)
                continue
            k = len(x) - 1
            while k >= 1 and (x[k].startswith(CONTAINER_MOVE) or x[k] in CONTAINER_PASS):
                k -= 1
            if k >= 1 and ((x[k].startswith(ELEMENT_IN) and not x[k].startswith("in:setitem@")) or (x[k].startswith("in:") and x[k][3:].isdigit())):
                done.add(x[:k])
            else:
                rest.add(x)
        return (super()._ext(rest, step) if rest else set()) | done


_short_prov_cache: Dict[int, "ShortProv"] = {}


def short_prov(repo: Repo, f: FuncInfo) -> "ShortProv":
    if id(f.node) not in _short_prov_cache:
        _short_prov_cache[id(f.node)] = ShortProv(repo, f)
    return _short_prov_cache[id(f.node)]


class Polarised:
    """element kinds of set-valued expressions of one (flattened) function; 'disc' becomes add / del by the valuation of is_positive"""

    def __init__(self, repo: Repo, f: FuncInfo, extractors: Optional["Extractors"] = None):
        self.repo, self.f = repo, f
        self.p = short_prov(repo, f)
        self.ex = extractors
        G = L.Guards(f, _polarity_matcher)
        if "pos" in G.atoms_seen:
            self.unders = {True: G.under({"pos": True}), False: G.under({"pos": False})}
        else:
            self.unders = {True: None, False: None}
        self._cache: Dict[int, Set[Tuple[tuple, str]]] = {}

    def _path_kinds(self, x: tuple) -> List[Tuple[tuple, str, bool]]:
        out = [(pre, k, k != "disc") for pre, k in direct_kinds(x)]
        if self.ex is not None:
            for i, s in enumerate(x):
                m = re.match(r"arg(\d+):(.+)$", s)
                if not m or m.group(2) not in self.ex.by_name:
                    continue
                nxt = x[i + 1] if i + 1 < len(x) else ""
                comp = None
                if nxt.startswith("unpack:") and nxt[7:].isdigit():
                    comp = int(nxt[7:])
                elif nxt.startswith("item:") and nxt[5:].isdigit():
                    comp = int(nxt[5:])
                rest = x[i + 1 + (0 if comp is None else 1):]
                if _content_only(rest):
                    for k in self.ex.kinds(m.group(2), int(m.group(1)), comp):
                        out.append((x[:i], k, True))
                break
        return out

    def kinds(self, e: ast.AST) -> Set[Tuple[tuple, str]]:
        """{(provenance of the operator the elements are read from, add|del|num|pre|numpre)}"""
        if id(e) in self._cache:
            return self._cache[id(e)]
        by: Dict[Tuple[tuple, str, bool], Set[bool]] = {}
        for pos in (True, False):
            try:
                tr = self.p.trace(e, under=self.unders[pos])
            except KeyError:
                tr = set()
            for x in short(tr):
                x = normalise(x)
                if x is None:
                    continue
                for pre, k, final in self._path_kinds(x):
                    by.setdefault((pre, k, final), set()).add(pos)
        out: Set[Tuple[tuple, str]] = set()
        for (pre, k, final), ps in by.items():
            if final:
                out.add((pre, k))
            else:
                if True in ps:
                    out.add((pre, "add"))
                if False in ps:
                    out.add((pre, "del"))
                if ps == {True, False} and self.unders[True] is not None:
                    pass  # both polarities end up in the same set: reported as add and del
        self._cache[id(e)] = out
        return out


class Extractors:
    """private functions reachable from the packing step that map an operator parameter to set(s) of literal texts"""

    def __init__(self, repo: Repo, start: FuncInfo):
        self.repo = repo
        self.by_name: Dict[str, Dict[Optional[int], Set[Tuple[int, str]]]] = {}
        self.qns: List[str] = []
        seen: Set[str] = {start.qn}
        queue = [start]
        # besides the calls written in the code, whatever the flattening of the step pulls in (helpers reached through tables of method
        # names, getattr, partial, function-valued parameters ...) is searched too
        try:
            pulled = [q for q in getattr(flatten_full(repo, start), "inlined", []) if q in repo.funcs]
        except Exception:
            pulled = []
        for q in dict.fromkeys(pulled):
            if q in seen:
                continue
            seen.add(q)
            s = self._summary(repo.funcs[q])
            if s is None:
                queue.append(repo.funcs[q])
            else:
                self.by_name[repo.funcs[q].name] = s
                self.qns.append(q)
        while queue:
            g = queue.pop(0)
            for c in self._references(g):
                if not is_private(callee_name(c)):
                    continue
                t = unique_target(repo, g, c)
                if t is None or t.qn in seen or t.qn in self.qns:
                    continue
                seen.add(t.qn)
                s = self._summary(t)
                if s is None:
                    queue.append(t)
                else:
                    self.by_name[t.name] = s
                    self.qns.append(t.qn)

    @staticmethod
    def _references(g: FuncInfo) -> List[ast.Call]:
        """the calls made by g, and -- as calls without arguments -- the private functions g only mentions (handed to partial / map /
        reduce, stored in a table, bound to a local): they are called too, by whoever receives the value"""
        calls = list(L.calls_in(g.node))
        called = {id(c.func) for c in calls}
        out = list(calls)
        for n in ast.walk(g.node):
            if id(n) in called or not isinstance(getattr(n, "ctx", None), ast.Load):
                continue
            if (isinstance(n, ast.Attribute) and isinstance(n.value, ast.Name) and is_private(n.attr)) or (isinstance(n, ast.Name) and is_private(n.id)):
                out.append(ast.copy_location(ast.Call(func=n, args=[], keywords=[]), n))
        return out

    def _summary(self, t: FuncInfo) -> Optional[Dict[Optional[int], Set[Tuple[int, str]]]]:
        ft = flatten_full(self.repo, t)
        rets = [n for n in ast.walk(ft.node) if isinstance(n, ast.Return)]
        if not rets or any(r.value is None for r in rets):
            return None
        pol = Polarised(self.repo, ft)
        params = list(ft.params[1:] if ft.is_method else ft.params)
        out: Dict[Optional[int], Set[Tuple[int, str]]] = {}
        for r in rets:
            os_ = origins(pol.p, r.value)
            comps: List[Tuple[Optional[int], ast.AST]]
            if len(os_) == 1 and isinstance(os_[0], ast.Tuple):
                comps = list(enumerate(os_[0].elts))
            else:
                comps = [(None, r.value)]
            for idx, e in comps:
                ks = set()
                for pre, k in pol.kinds(e):
                    if len(pre) == 1 and pre[0].startswith("param:") and pre[0][6:] in params:
                        ks.add((params.index(pre[0][6:]), k))
                if not ks:
                    return None
                out.setdefault(idx, set()).update(ks)
        return out

    def kinds(self, name: str, arg: int, comp: Optional[int]) -> Set[str]:
        s = self.by_name.get(name, {})
        if comp in s:
            return {k for i, k in s[comp] if i == arg}
        return set()


# --------------------------------------------------------------------------------------------------------------- verdict algebra
REQUIRED_PAIRS = [("acc.add", "next.del"), ("acc.del", "next.add"), ("acc.pre", "next.del"), ("acc.num", "next.num"),
                  ("acc.numpre", "next.num"), ("acc.num", "next.numpre")]


def pair_name(a: str, b: str) -> str:
    return "&".join(sorted((a, b)))


class Verdict:
    """semantic atoms of the packing loop and their truth value under a scenario {atom: bool}

    atoms:  'occupied'   -- the slot the candidate would take holds something else than nop
            'applicable' -- <operator>.is_applicable(<state>)
            'pair:<a>&<b>' -- the sets with roles a and b share an element (roles: acc|next . add|del|num|pre|numpre)"""

    def __init__(self, repo: Repo, f: FuncInfo, plan_param: str, slot_ids: Set[int], extractors: Extractors, nop_value):
        self.repo, self.f = repo, f
        self.p = L.prov(repo, f)
        self.plan = f"param:{plan_param}"
        self.slot_ids = slot_ids
        self.pol = Polarised(repo, f, extractors)
        self.nop_root = f"const:{nop_value!r}"
        self._atom_cache: Dict[int, Optional[Tuple[str, bool]]] = {}
        self._role_cache: Dict[int, Optional[str]] = {}
        self.pairs_seen: Set[str] = set()
        self.pair_operands: List[Tuple[ast.AST, ast.AST, str, str]] = []        # (operand, operand, role, role) of every set test recognised
        self.flag_param: Optional[str] = None       # the parameter of the step that carries should_validate_concurrency_constraint
        self.extra = None           # optional further atoms: expr -> (name, polarity) | None (not cached)
        self.member_walks: List[Tuple[int, object, Set[int]]] = []      # (CFG node of a `for` over the members of the step, its nop-test matcher, the nodes of its body)

    # -- operands
    @staticmethod
    def res(e: ast.AST, env: Optional[Dict[str, ast.AST]]) -> ast.AST:
        n = 0
        while env and isinstance(e, ast.Name) and e.id in env and n < 8:
            e = env[e.id]
            n += 1
        return e

    def who_of(self, pre: tuple) -> Optional[str]:
        if not pre:
            return None
        if pre[0] == self.plan and len(pre) > 1 and pre[1] == "item:0" and "elem" not in pre and not any(s.startswith("in:") for s in pre):
            return "next"
        member = [i for i, s in enumerate(pre) if s in ("elem", "item")]       # an element of a list: by iteration or by a computed position
        if member:
            i = member[0]
            if any(s.startswith(("in:setitem@", "in:elt", "in:append@", "in:setval@", "in:insert@")) for s in pre[:i]):
                return "acc"
            if pre[0].startswith("param:") and pre[0] != self.plan:
                return "acc"
        return None

    def role(self, e: ast.AST, env=None) -> Optional[str]:
        e = self.res(e, env)
        if id(e) in self._role_cache:
            return self._role_cache[id(e)]
        ks = self.pol.kinds(e)
        out = None
        if ks:
            whos = {self.who_of(pre) for pre, _k in ks} - {None}
            who = "next" if whos == {"next"} else ("acc" if whos == {"acc"} else ("mixed" if whos else "unknown"))
            out = who + "." + "/".join(sorted({k for _p, k in ks}))
        else:
            out = self.params_role(e)
        self._role_cache[id(e)] = out
        return out

    # -- the objects the actions work on (shared-object concurrency constraint)
    PARAM_PASS = ("arg0:set", "arg0:frozenset", "arg0:list", "arg0:tuple", "arg0:sorted", "call:copy")

    def params_role(self, e: ast.AST) -> Optional[str]:
        """'next.params': ALL the parameters of the head of the remaining plan; 'acc.params': the parameters of ALL the members of the
        slot list (JointActionCall(<slot list>).joint_parameters, or collected member by member).  A slice / a single position of
        either is neither."""
        try:
            tr = short(self.p.trace(e))
        except KeyError:
            return None
        # not elements: the container objects themselves, and the positions (keys) of stores into a list
        tr = {x for x in tr if not (x[0].startswith("fresh:") and all(s in self.PARAM_PASS or s in CONTAINER_PASS for s in x[1:]))
              and not any(s.startswith("in:setkey@") for s in x)}
        if not tr:
            return None

        def content(rest: tuple) -> bool:
            return all(s in self.PARAM_PASS or s == "elem" or (s.startswith("in:") and not s[3:].isdigit()) or s in CONTAINER_PASS for s in rest)

        def nxt(x: tuple) -> bool:
            return len(x) >= 4 and x[0] == self.plan and x[1] == "item:0" and x[2] in ("unpack:0", "item:0") and x[3] == "attr:parameters" and content(x[4:])

        def acc(x: tuple) -> Optional[bool]:
            """True: parameters of the members; None: a by-product that says nothing (the JointActionCall object itself)"""
            if any(s.startswith("slice:") for s in x):
                return False        # some of the members / some of the parameters only
            if "attr:parameters" in x and any(s.startswith("item") for s in x[x.index("attr:parameters") + 1:]):
                return False        # one position of the parameters
            if "attr:joint_parameters" in x:
                i = x.index("attr:joint_parameters")
                if not content(x[i + 1:]) or i == 0:
                    return False
                if x[i - 1] == "fresh:JointActionCall":
                    return None
                return x[i - 1] in ("arg0:JointActionCall", "kw:actions:JointActionCall")
            if "attr:parameters" in x:
                i = x.index("attr:parameters")
                return self.who_of(x[:i]) == "acc" and x[i - 1] in ("elem", "item") and content(x[i + 1:])
            return False

        if all(nxt(x) for x in tr):
            return "next.params"
        got = [acc(x) for x in tr]
        if all(g is not False for g in got) and any(g is True for g in got) and self._joint_from_slots(e):
            return "acc.params"
        return None

    def _joint_from_slots(self, e: ast.AST) -> bool:
        """every JointActionCall the value is read from was built from the slot list itself"""
        for n in flows_from(self.p, e, depth=5):
            if isinstance(n, ast.Call) and callee_name(n) == "JointActionCall" and isinstance(n.func, ast.Name):
                a = L.arg_of(n, self.repo.find_method("JointActionCall", "__init__"), "actions", 0)
                if a is None or not same_object(self.p, a, self.slot_ids):
                    return False
        return True

    def is_nop(self, e: ast.AST) -> bool:
        try:
            tr = self.p.trace(e)
        except KeyError:
            return False
        return bool(tr) and all(len(x) == 1 and x[0].startswith(("const:", "global:")) for x in tr) and any(x[0] == self.nop_root for x in tr) \
            and all(x[0] == self.nop_root for x in tr if x[0].startswith("const:"))

    def is_slot_item(self, e: ast.AST) -> bool:
        """e is SLOTS[<position of the candidate's agent>] (directly or through a local): the index is computed from the agent
        component of the head of the remaining plan"""
        for o in origins(self.p, e):
            if isinstance(o, ast.Subscript) and not isinstance(o.slice, (ast.Slice, ast.Constant)) and same_object(self.p, o.value, self.slot_ids):
                try:
                    key = short(self.p.trace(o.slice))
                except KeyError:
                    continue
                if any(t[0] == self.plan and len(t) > 2 and t[1] == "item:0" and t[2] in ("unpack:1", "item:1") and not any(s.startswith("in:") for s in t)
                       for t in key):
                    return True
        return False

    def _intersection(self, e: ast.AST, env) -> Optional[Tuple[ast.AST, ast.AST]]:
        """(A, B) when e evaluates to the common elements of A and B"""
        e = self.res(e, env)
        if isinstance(e, ast.Name):
            os_ = origins(self.p, e)
            if len(os_) != 1 or isinstance(os_[0], (ast.Name, ast.arg, ast.stmt)):
                return None
            e = os_[0]
        if isinstance(e, ast.Call) and isinstance(e.func, ast.Attribute) and e.func.attr == "intersection":
            if len(e.args) == 1 and not e.keywords:
                return e.func.value, e.args[0]
            if len(e.args) == 2 and isinstance(e.func.value, ast.Name) and e.func.value.id in ("set", "frozenset"):
                return e.args[0], e.args[1]
        if isinstance(e, ast.BinOp) and isinstance(e.op, ast.BitAnd):
            return e.left, e.right
        if isinstance(e, ast.Call) and isinstance(e.func, ast.Name) and e.func.id in ("set", "list", "sorted", "tuple", "frozenset") and len(e.args) == 1:
            return self._intersection(e.args[0], env)
        return None

    def _pair_atom(self, a: ast.AST, b: ast.AST, env, pol: bool) -> Optional[Tuple[str, bool]]:
        ra, rb = self.role(a, env), self.role(b, env)
        if ra is None or rb is None:
            return None
        name = "pair:" + pair_name(ra, rb)
        self.pairs_seen.update(self.components(name))
        oa, ob = self.res(a, env), self.res(b, env)
        if not any(x is oa and y is ob for x, y, _ra, _rb in self.pair_operands):
            self.pair_operands.append((oa, ob, ra, rb))
        return name, pol

    @staticmethod
    def _split_role(r: str) -> List[str]:
        who, _, kinds = r.partition(".")
        return [f"{who}.{k}" for k in kinds.split("/")] if kinds else [r]

    @classmethod
    def components(cls, atom_name: str) -> List[str]:
        """a set that holds several kinds of elements (`writes | reads`) is the union of its kinds: a common element of two such
        sets is a common element of one of the kind-by-kind pairs"""
        a, _, b = atom_name[5:].partition("&")
        return [pair_name(x, y) for x in cls._split_role(a) for y in cls._split_role(b)]

    def _lookup(self, name: str, sc: Dict[str, bool]) -> Optional[bool]:
        if name in sc:
            return sc[name]
        if name.startswith("pair:"):
            vals = [sc.get("pair:" + c, sc.get("pair:*")) for c in self.components(name)]
            if any(v is True for v in vals):
                return True
            return False if vals and all(v is False for v in vals) else None
        if name.startswith("nonempty:"):
            vals = [sc.get("nonempty:" + r) for r in self._split_role(name[9:])]
            if any(v is True for v in vals):
                return True
            return False if vals and all(v is False for v in vals) else None
        return None

    def _nonempty(self, x: ast.AST, env, pol: bool) -> Optional[Tuple[str, bool]]:
        ab = self._intersection(x, env)
        if ab is None:
            r = self.role(x, env)           # a plain literal set: non-empty whenever a pair it takes part in has a common element
            return ("nonempty:" + r, pol) if r is not None else None
        return self._pair_atom(ab[0], ab[1], env, pol)

    def atom(self, e: ast.AST, env=None) -> Optional[Tuple[str, bool]]:
        if self.extra is not None:
            x = self.extra(e)
            if x is not None:
                return x
        if env is None and id(e) in self._atom_cache:
            return self._atom_cache[id(e)]
        out = self._atom(e, env)
        if env is None:
            self._atom_cache[id(e)] = out
        return out

    def _atom(self, e: ast.AST, env) -> Optional[Tuple[str, bool]]:
        if self.flag_param is not None and isinstance(e, ast.Name) and isinstance(e.ctx, ast.Load) and not (env and e.id in env):
            try:
                tr = self.p.trace(e)
            except KeyError:
                tr = set()
            if tr and all(x == (f"param:{self.flag_param}",) for x in tr):
                return "flag", True
        if isinstance(e, ast.Call) and isinstance(e.func, ast.Attribute):
            if e.func.attr == "is_applicable":
                return "applicable", True
            if e.func.attr == "isdisjoint" and len(e.args) == 1:
                return self._pair_atom(e.func.value, e.args[0], env, False)
            if e.func.attr == "intersection":
                return self._nonempty(e, env, True)
        if isinstance(e, ast.BinOp) and isinstance(e.op, ast.BitAnd):
            return self._nonempty(e, env, True)
        if isinstance(e, ast.Call) and isinstance(e.func, ast.Name) and e.func.id == "len" and len(e.args) == 1:
            return self._nonempty(e.args[0], env, True)        # len(x) in a boolean context
        if isinstance(e, ast.Call) and isinstance(e.func, ast.Name) and e.func.id == "any" and len(e.args) == 1 \
                and isinstance(e.args[0], (ast.GeneratorExp, ast.ListComp)) and len(e.args[0].generators) == 1 and not e.args[0].generators[0].ifs:
            gen, elt = e.args[0].generators[0], e.args[0].elt
            # any(x in B for x in A)
            if isinstance(elt, ast.Compare) and len(elt.ops) == 1 and isinstance(elt.ops[0], ast.In) and isinstance(gen.target, ast.Name) \
                    and isinstance(elt.left, ast.Name) and elt.left.id == gen.target.id:
                return self._pair_atom(gen.iter, elt.comparators[0], env, True)
        if isinstance(e, ast.Name) and isinstance(e.ctx, ast.Load) and not (env and e.id in env):
            r_ = self.role(e, env)
            if r_ is not None and self._intersection(e, env) is None:
                return "nonempty:" + r_, True
        if isinstance(e, ast.Compare) and len(e.ops) == 1:
            l, r, op = e.left, e.comparators[0], e.ops[0]
            # len(X) <op> <int>
            for a, b, flip in ((l, r, False), (r, l, True)):
                if isinstance(a, ast.Call) and isinstance(a.func, ast.Name) and a.func.id == "len" and len(a.args) == 1 \
                        and isinstance(b, ast.Constant) and isinstance(b.value, int) and not isinstance(b.value, bool):
                    o = type(op)
                    if flip:
                        o = {ast.Lt: ast.Gt, ast.Gt: ast.Lt, ast.LtE: ast.GtE, ast.GtE: ast.LtE}.get(o, o)
                    v = b.value
                    nonempty = (o is ast.Gt and v == 0) or (o is ast.NotEq and v == 0) or (o is ast.GtE and v == 1)
                    empty = (o is ast.Eq and v == 0) or (o is ast.Lt and v == 1) or (o is ast.LtE and v == 0)
                    if nonempty or empty:
                        return self._nonempty(a.args[0], env, nonempty)
                    return None
            # <slot item>.name <op> nop
            if isinstance(op, (ast.Eq, ast.NotEq, ast.Is, ast.IsNot)):
                for a, b in ((l, r), (r, l)):
                    a = self.res(a, env)
                    if isinstance(a, ast.Name):
                        os_ = origins(self.p, a)
                        a = os_[0] if len(os_) == 1 else a
                    if isinstance(a, ast.Attribute) and a.attr == "name" and self.is_nop(self.res(b, env)) and self.is_slot_item(a.value):
                        return "occupied", isinstance(op, (ast.NotEq, ast.IsNot))
        return None

    # -- evaluation
    def rows(self, it: ast.AST, env) -> Optional[List[ast.AST]]:
        it = self.res(it, env)
        os_ = origins(self.p, it)
        if len(os_) != 1:
            return None
        o = os_[0]
        if isinstance(o, (ast.List, ast.Tuple, ast.Set)) and o.elts and not any(isinstance(x, ast.Starred) for x in o.elts):
            return list(o.elts)
        if isinstance(o, ast.Call) and isinstance(o.func, ast.Name) and o.func.id in ("list", "tuple") and len(o.args) == 1:
            return self.rows(o.args[0], env)
        if isinstance(o, ast.Call) and isinstance(o.func, ast.Name) and o.func.id == "zip" and len(o.args) >= 2 and not o.keywords:
            cols = [self.rows(a, env) for a in o.args]
            if any(c is None for c in cols) or len({len(c) for c in cols}) != 1:
                return None
            return [ast.Tuple(elts=list(r), ctx=ast.Load()) for r in zip(*cols)]
        return None

    @staticmethod
    def bind(target: ast.AST, row: ast.AST, env: Dict[str, ast.AST]) -> bool:
        if isinstance(target, ast.Name):
            env[target.id] = row
            return True
        if isinstance(target, (ast.Tuple, ast.List)) and isinstance(row, (ast.Tuple, ast.List)) and len(target.elts) == len(row.elts):
            return all(Verdict.bind(t, r, env) for t, r in zip(target.elts, row.elts))
        return False

    def tv(self, e: ast.AST, sc: Dict[str, bool], env=None) -> Optional[bool]:
        a = self.atom(e, env)
        if a is not None:
            name, pol = a
            v = self._lookup(name, sc)
            if v is None:
                return None
            return v if pol else (not v)
        if isinstance(e, ast.Call) and isinstance(e.func, ast.Name) and e.func.id in ("all", "any") and len(e.args) == 1 and not e.keywords \
                and isinstance(e.args[0], (ast.GeneratorExp, ast.ListComp, ast.SetComp)) and len(e.args[0].generators) == 1:
            comp = e.args[0]
            gen = comp.generators[0]
            rows = self.rows(gen.iter, env)
            if rows is None:
                return None
            vals = []
            for row in rows:
                env2 = dict(env or {})
                if not self.bind(gen.target, row, env2):
                    return None
                keep = [C.eval3(c, lambda x: self.tv(x, sc, env2)) for c in gen.ifs]
                if any(k is False for k in keep):
                    continue
                v = C.eval3(comp.elt, lambda x: self.tv(x, sc, env2))
                if any(k is None for k in keep):
                    v = None if v is not (e.func.id == "all") else v     # a row that may be filtered out can only be neutral
                vals.append(v)
            if e.func.id == "all":
                if any(v is False for v in vals):
                    return False
                return True if all(v is True for v in vals) else None
            if any(v is True for v in vals):
                return True
            return False if all(v is False for v in vals) else None
        if isinstance(e, ast.Call) and isinstance(e.func, ast.Name) and e.func.id in ("all", "any") and len(e.args) == 1 and not e.keywords \
                and not isinstance(e.args[0], (ast.GeneratorExp, ast.ListComp, ast.SetComp)):
            rows = self.rows(e.args[0], env)            # any([a & b, c & d, ...])
            if rows is None:
                return None
            vals = [C.eval3(row, lambda x: self.tv(x, sc, env)) for row in rows]
            if e.func.id == "all":
                if any(v is False for v in vals):
                    return False
                return True if all(v is True for v in vals) else None
            if any(v is True for v in vals):
                return True
            return False if all(v is False for v in vals) else None
        if env and isinstance(e, ast.Name) and e.id in env:
            return self.tv(env[e.id], sc, env)
        return None

    def matcher(self, sc: Dict[str, bool]):
        def m(e):
            v = self.tv(e, sc, None)
            return None if v is None else ("T" if v else "!T")
        return m

    def reach(self, sc: Dict[str, bool], start: Optional[Iterable[int]] = None, avoid: Iterable[int] = ()) -> Set[int]:
        """CFG nodes reachable under the scenario: forward abstract interpretation with an environment of the boolean locals whose
        value is decided (flow-sensitive, refined by the branch taken, joined pointwise), so that flags that are accumulated over
        several tests (`ok = True; if a: ok = False; if ok: ok = b(); return ok`) are followed like early returns.
        `start`: the nodes reachable from these nodes (entered with what is known there when the function is run from its entry);
        `avoid`: nodes that are reached but not left."""
        g = C.cfg_of(self.f.node)
        avoid = set(avoid)
        seed: Optional[Dict[int, Dict[str, bool]]] = None
        if start is not None:
            full = self._reach_in(sc)
            seed = {n: dict(full[n]) for n in start if full.get(n) is not None}
            if not seed:
                return set()
        closed: Set[int] = set()
        if start is None and self.member_walks and self.extra is None and any(v is True and k.startswith("pair:") for k, v in sc.items()):
            # a scenario in which two sets share an element: the set of the step's members is not empty, so some non-nop member is
            # walked.  A walk over the members that is left by every non-nop member (the test sits inside the walk and fires) does not
            # come to its normal end then.
            sc2 = dict(sc)
            sc2["member-is-nop"] = False
            for head, nop, body in self.member_walks:
                starts = [m for m, l in g.succ[head] if l == "iter"]
                self.extra = nop
                try:
                    seen = self.reach(sc2, start=starts, avoid=set(g.nodes()) - set(body))      # one iteration: what lies outside the walk is not entered
                finally:
                    self.extra = None
                if seen and head not in seen:
                    closed.add(head)
        IN = self._propagate(g, sc, seed, avoid, closed)
        return {n for n in g.nodes() if IN[n] is not None}

    def reach_from(self, sc: Dict[str, bool], starts: Iterable[int], avoid: Iterable[int] = (), known: Optional[Dict[str, bool]] = None) -> Set[int]:
        """CFG nodes reachable from `starts` when the scenario holds FROM THERE ON (it need not hold on the way to the start nodes, unlike
        `reach(sc, start=..)`): the start nodes are entered with the boolean locals that are decided there whatever the atoms are, and with
        the values in `known`."""
        g = C.cfg_of(self.f.node)
        neutral = self._propagate(g, {}, None, set())
        seed = {n: {**(neutral.get(n) or {}), **(known or {})} for n in starts}
        if not seed:
            return set()
        IN = self._propagate(g, sc, seed, set(avoid))
        return {n for n in g.nodes() if IN[n] is not None}

    def _reach_in(self, sc: Dict[str, bool]) -> Dict[int, Optional[Dict[str, bool]]]:
        return self._propagate(C.cfg_of(self.f.node), sc, None, set())

    def _propagate(self, g, sc: Dict[str, bool], seed: Optional[Dict[int, Dict[str, bool]]], avoid: Set[int], closed: Iterable[int] = ()) -> Dict[int, Optional[Dict[str, bool]]]:
        closed = set(closed)

        def val(env):
            def v(e):
                t = self.tv(e, sc, None)
                if t is not None:
                    return t
                if isinstance(e, ast.Name) and isinstance(e.ctx, ast.Load) and e.id in env:
                    return env[e.id]
                return None
            return v

        def refine(test, truth: bool, env: Dict[str, bool]) -> Dict[str, bool]:
            if isinstance(test, ast.Name):
                env = dict(env)
                env[test.id] = truth
                return env
            if isinstance(test, ast.UnaryOp) and isinstance(test.op, ast.Not):
                return refine(test.operand, not truth, env)
            if isinstance(test, ast.BoolOp) and isinstance(test.op, ast.And if truth else ast.Or):
                for x in test.values:
                    env = refine(x, truth, env)
            return env

        def transfer(n: int, env: Dict[str, bool]) -> Dict[str, bool]:
            st = g.stmt[n]
            names = C.defs_of(st)
            if not names:
                return env
            out = {k: v for k, v in env.items() if k not in names}
            tgt = None
            if isinstance(st, ast.Assign) and len(st.targets) == 1 and isinstance(st.targets[0], ast.Name):
                tgt = st.targets[0].id
            elif isinstance(st, ast.AnnAssign) and isinstance(st.target, ast.Name) and st.value is not None:
                tgt = st.target.id
            if tgt is not None:
                v = C.eval3(st.value, val(env))
                if v is not None:
                    out[tgt] = v
            return out

        IN: Dict[int, Optional[Dict[str, bool]]] = {n: None for n in g.nodes()}
        if seed is None:
            IN[g.entry] = {}
            work = [g.entry]
        else:
            for n_, e_ in seed.items():
                IN[n_] = dict(e_)
            work = list(seed)
        steps = 0
        while work and steps < 20000:
            steps += 1
            n = work.pop()
            if n in avoid:
                continue
            env = IN[n]
            kind, st = g.kind[n], g.stmt[n]
            out = transfer(n, env)
            tv_ = None
            test = None
            if kind == "if" or (kind == "loop" and isinstance(st, ast.While)) or kind == "assert":
                test = st.test
                tv_ = C.eval3(test, val(env))
            for m, l in g.succ[n]:
                e2 = out
                if n in closed and l == "done":
                    continue
                if test is not None:
                    truth = {True: True, False: False, "iter": True, "done": False, "ok": True, "fail": False}.get(l)
                    if truth is not None:
                        if tv_ is not None and tv_ != truth:
                            continue
                        e2 = refine(test, truth, out)
                old = IN[m]
                new = e2 if old is None else {k: v for k, v in old.items() if k in e2 and e2[k] == v}
                if old is None or new != old:
                    IN[m] = dict(new)
                    work.append(m)
        return IN


def module_const(repo: Repo, modsuffix: str, name: str):
    m = repo.module(modsuffix)
    ok, v = repo.const_value(m.name, name)
    if not ok:
        raise AnalysisError(f"constant {modsuffix}.{name} cannot be folded")
    return v


def per_iteration(g: C.CFG, head: int, nodes: Set[int]) -> Tuple[bool, bool]:
    """(every iteration of the loop that comes back to the head or leaves the function normally passes one of `nodes`,
    no iteration passes two of them); paths that end in a raise are not iterations that lose anything silently"""
    entries = [m for m, l in g.succ[head] if l == "iter"]
    free: Set[int] = set()
    for m in entries:
        free |= C.reachable_from(g, m, avoid=set(nodes) | {head})
    back = any(head == m for n in free for m, _l in g.succ[n])
    at_least = not back and g.exit not in free and not any(e == head for e in entries)
    at_most = True
    for a in nodes:
        after: Set[int] = set()
        for m, _l in g.succ[a]:
            after |= C.reachable_from(g, m, avoid={head})
        if after & set(nodes):
            at_most = False
    return at_least, at_most


# --------------------------------------------------------------------------------------------------------------- member walks
COMPS = (ast.ListComp, ast.SetComp, ast.GeneratorExp, ast.DictComp)
ORDER_WRAPPERS = ("list", "tuple", "iter", "sorted", "reversed")
FRESH_CONTAINERS = ("list", "set", "dict", "deque")


class Walk:
    """one walk over the members of a step (or over something computed member by member): a `for` statement or one generator of
    a comprehension"""

    def __init__(self, kind: str, node: ast.AST, owner: ast.AST, status: str, source: int):
        self.kind, self.node, self.owner, self.status, self.source = kind, node, owner, status, source
        self.relevant = False
        self.feeds: List[Tuple[int, ast.AST]] = []      # (allocation site of a container filled in the body, the filling statement's call)

    @property
    def target(self) -> ast.AST:
        return self.node.target

    @property
    def iter(self) -> ast.AST:
        return self.node.iter


class Members:
    """which loops / comprehensions of the flattened packing step walk over the members of the slot list (directly, or over a
    container that was filled member by member), whether each walk is complete, and what it computes from its element.
    Identification is by allocation-site identity (`origins`), not by names."""

    def __init__(self, repo: Repo, f: FuncInfo, p: P.Prov, g: C.CFG, slot_ids: Set[int], V: "Verdict", ex: "Extractors", agents_param: str):
        self.repo, self.f, self.p, self.g, self.V, self.ex = repo, f, p, g, V, ex
        self.agents = f"param:{agents_param}"
        self.parents = L.parents_of(f)
        self.containers: Dict[int, Optional[Walk]] = {i: None for i in slot_ids}        # allocation site -> the walk that fills it
        self.container_nodes: Dict[int, ast.AST] = {}
        self.walks: List[Walk] = []
        self._by_node: Dict[int, Walk] = {}
        self._discover()
        self._relevance()

    # -- the iterable of a walk
    def _is_container(self, e: ast.AST) -> Optional[int]:
        try:
            for o in origins(self.p, e):
                if id(o) in self.containers:
                    return id(o)
        except Exception:
            pass
        return None

    def _mentions_container(self, e: ast.AST) -> bool:
        return any(isinstance(n, ast.Name) and isinstance(n.ctx, ast.Load) and self._is_container(n) is not None for n in ast.walk(e)) \
            or self._is_container(e) is not None

    def classify(self, it: ast.AST, depth: int = 0) -> Tuple[Optional[str], Optional[int]]:
        """('complete' | 'restricted' | 'unknown' | None, allocation site of the container walked)"""
        if depth > 6:
            return ("unknown", None) if self._mentions_container(it) else (None, None)
        c = self._is_container(it)
        if c is not None:
            return "complete", c
        o = it
        if isinstance(it, ast.Name):
            try:
                os_ = origins(self.p, it)
            except Exception:
                os_ = []
            if len(os_) == 1 and isinstance(os_[0], ast.expr) and not isinstance(os_[0], ast.Name):
                o = os_[0]
            elif len(os_) > 1:
                got = {self.classify(x, depth + 1) for x in os_ if isinstance(x, ast.expr) and not isinstance(x, ast.Name)}
                if len(got) == 1:
                    return next(iter(got))
                return ("unknown", None) if any(s_ for s_, _c in got) else (None, None)
        if isinstance(o, ast.Call) and isinstance(o.func, ast.Name):
            fn, args = o.func.id, o.args
            if fn in ORDER_WRAPPERS and args and not any(isinstance(a, ast.Starred) for a in args):
                return self.classify(args[0], depth + 1)
            if fn == "enumerate" and args:
                return self.classify(args[0], depth + 1)
            if fn == "range" and len(args) == 1 and isinstance(args[0], ast.Call) and isinstance(args[0].func, ast.Name) and args[0].func.id == "len" and len(args[0].args) == 1:
                inner = args[0].args[0]
                st, c = self.classify(inner, depth + 1)
                if st == "complete":
                    return st, c
                try:
                    if all(t == (self.agents,) for t in self.p.trace(inner)) and self.p.trace(inner):
                        return None, None           # positions of the agents: as many as there are slots, but no members are read here
                except KeyError:
                    pass
                return st, c
            if fn == "range" and len(args) > 1:
                for a in args:
                    for y in ast.walk(a):
                        if isinstance(y, ast.Call) and isinstance(y.func, ast.Name) and y.func.id == "len" and len(y.args) == 1:
                            st, c = self.classify(y.args[0], depth + 1)
                            if st is not None:
                                return "restricted", c      # positions of some of the members only
                return None, None
            if fn == "zip" and args and not any(isinstance(a, ast.Starred) for a in args):
                sts = [self.classify(a, depth + 1) for a in args]
                hits = [(s_, c_) for s_, c_ in sts if s_ is not None]
                if not hits:
                    return None, None
                if any(s_ != "complete" for s_, _c in hits):
                    return ("restricted" if any(s_ == "restricted" for s_, _c in hits) else "unknown"), hits[0][1]
                for a, (s_, _c) in zip(args, sts):
                    if s_ is None and not self._per_agent(a):
                        return "unknown", hits[0][1]    # zip stops at the shorter input
                return "complete", hits[0][1]
            if fn in ("islice", "takewhile", "dropwhile") and args:
                st, c = self.classify(args[-1] if fn != "islice" else args[0], depth + 1)
                return ("restricted", c) if st is not None else (None, None)
        if isinstance(o, ast.Attribute) and o.attr in ("actions", "operational_actions"):
            inner = o.value
            try:
                os_ = origins(self.p, inner)
            except Exception:
                os_ = [inner]
            if len(os_) == 1 and isinstance(os_[0], ast.Call) and callee_name(os_[0]) == "JointActionCall":
                a = L.arg_of(os_[0], self.repo.find_method("JointActionCall", "__init__"), "actions", 0)
                if a is not None:
                    return self.classify(a, depth + 1)
        if isinstance(o, ast.Subscript) and isinstance(o.slice, ast.Slice):
            st, c = self.classify(o.value, depth + 1)
            if st is not None:
                whole = o.slice.lower is None and o.slice.upper is None and (o.slice.step is None or (isinstance(o.slice.step, ast.Constant) and o.slice.step.value in (1, -1)))
                return (st if whole else "restricted"), c
            return None, None
        if isinstance(o, ast.Starred):
            return self.classify(o.value, depth + 1)
        if isinstance(o, (ast.List, ast.Tuple)) and len(o.elts) == 1 and isinstance(o.elts[0], ast.Starred):
            return self.classify(o.elts[0].value, depth + 1)
        if self._mentions_container(o):
            # the members are read in a way that is not interpreted here -- unless they are not read at all (len(slots), str(slots))
            if all(self._only_measured(n) for n in ast.walk(o) if isinstance(n, ast.Name) and isinstance(n.ctx, ast.Load) and self._is_container(n) is not None):
                return None, None
            return "unknown", None
        return None, None

    def _only_measured(self, n: ast.AST) -> bool:
        par = self.parents.get(n)
        return isinstance(par, ast.Call) and isinstance(par.func, ast.Name) and par.func.id in ("len", "str", "repr", "id", "bool") and n in par.args

    def _per_agent(self, a: ast.AST) -> bool:
        try:
            tr = self.p.trace(a)
        except KeyError:
            return False
        ok = {(self.agents,), (self.agents, "arg0:len", "arg0:range"), (self.agents, "arg0:enumerate")}
        if tr and all(t in ok for t in tr):
            return True
        if isinstance(a, ast.Call) and isinstance(a.func, ast.Name) and a.func.id == "count":
            return True
        if isinstance(a, ast.Call) and isinstance(a.func, ast.Name) and a.func.id == "range" and len(a.args) == 1:
            return self.classify(a, 5)[0] == "complete"
        return False

    # -- discovery (to a fixpoint: a container filled inside a walk is walked later)
    def _discover(self) -> None:
        fors = [n for n in ast.walk(self.f.node) if isinstance(n, ast.For)]
        comps = [n for n in ast.walk(self.f.node) if isinstance(n, COMPS)]
        for _round in range(5):
            grew = False
            for n in fors:
                if id(n) in self._by_node:
                    continue
                st, c = self.classify(n.iter)
                if st is None:
                    continue
                w = Walk("for", n, n, st, c)
                self._add(w)
                grew = True
                for call in L.calls_in(n):
                    if isinstance(call.func, ast.Attribute) and call.func.attr in ("append", "add", "extend", "update", "insert", "appendleft") and call.args:
                        self._feed(w, call.func.value, call)
                for s_ in ast.walk(n):
                    if isinstance(s_, ast.Assign) and len(s_.targets) == 1 and isinstance(s_.targets[0], ast.Subscript):
                        self._feed(w, s_.targets[0].value, s_)
            for cmp_ in comps:
                for gen in cmp_.generators:
                    if id(gen) in self._by_node:
                        continue
                    st, c = self.classify(gen.iter)
                    if st is None:
                        continue
                    w = Walk("comp", gen, cmp_, st, c)
                    self._add(w)
                    grew = True
                    if id(cmp_) not in self.containers:
                        self.containers[id(cmp_)] = w
                    par = self.parents.get(cmp_)
                    if isinstance(par, ast.Call) and isinstance(par.func, ast.Name) and par.func.id in ("list", "set", "tuple", "sorted", "frozenset", "deque") \
                            and len(par.args) == 1 and id(par) not in self.containers:
                        self.containers[id(par)] = w
            if not grew:
                break

    def _add(self, w: Walk) -> None:
        self.walks.append(w)
        self._by_node[id(w.node)] = w

    def _feed(self, w: Walk, recv: ast.AST, site: ast.AST) -> None:
        try:
            os_ = origins(self.p, recv)
        except Exception:
            return
        for o in os_:
            fresh = (isinstance(o, (ast.List, ast.Set, ast.Dict)) and not getattr(o, "elts", getattr(o, "keys", None))) or \
                (isinstance(o, ast.Call) and isinstance(o.func, ast.Name) and o.func.id in FRESH_CONTAINERS and not o.args and not o.keywords)
            if fresh and id(o) not in self.containers:
                self.containers[id(o)] = w
            if fresh:
                self.container_nodes[id(o)] = o
                w.feeds.append((id(o), site))

    # -- what a walk computes from its element
    def depends_on(self, e: ast.AST, w: Walk, depth: int = 6) -> bool:
        """the value of e is computed from the element of the walk"""
        names = C.target_names(w.target)
        seen: Set[int] = set()
        todo = [(e, depth)]
        while todo:
            x, d = todo.pop()
            if id(x) in seen:
                continue
            seen.add(id(x))
            if x is w.node:
                return True
            if isinstance(x, (ast.stmt, ast.arg)):
                continue
            for n in ast.walk(x):
                if isinstance(n, ast.Name) and isinstance(n.ctx, ast.Load):
                    try:
                        cb = self.p._comp_binding(n)
                    except Exception:
                        cb = None
                    if cb is not None:
                        if w.kind == "comp" and cb is w.node and n.id in names:
                            return True
                        continue
                    if d > 0:
                        try:
                            todo.extend((o, d - 1) for o in origins(self.p, n) if o is not n)
                        except Exception:
                            pass
        return False

    def region(self, w: Walk) -> List[ast.AST]:
        """the code evaluated once per element"""
        if w.kind == "for":
            return list(w.node.body)
        c = w.owner
        k = c.generators.index(w.node)
        out: List[ast.AST] = list(w.node.ifs)
        for gen in c.generators[k + 1:]:
            out.append(gen.iter)
            out.extend(gen.ifs)
        out.extend([c.key, c.value] if isinstance(c, ast.DictComp) else [c.elt])
        return out

    def uses(self, w: Walk) -> Dict[str, List[ast.AST]]:
        """what is computed from the element, by kind: 'Operator' (an operator is built from it), '<extractor name>' (its effects /
        preconditions are extracted), 'field:<attr>' (the operator's grounded effects / preconditions are walked in place)"""
        out: Dict[str, List[ast.AST]] = {}
        for root in self.region(w):
            for n in ast.walk(root):
                if isinstance(n, ast.Call):
                    cn = callee_name(n)
                    if (cn == "Operator" and isinstance(n.func, ast.Name)) or cn in self.ex.by_name:
                        if any(self.depends_on(a, w) for a in list(n.args) + [k.value for k in n.keywords]):
                            out.setdefault(cn, []).append(n)
                it = n.iter if isinstance(n, (ast.For, ast.comprehension)) else None
                if it is not None:
                    try:
                        tr = self.p.trace(it)
                    except KeyError:
                        tr = set()
                    for fld in FIELD_ROOTS:
                        if any(x[-1] == fld or (len(x) > 1 and x[-1] == "call:copy" and x[-2] == fld) for x in tr) and self.depends_on(it, w):
                            out.setdefault("field:" + fld[5:], []).append(n)
        return out

    def _relevance(self) -> None:
        for w in self.walks:
            w.uses = self.uses(w)
            w.relevant = bool(w.uses)
        grew = True
        while grew:
            grew = False
            for w in self.walks:
                if w.relevant:
                    continue
                fed = {c for c, _s in w.feeds} | ({id(w.owner)} if w.kind == "comp" else set())
                par = self.parents.get(w.owner) if w.kind == "comp" else None
                if par is not None:
                    fed.add(id(par))
                feeder = self.containers.get(w.source)
                if any(v.relevant and v.source in fed for v in self.walks) or (feeder is not None and feeder.relevant):
                    w.relevant = True       # it hands on what a relevant walk needs / it reads what a relevant walk computed member by member
                    grew = True

    # -- the nop test of a walk
    def nop_atom(self, w: Walk):
        names = C.target_names(w.target)

        def of_walk(x: ast.AST) -> bool:
            if isinstance(x, ast.Subscript):        # slots[i] in an index walk
                return self._is_container(x.value) is not None and self.depends_on(x.slice, w, 2)
            if not isinstance(x, ast.Name):
                return False
            try:
                if self.p._comp_binding(x) is not None:
                    return w.kind == "comp" and self.p._comp_binding(x) is w.node and x.id in names
                os_ = origins(self.p, x)
            except Exception:
                return False
            if any(o is w.node for o in os_):
                return True
            return len(os_) == 1 and isinstance(os_[0], ast.Subscript) and of_walk(os_[0])

        def m(e: ast.AST):
            if isinstance(e, ast.Compare) and len(e.ops) == 1 and isinstance(e.ops[0], (ast.Eq, ast.NotEq, ast.Is, ast.IsNot)):
                for a, b in ((e.left, e.comparators[0]), (e.comparators[0], e.left)):
                    if isinstance(a, ast.Attribute) and a.attr == "name" and self.V.is_nop(b) and of_walk(a.value):
                        return "member-is-nop", isinstance(e.ops[0], (ast.Eq, ast.Is))
            return None
        return m

    def body_nodes(self, w: Walk) -> Set[int]:
        out: Set[int] = set()
        for x in ast.walk(w.node):
            if isinstance(x, (ast.stmt, ast.ExceptHandler)) and x is not w.node:
                n = self.g.node_of(x)
                if n is not None:
                    out.add(n)
        return out

    def inside(self, w: Walk, e: ast.AST) -> bool:
        """e is evaluated inside the walk (once per element)"""
        return any(x is e for root in self.region(w) for x in ast.walk(root))
