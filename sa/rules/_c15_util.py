"""Helpers of the C15 rules (local engine extensions; candidates for promotion into sa/lib.py, sa/inline.py, sa/prov.py).

* `discover`      -- the two steps of PlanConverter.convert_plan (text -> action sequence, sequence -> joint actions) are located by
                     the provenance of the arguments of the calls made by the public function; the private functions that implement
                     them are identified by what they receive, not by their names, and their parameters are bound to roles
                     (AGENTS / PROBLEM / PLAN / TEXT / FLAG) by the call's arguments (wrappers are followed).
* `flatten_full`  -- sa.inline flattening that (a) also inlines helpers called in a `while` test (`while t(): b` is analysed as
                     `while True: if not t(): break; b`, re-flattened until nothing is left to inline), (b) keeps a chosen set of
                     callees opaque (their qualified names are put on the inliner's recursion stack), (c) reads module-level integer
                     constants as literals and (d) rewrites polarity-filtered comprehensions / conditional receivers into statements
                     so that valuation-aware provenance can tell add from delete effects.
* `origins` / `flows_from` / `same_object`
                  -- allocation-site identity of a local object: the expression(s) that created the value a name holds, following
                     plain copies (also the parameter bindings of inlined helpers), tuple-literal unpacking and tuples returned by
                     inlined helpers.
* `Extractors` / `Polarised`
                  -- summaries of the private functions that turn an operator into sets of grounded literal texts; each returned
                     component is classified by the operator fields its elements are read from (add / del / num / pre / numpre).
* `Verdict`       -- truth value of a boolean expression of the packing loop under a *scenario* (slot occupied, candidate
                     inapplicable, one interference pair non-empty), for any spelling of the set tests: len(a.intersection(b)) > 0,
                     a & b, not a.isdisjoint(b), all(x.isdisjoint(y) for x, y in TABLE), any([...]), intermediate variables; and
                     `Verdict.reach`: reachability under a scenario by a flow-sensitive abstract interpretation of boolean locals
                     (branch refinement, pointwise join) -- follows accumulated flags where sa.lib.Guards (reaching definitions
                     filtered by reachability) cannot.
* `per_iteration` -- every iteration of a loop passes exactly one of a set of CFG nodes (raise paths excluded).
"""
from __future__ import annotations

import ast
import copy
import itertools
import re
from typing import Dict, Iterable, List, Optional, Set, Tuple

from .. import cfg as C
from .. import lib as L
from .. import prov as P
from ..core import AnalysisError, FuncInfo, Repo
from ..inline import Flattener, specialise
from ..prov import callee_name

ANCHOR = "PlanConverter.convert_plan"
PUBLIC_ROLES = {"problem": "PROBLEM", "agent_names": "AGENTS", "plan_file_path": "PATH", "should_validate_concurrency_constraint": "FLAG"}


def short(paths) -> Set[tuple]:
    """provenance paths that were not cut at the engine's length limit (a cut path has lost its last steps)"""
    return {x for x in paths if len(x) < P.MAXLEN}


def is_private(name: str) -> bool:
    return name.startswith("_") and not (name.startswith("__") and name.endswith("__"))


# --------------------------------------------------------------------------------------------------------------- flattening
def _normalise_whiles(fl: Flattener, fn: ast.AST, ctx: FuncInfo) -> None:
    for n in ast.walk(fn):
        if isinstance(n, ast.While) and not n.orelse and not (isinstance(n.test, ast.Constant) and n.test.value is True):
            try:
                inl = fl._has_inlinable_call(n.test, ctx, (ctx.qn,), None)
            except Exception:
                inl = False
            if not inl:
                continue
            brk = ast.If(test=ast.UnaryOp(op=ast.Not(), operand=n.test), body=[ast.Break()], orelse=[])
            ast.copy_location(brk, n)
            ast.copy_location(brk.test, n.test)
            ast.copy_location(brk.body[0], n)
            n.test = ast.copy_location(ast.Constant(value=True), n.test)
            n.body = [brk] + list(n.body)


class _FoldIntConstants(ast.NodeTransformer):
    """module-level integer constants used as literals (`HEAD = 0 ... plan[HEAD]`) are read as the literal"""

    def __init__(self, repo: Repo, f: FuncInfo, fn: ast.AST):
        self.repo, self.f = repo, f
        self.locals = {n.id for n in ast.walk(fn) if isinstance(n, ast.Name) and isinstance(n.ctx, ast.Store)} | set(f.params)
        for n in ast.walk(fn):
            if isinstance(n, ast.arg):
                self.locals.add(n.arg)

    def visit_Name(self, n: ast.Name):
        if isinstance(n.ctx, ast.Load) and n.id not in self.locals:
            try:
                r = self.repo.lookup(self.f.mod.name, n.id)
                if r and r[0] == "const":
                    ok, v = self.repo.fold(r[1], r[2])
                    if ok and isinstance(v, int) and not isinstance(v, bool):
                        return ast.copy_location(ast.Constant(value=v), n)
            except Exception:
                pass
        return n


def _mentions_polarity(e: ast.AST) -> bool:
    return any(isinstance(n, ast.Attribute) and n.attr == "is_positive" for n in ast.walk(e))


def _expand_polarity_constructs(fl: Flattener, fn: ast.AST) -> None:
    """valuation-aware provenance decides `if lit.is_positive: adds.add(t) else: dels.add(t)` statement by statement; the same
    split written as filtered comprehensions (`{t for .. if lit.is_positive}`, anywhere in a statement) or with a conditional
    receiver (`(adds if lit.is_positive else dels).add(t)`) is rewritten into that statement form first"""
    COMPS = (ast.ListComp, ast.SetComp, ast.GeneratorExp)

    def has_filter(c) -> bool:
        return isinstance(c, COMPS) and any(_mentions_polarity(i) for g_ in c.generators for i in g_.ifs)

    def rewrite_block(body: List[ast.stmt]) -> List[ast.stmt]:
        out: List[ast.stmt] = []
        for st in body:
            for fld in ("body", "orelse", "finalbody"):
                sub = getattr(st, fld, None)
                if isinstance(sub, list) and sub and isinstance(sub[0], ast.stmt):
                    setattr(st, fld, rewrite_block(sub))
            if isinstance(st, ast.Try):
                for h in st.handlers:
                    h.body = rewrite_block(h.body)
            # (a if c else b).add(x)  ->  if c: a.add(x) else: b.add(x)
            if isinstance(st, ast.Expr) and isinstance(st.value, ast.Call) and isinstance(st.value.func, ast.Attribute) \
                    and isinstance(st.value.func.value, ast.IfExp) and _mentions_polarity(st.value.func.value.test):
                ife = st.value.func.value

                def arm(recv):
                    c = copy.deepcopy(st.value)
                    c.func.value = recv
                    return ast.copy_location(ast.Expr(value=c), st)
                new_if = ast.copy_location(ast.If(test=ife.test, body=[arm(ife.body)], orelse=[arm(ife.orelse)]), st)
                ast.fix_missing_locations(new_if)
                out.append(new_if)
                continue
            hdr = C.header(st) if not isinstance(st, (ast.FunctionDef, ast.ClassDef)) else None
            if hdr is None or isinstance(st, (ast.For, ast.While, ast.If, ast.With)):
                out.append(st)
                continue
            pre: List[ast.stmt] = []
            # X.update(<filtered comprehension>) / X.extend(..)
            if isinstance(st, ast.Expr) and isinstance(st.value, ast.Call) and isinstance(st.value.func, ast.Attribute) and st.value.func.attr in ("update", "extend") \
                    and len(st.value.args) == 1 and has_filter(st.value.args[0]) and isinstance(st.value.func.value, ast.Name):
                exp = fl._expand_comprehension(st.value.args[0], st.value.func.value.id, st, adder="add" if st.value.func.attr == "update" else "append")
                if exp is not None:
                    for x_ in exp:
                        ast.fix_missing_locations(x_)
                    out.extend(exp)
                    continue

            class Hoist(ast.NodeTransformer):
                def visit_Lambda(self, n):
                    return n

                def _comp(self, n, wrapper=None):
                    kind = wrapper or ("set" if isinstance(n, ast.SetComp) else "list")
                    tmp = f"__pol__c{next(_pol_counter)}"
                    init = ast.Call(func=ast.Name(id="set", ctx=ast.Load()), args=[], keywords=[]) if kind in ("set", "frozenset") else ast.List(elts=[], ctx=ast.Load())
                    exp = fl._expand_comprehension(n, tmp, st, adder="add" if kind in ("set", "frozenset") else "append")
                    if exp is None:
                        return None
                    a = ast.copy_location(ast.Assign(targets=[ast.Name(id=tmp, ctx=ast.Store())], value=init, lineno=st.lineno), st)
                    for x_ in [a] + exp:
                        ast.fix_missing_locations(x_)
                    pre.append(a)
                    pre.extend(exp)
                    return ast.copy_location(ast.Name(id=tmp, ctx=ast.Load()), n)

                def visit_Call(self, n):
                    if isinstance(n.func, ast.Name) and n.func.id in ("set", "list", "frozenset", "tuple", "sorted") and len(n.args) == 1 and not n.keywords \
                            and has_filter(n.args[0]):
                        r_ = self._comp(n.args[0], "set" if n.func.id in ("set", "frozenset") else "list")
                        if r_ is not None:
                            return r_
                    return self.generic_visit(n)

                def visit_ListComp(self, n):
                    if has_filter(n):
                        r_ = self._comp(n)
                        if r_ is not None:
                            return r_
                    return n

                visit_SetComp = visit_ListComp

                def visit_GeneratorExp(self, n):
                    return n

                def visit_DictComp(self, n):
                    return n

            for fld in ("value", "test"):
                v = getattr(st, fld, None)
                if isinstance(v, ast.AST) and any(has_filter(n) for n in ast.walk(v)):
                    setattr(st, fld, Hoist().visit(v))
            out.extend(pre)
            out.append(st)
        return out

    fn.body = rewrite_block(list(fn.body))


_pol_counter = itertools.count(1)
_flat_cache: Dict[tuple, FuncInfo] = {}


def flatten_full(repo: Repo, f: FuncInfo, exclude: Iterable[str] = ()) -> FuncInfo:
    key = (id(repo), f.qn, id(f.node), tuple(sorted(exclude)))
    if key in _flat_cache:
        return _flat_cache[key]
    cur = f
    inlined: List[str] = []
    for _ in range(5):
        fl = Flattener(repo, cur)
        fn = copy.deepcopy(cur.node)
        _normalise_whiles(fl, fn, cur)
        fn.body = fl._flatten_block(list(fn.body), cur, (f.qn,) + tuple(exclude), 1)
        if fl.inlined:
            specialise(fn)
        _expand_polarity_constructs(fl, fn)
        fn = _FoldIntConstants(repo, f, fn).visit(fn)
        ast.fix_missing_locations(fn)
        nxt = FuncInfo(f.mod, f.cls, fn, static=f.static)
        nxt.qn = f.qn
        inlined.extend(fl.inlined)
        cur = nxt
        if not fl.inlined:
            break
    cur.flat_of = f
    cur.inlined = list(dict.fromkeys(inlined))
    _flat_cache[key] = cur
    return cur


# --------------------------------------------------------------------------------------------------------------- object identity
def origins(p: P.Prov, e: ast.AST, at: Optional[int] = None, _seen: frozenset = frozenset()) -> List[ast.AST]:
    """the expressions (or binding statements / ast.arg of a parameter) that created the value of `e`"""
    if isinstance(e, ast.NamedExpr):
        return origins(p, e.value, at, _seen)
    if not (isinstance(e, ast.Name) and isinstance(e.ctx, ast.Load)):
        return [e]
    try:
        if p._comp_binding(e) is not None:
            return [e]
        if at is None:
            at = p.node_of(e)
    except KeyError:
        return [e]
    out: List[ast.AST] = []
    for d in sorted(p.rd.defs_reaching(at, e.id)):
        if (e.id, d) in _seen:
            continue
        s2 = _seen | {(e.id, d)}
        if d == p.g.entry:
            a = p.f.node.args
            arg = next((x for x in a.posonlyargs + a.args + a.kwonlyargs if x.arg == e.id), None)
            out.append(arg if arg is not None else e)
            continue
        st = p.g.stmt[d]
        if isinstance(st, ast.Assign):
            for t in st.targets:
                if e.id in C.target_names(t):
                    paired = p._paired(t, st.value, e.id)
                    if paired is not None:
                        out.extend(origins(p, paired, d, s2))
                    elif isinstance(st.value, ast.Name):
                        # unpacked from a local (e.g. the tuple returned by an inlined helper): take the component by position
                        # when the local holds a tuple literal of the same shape
                        for o in origins(p, st.value, d, s2):
                            comp = p._paired(t, o, e.id) if isinstance(o, (ast.Tuple, ast.List)) else None
                            if comp is not None:
                                try:
                                    out.extend(origins(p, comp, p.node_of(comp), s2))
                                except KeyError:
                                    out.append(comp)
                            else:
                                out.append(o)
                    else:
                        out.append(st.value)
        elif isinstance(st, ast.AnnAssign) and st.value is not None:
            out.extend(origins(p, st.value, d, s2))
        elif isinstance(st, ast.AugAssign):
            out.extend(origins(p, ast.copy_location(ast.Name(id=e.id, ctx=ast.Load()), st), d, s2))
            out.append(st)
        else:
            h = C.header(st)
            ne = [n for n in ast.walk(h) if isinstance(n, ast.NamedExpr) and e.id in C.target_names(n.target)] if h is not None else []
            if ne:
                for n in ne:
                    out.extend(origins(p, n.value, d, s2))
            else:
                out.append(st)
    seen_ids, uniq = set(), []
    for o in out:
        if id(o) not in seen_ids:
            seen_ids.add(id(o))
            uniq.append(o)
    return uniq


def flows_from(p: P.Prov, e: ast.AST, depth: int = 4) -> List[ast.AST]:
    """all expression nodes the value of `e` is computed from (origins, and the origins of the names used inside them)"""
    out: List[ast.AST] = []
    seen: Set[int] = set()
    todo = [(o, depth) for o in origins(p, e)]
    while todo:
        o, d = todo.pop()
        if id(o) in seen or isinstance(o, (ast.stmt, ast.arg)):
            continue
        seen.add(id(o))
        for n in ast.walk(o):
            out.append(n)
            if d > 0 and isinstance(n, ast.Name) and isinstance(n.ctx, ast.Load) and n is not o:
                todo.extend((x, d - 1) for x in origins(p, n) if x is not n)
    return out


def same_object(p: P.Prov, e: ast.AST, ids: Set[int]) -> bool:
    os_ = origins(p, e)
    return bool(os_) and any(id(o) in ids for o in os_)


# --------------------------------------------------------------------------------------------------------------- discovery
def bind_args(call: ast.Call, callee: FuncInfo) -> Dict[str, ast.AST]:
    params = list(callee.params)
    if callee.is_method:
        params = params[1:]
    out: Dict[str, ast.AST] = {}
    for pn, a in zip(params, call.args):
        if not isinstance(a, ast.Starred):
            out[pn] = a
    for k in call.keywords:
        if k.arg is not None:
            out[k.arg] = k.value
    return out


def unique_target(repo: Repo, f: FuncInfo, call: ast.Call) -> Optional[FuncInfo]:
    try:
        cat, tg = repo.resolve_call(f, call)
    except Exception:
        return None
    tg = [t for t in tg if t[1] is not None]
    if cat != "repo" or len({t[1].qn for t in tg}) != 1:
        return None
    return tg[0][1]


class Step:
    """one private step of the conversion: the raw function and the names of its parameters by role"""

    def __init__(self, raw: FuncInfo, roles: Dict[str, str]):
        self.raw, self.roles = raw, roles

    def param(self, role: str) -> str:
        if role not in self.roles:
            raise AnalysisError(f"{self.raw.qn}: no parameter receives the {role} of convert_plan")
        return self.roles[role]


def discover(repo: Repo) -> Tuple[FuncInfo, Step, Step]:
    """(public anchor, extraction step, packing step)"""
    c = repo.func(ANCHOR)
    missing = [k for k in PUBLIC_ROLES if k not in c.params]
    if missing:
        raise AnalysisError(f"{ANCHOR}: public parameters {missing} not found")
    found = _discover_in(repo, c, {v: k for k, v in PUBLIC_ROLES.items()}, 0)
    if found is None:
        raise AnalysisError(f"{ANCHOR}: the calls that extract the action sequence from the plan text and that pack it into joint actions "
                            f"were not found (the steps are identified by their arguments: plan text + agent names / problem + sequence + agent names)")
    return (c,) + found


def _discover_in(repo: Repo, f: FuncInfo, roles: Dict[str, str], depth: int):
    p = L.prov(repo, f)
    e_call = None
    e_step = None

    def role_of(expr) -> Optional[str]:
        try:
            tr = p.trace(expr)
        except KeyError:
            return None
        if not tr:
            return None
        for role in ("AGENTS", "PROBLEM", "FLAG", "TEXT"):
            if role in roles and all(x == (f"param:{roles[role]}",) for x in tr):
                return role
        if e_call is not None and any(o is e_call for o in origins(p, expr)):
            return "PLAN"
        if "PATH" in roles:
            mine = [x for x in tr if x[0] == f"param:{roles['PATH']}"]
            if mine and all(x in mine or x[0].startswith(("const:", "ext:", "fresh:", "global:", "builtin:")) for x in tr):
                return "TEXT" if any(len(x) > 1 for x in mine) else "PATH"
        return None

    calls = sorted(L.calls_in(f.node), key=lambda c: (getattr(c, "lineno", 0), getattr(c, "col_offset", 0)))
    for c in calls:
        name = callee_name(c)
        if not is_private(name):
            continue
        t = unique_target(repo, f, c)
        if t is None or t.qn == f.qn:
            continue
        got: Dict[str, str] = {}
        for pn, a in bind_args(c, t).items():
            r = role_of(a)
            if r is not None and r not in got:
                got[r] = pn
        have = set(got)
        if {"AGENTS", "PROBLEM"} <= have and ("TEXT" in have or "PATH" in have) and depth < 2:
            sub = _discover_in(repo, t, got, depth + 1)
            if sub is not None:
                return sub
        if e_call is None and {"TEXT", "AGENTS"} <= have and "PROBLEM" not in have:
            e_call, e_step = c, Step(t, got)
            continue
        if e_call is not None and {"PLAN", "AGENTS", "PROBLEM"} <= have:
            return e_step, Step(t, got)
    return None


# --------------------------------------------------------------------------------------------------------------- extractors
EFFECT_TEXT = ("attr:grounded_effects", "elem", "attr:grounded_discrete_effects", "elem", "attr:untyped_representation")
NUMERIC_TARGET = ("attr:root", "attr:children", "item:0", "attr:value", "attr:untyped_representation")
PATTERNS = (
    (EFFECT_TEXT, "disc"),
    (("attr:grounded_effects", "elem", "attr:grounded_numeric_effects", "elem") + NUMERIC_TARGET, "num"),
    (("attr:grounded_preconditions", "elem") + NUMERIC_TARGET, "numpre"),
    (("attr:grounded_preconditions", "elem", "attr:untyped_representation"), "pre"),
)


def _polarity_matcher(e):
    if isinstance(e, ast.Attribute) and e.attr == "is_positive" and isinstance(e.ctx, ast.Load):
        return "pos"
    return None


CONTAINER_PASS = {"arg0:set", "arg0:frozenset", "arg0:list", "arg0:sorted", "arg0:tuple", "call:copy", "call:union", "arg0:union",
                  "binop:BitOr:l", "binop:BitOr:r", "aug:BitOr", "aug:Add", "binop:Add:l", "binop:Add:r"}


def normalise(path: tuple) -> Optional[tuple]:
    """`(.., 'in:<i>', 'unpack:<j>' | 'item:<j>', ..)`: component j of a tuple / list literal is its j-th element -- the pair cancels for
    i == j and the path is spurious otherwise (helpers that return tuples and were inlined)"""
    x = list(path)
    k = 0
    while k < len(x) - 1:
        a, b = x[k], x[k + 1]
        if a.startswith("in:") and a[3:].isdigit() and (b.startswith("unpack:") or b.startswith("item:")) and b.split(":", 1)[1].isdigit():
            if a[3:] != b.split(":", 1)[1]:
                return None
            del x[k:k + 2]
            k = max(k - 1, 0)
            continue
        k += 1
    return tuple(x)


def _content_only(steps: tuple) -> bool:
    """the remaining steps only move the element into / between containers (`for e in a: b.add(e)` is 'elem' then 'in:add@b')"""
    return all(s.startswith("in:") or s in CONTAINER_PASS or s == "elem" for s in steps) and not (steps and steps[-1] == "elem")


ELEMENT_IN = ("in:append@", "in:add@", "in:elt", "in:insert@", "in:setitem@")
CONTAINER_MOVE = ("in:update@", "in:extend@")


def _cancel_iteration(steps: tuple) -> tuple:
    """put into a container, then iterate the container: the same element (`pos = [e for e in xs if c]; {e.t for e in pos}`)"""
    out: List[str] = []
    for s in steps:
        if s == "elem":
            k = len(out) - 1
            while k >= 0 and (out[k].startswith(CONTAINER_MOVE) or out[k] in CONTAINER_PASS):
                k -= 1
            if k >= 0 and (out[k].startswith(ELEMENT_IN) or (out[k].startswith("in:") and out[k][3:].isdigit())):
                del out[k:]
                continue
        out.append(s)
    return tuple(out)


FIELD_ROOTS = ("attr:grounded_effects", "attr:grounded_preconditions")


def direct_kinds(path: tuple) -> List[Tuple[tuple, str]]:
    """(provenance of the operator, field kind) when the path says: an element of this container is a grounded literal text /
    numeric target read out of an operator"""
    out = []
    for j in range(1, len(path)):
        if path[j] not in FIELD_ROOTS:
            continue
        tail = _cancel_iteration(path[j:])
        for pat, kind in PATTERNS:
            m = len(pat)
            if tail[:m] == pat:
                rest = tail[m:]
                if rest and rest[0].startswith("in:") and _content_only(rest):
                    out.append((path[:j], kind))
                break
        break
    return out


class Polarised:
    """element kinds of set-valued expressions of one (flattened) function; 'disc' becomes add / del by the valuation of is_positive"""

    def __init__(self, repo: Repo, f: FuncInfo, extractors: Optional["Extractors"] = None):
        self.repo, self.f = repo, f
        self.p = L.prov(repo, f)
        self.ex = extractors
        G = L.Guards(f, _polarity_matcher)
        if "pos" in G.atoms_seen:
            self.unders = {True: G.under({"pos": True}), False: G.under({"pos": False})}
        else:
            self.unders = {True: None, False: None}
        self._cache: Dict[int, Set[Tuple[tuple, str]]] = {}

    def _path_kinds(self, x: tuple) -> List[Tuple[tuple, str, bool]]:
        out = [(pre, k, k != "disc") for pre, k in direct_kinds(x)]
        if self.ex is not None:
            for i, s in enumerate(x):
                m = re.match(r"arg(\d+):(.+)$", s)
                if not m or m.group(2) not in self.ex.by_name:
                    continue
                nxt = x[i + 1] if i + 1 < len(x) else ""
                comp = None
                if nxt.startswith("unpack:") and nxt[7:].isdigit():
                    comp = int(nxt[7:])
                elif nxt.startswith("item:") and nxt[5:].isdigit():
                    comp = int(nxt[5:])
                rest = x[i + 1 + (0 if comp is None else 1):]
                if _content_only(rest):
                    for k in self.ex.kinds(m.group(2), int(m.group(1)), comp):
                        out.append((x[:i], k, True))
                break
        return out

    def kinds(self, e: ast.AST) -> Set[Tuple[tuple, str]]:
        """{(provenance of the operator the elements are read from, add|del|num|pre|numpre)}"""
        if id(e) in self._cache:
            return self._cache[id(e)]
        by: Dict[Tuple[tuple, str, bool], Set[bool]] = {}
        for pos in (True, False):
            try:
                tr = self.p.trace(e, under=self.unders[pos])
            except KeyError:
                tr = set()
            for x in short(tr):
                x = normalise(x)
                if x is None:
                    continue
                for pre, k, final in self._path_kinds(x):
                    by.setdefault((pre, k, final), set()).add(pos)
        out: Set[Tuple[tuple, str]] = set()
        for (pre, k, final), ps in by.items():
            if final:
                out.add((pre, k))
            else:
                if True in ps:
                    out.add((pre, "add"))
                if False in ps:
                    out.add((pre, "del"))
                if ps == {True, False} and self.unders[True] is not None:
                    pass  # both polarities end up in the same set: reported as add and del
        self._cache[id(e)] = out
        return out


class Extractors:
    """private functions reachable from the packing step that map an operator parameter to set(s) of literal texts"""

    def __init__(self, repo: Repo, start: FuncInfo):
        self.repo = repo
        self.by_name: Dict[str, Dict[Optional[int], Set[Tuple[int, str]]]] = {}
        self.qns: List[str] = []
        seen: Set[str] = {start.qn}
        queue = [start]
        while queue:
            g = queue.pop(0)
            for c in L.calls_in(g.node):
                if not is_private(callee_name(c)):
                    continue
                t = unique_target(repo, g, c)
                if t is None or t.qn in seen:
                    continue
                seen.add(t.qn)
                s = self._summary(t)
                if s is None:
                    queue.append(t)
                else:
                    self.by_name[t.name] = s
                    self.qns.append(t.qn)

    def _summary(self, t: FuncInfo) -> Optional[Dict[Optional[int], Set[Tuple[int, str]]]]:
        ft = flatten_full(self.repo, t)
        rets = [n for n in ast.walk(ft.node) if isinstance(n, ast.Return)]
        if not rets or any(r.value is None for r in rets):
            return None
        pol = Polarised(self.repo, ft)
        params = list(ft.params[1:] if ft.is_method else ft.params)
        out: Dict[Optional[int], Set[Tuple[int, str]]] = {}
        for r in rets:
            os_ = origins(pol.p, r.value)
            comps: List[Tuple[Optional[int], ast.AST]]
            if len(os_) == 1 and isinstance(os_[0], ast.Tuple):
                comps = list(enumerate(os_[0].elts))
            else:
                comps = [(None, r.value)]
            for idx, e in comps:
                ks = set()
                for pre, k in pol.kinds(e):
                    if len(pre) == 1 and pre[0].startswith("param:") and pre[0][6:] in params:
                        ks.add((params.index(pre[0][6:]), k))
                if not ks:
                    return None
                out.setdefault(idx, set()).update(ks)
        return out

    def kinds(self, name: str, arg: int, comp: Optional[int]) -> Set[str]:
        s = self.by_name.get(name, {})
        if comp in s:
            return {k for i, k in s[comp] if i == arg}
        return set()


# --------------------------------------------------------------------------------------------------------------- verdict algebra
REQUIRED_PAIRS = [("acc.add", "next.del"), ("acc.del", "next.add"), ("acc.pre", "next.del"), ("acc.num", "next.num"),
                  ("acc.numpre", "next.num"), ("acc.num", "next.numpre")]


def pair_name(a: str, b: str) -> str:
    return "&".join(sorted((a, b)))


class Verdict:
    """semantic atoms of the packing loop and their truth value under a scenario {atom: bool}

    atoms:  'occupied'   -- the slot the candidate would take holds something else than nop
            'applicable' -- <operator>.is_applicable(<state>)
            'pair:<a>&<b>' -- the sets with roles a and b share an element (roles: acc|next . add|del|num|pre|numpre)"""

    def __init__(self, repo: Repo, f: FuncInfo, plan_param: str, slot_ids: Set[int], extractors: Extractors, nop_value):
        self.repo, self.f = repo, f
        self.p = L.prov(repo, f)
        self.plan = f"param:{plan_param}"
        self.slot_ids = slot_ids
        self.pol = Polarised(repo, f, extractors)
        self.nop_root = f"const:{nop_value!r}"
        self._atom_cache: Dict[int, Optional[Tuple[str, bool]]] = {}
        self._role_cache: Dict[int, Optional[str]] = {}
        self.pairs_seen: Set[str] = set()

    # -- operands
    @staticmethod
    def res(e: ast.AST, env: Optional[Dict[str, ast.AST]]) -> ast.AST:
        n = 0
        while env and isinstance(e, ast.Name) and e.id in env and n < 8:
            e = env[e.id]
            n += 1
        return e

    def who_of(self, pre: tuple) -> Optional[str]:
        if not pre:
            return None
        if pre[0] == self.plan and len(pre) > 1 and pre[1] == "item:0" and "elem" not in pre and not any(s.startswith("in:") for s in pre):
            return "next"
        if "elem" in pre:
            i = pre.index("elem")
            if any(s.startswith(("in:setitem@", "in:elt", "in:append@", "in:setval@", "in:insert@")) for s in pre[:i]):
                return "acc"
            if pre[0].startswith("param:") and pre[0] != self.plan:
                return "acc"
        return None

    def role(self, e: ast.AST, env=None) -> Optional[str]:
        e = self.res(e, env)
        if id(e) in self._role_cache:
            return self._role_cache[id(e)]
        ks = self.pol.kinds(e)
        out = None
        if ks:
            whos = {self.who_of(pre) for pre, _k in ks} - {None}
            who = "next" if whos == {"next"} else ("acc" if whos == {"acc"} else ("mixed" if whos else "unknown"))
            out = who + "." + "/".join(sorted({k for _p, k in ks}))
        self._role_cache[id(e)] = out
        return out

    def is_nop(self, e: ast.AST) -> bool:
        try:
            tr = self.p.trace(e)
        except KeyError:
            return False
        return bool(tr) and all(len(x) == 1 and x[0].startswith(("const:", "global:")) for x in tr) and any(x[0] == self.nop_root for x in tr) \
            and all(x[0] == self.nop_root for x in tr if x[0].startswith("const:"))

    def is_slot_item(self, e: ast.AST) -> bool:
        """e is SLOTS[<position of the candidate's agent>] (directly or through a local): the index is computed from the agent
        component of the head of the remaining plan"""
        for o in origins(self.p, e):
            if isinstance(o, ast.Subscript) and not isinstance(o.slice, (ast.Slice, ast.Constant)) and same_object(self.p, o.value, self.slot_ids):
                try:
                    key = short(self.p.trace(o.slice))
                except KeyError:
                    continue
                if any(t[0] == self.plan and len(t) > 2 and t[1] == "item:0" and t[2] in ("unpack:1", "item:1") and not any(s.startswith("in:") for s in t)
                       for t in key):
                    return True
        return False

    def _intersection(self, e: ast.AST, env) -> Optional[Tuple[ast.AST, ast.AST]]:
        """(A, B) when e evaluates to the common elements of A and B"""
        e = self.res(e, env)
        if isinstance(e, ast.Name):
            os_ = origins(self.p, e)
            if len(os_) != 1 or isinstance(os_[0], (ast.Name, ast.arg, ast.stmt)):
                return None
            e = os_[0]
        if isinstance(e, ast.Call) and isinstance(e.func, ast.Attribute) and e.func.attr == "intersection":
            if len(e.args) == 1 and not e.keywords:
                return e.func.value, e.args[0]
            if len(e.args) == 2 and isinstance(e.func.value, ast.Name) and e.func.value.id in ("set", "frozenset"):
                return e.args[0], e.args[1]
        if isinstance(e, ast.BinOp) and isinstance(e.op, ast.BitAnd):
            return e.left, e.right
        if isinstance(e, ast.Call) and isinstance(e.func, ast.Name) and e.func.id in ("set", "list", "sorted", "tuple", "frozenset") and len(e.args) == 1:
            return self._intersection(e.args[0], env)
        return None

    def _pair_atom(self, a: ast.AST, b: ast.AST, env, pol: bool) -> Optional[Tuple[str, bool]]:
        ra, rb = self.role(a, env), self.role(b, env)
        if ra is None or rb is None:
            return None
        name = "pair:" + pair_name(ra, rb)
        self.pairs_seen.add(pair_name(ra, rb))
        return name, pol

    def _nonempty(self, x: ast.AST, env, pol: bool) -> Optional[Tuple[str, bool]]:
        ab = self._intersection(x, env)
        if ab is None:
            r = self.role(x, env)           # a plain literal set: non-empty whenever a pair it takes part in has a common element
            return ("nonempty:" + r, pol) if r is not None else None
        return self._pair_atom(ab[0], ab[1], env, pol)

    def atom(self, e: ast.AST, env=None) -> Optional[Tuple[str, bool]]:
        if env is None and id(e) in self._atom_cache:
            return self._atom_cache[id(e)]
        out = self._atom(e, env)
        if env is None:
            self._atom_cache[id(e)] = out
        return out

    def _atom(self, e: ast.AST, env) -> Optional[Tuple[str, bool]]:
        if isinstance(e, ast.Call) and isinstance(e.func, ast.Attribute):
            if e.func.attr == "is_applicable":
                return "applicable", True
            if e.func.attr == "isdisjoint" and len(e.args) == 1:
                return self._pair_atom(e.func.value, e.args[0], env, False)
            if e.func.attr == "intersection":
                return self._nonempty(e, env, True)
        if isinstance(e, ast.BinOp) and isinstance(e.op, ast.BitAnd):
            return self._nonempty(e, env, True)
        if isinstance(e, ast.Call) and isinstance(e.func, ast.Name) and e.func.id == "len" and len(e.args) == 1:
            return self._nonempty(e.args[0], env, True)        # len(x) in a boolean context
        if isinstance(e, ast.Call) and isinstance(e.func, ast.Name) and e.func.id == "any" and len(e.args) == 1 \
                and isinstance(e.args[0], (ast.GeneratorExp, ast.ListComp)) and len(e.args[0].generators) == 1 and not e.args[0].generators[0].ifs:
            gen, elt = e.args[0].generators[0], e.args[0].elt
            # any(x in B for x in A)
            if isinstance(elt, ast.Compare) and len(elt.ops) == 1 and isinstance(elt.ops[0], ast.In) and isinstance(gen.target, ast.Name) \
                    and isinstance(elt.left, ast.Name) and elt.left.id == gen.target.id:
                return self._pair_atom(gen.iter, elt.comparators[0], env, True)
        if isinstance(e, ast.Name) and isinstance(e.ctx, ast.Load) and not (env and e.id in env):
            r_ = self.role(e, env)
            if r_ is not None and self._intersection(e, env) is None:
                return "nonempty:" + r_, True
        if isinstance(e, ast.Compare) and len(e.ops) == 1:
            l, r, op = e.left, e.comparators[0], e.ops[0]
            # len(X) <op> <int>
            for a, b, flip in ((l, r, False), (r, l, True)):
                if isinstance(a, ast.Call) and isinstance(a.func, ast.Name) and a.func.id == "len" and len(a.args) == 1 \
                        and isinstance(b, ast.Constant) and isinstance(b.value, int) and not isinstance(b.value, bool):
                    o = type(op)
                    if flip:
                        o = {ast.Lt: ast.Gt, ast.Gt: ast.Lt, ast.LtE: ast.GtE, ast.GtE: ast.LtE}.get(o, o)
                    v = b.value
                    nonempty = (o is ast.Gt and v == 0) or (o is ast.NotEq and v == 0) or (o is ast.GtE and v == 1)
                    empty = (o is ast.Eq and v == 0) or (o is ast.Lt and v == 1) or (o is ast.LtE and v == 0)
                    if nonempty or empty:
                        return self._nonempty(a.args[0], env, nonempty)
                    return None
            # <slot item>.name <op> nop
            if isinstance(op, (ast.Eq, ast.NotEq, ast.Is, ast.IsNot)):
                for a, b in ((l, r), (r, l)):
                    a = self.res(a, env)
                    if isinstance(a, ast.Name):
                        os_ = origins(self.p, a)
                        a = os_[0] if len(os_) == 1 else a
                    if isinstance(a, ast.Attribute) and a.attr == "name" and self.is_nop(self.res(b, env)) and self.is_slot_item(a.value):
                        return "occupied", isinstance(op, (ast.NotEq, ast.IsNot))
        return None

    # -- evaluation
    def rows(self, it: ast.AST, env) -> Optional[List[ast.AST]]:
        it = self.res(it, env)
        os_ = origins(self.p, it)
        if len(os_) != 1:
            return None
        o = os_[0]
        if isinstance(o, (ast.List, ast.Tuple, ast.Set)) and o.elts and not any(isinstance(x, ast.Starred) for x in o.elts):
            return list(o.elts)
        if isinstance(o, ast.Call) and isinstance(o.func, ast.Name) and o.func.id in ("list", "tuple") and len(o.args) == 1:
            return self.rows(o.args[0], env)
        if isinstance(o, ast.Call) and isinstance(o.func, ast.Name) and o.func.id == "zip" and len(o.args) >= 2 and not o.keywords:
            cols = [self.rows(a, env) for a in o.args]
            if any(c is None for c in cols) or len({len(c) for c in cols}) != 1:
                return None
            return [ast.Tuple(elts=list(r), ctx=ast.Load()) for r in zip(*cols)]
        return None

    @staticmethod
    def bind(target: ast.AST, row: ast.AST, env: Dict[str, ast.AST]) -> bool:
        if isinstance(target, ast.Name):
            env[target.id] = row
            return True
        if isinstance(target, (ast.Tuple, ast.List)) and isinstance(row, (ast.Tuple, ast.List)) and len(target.elts) == len(row.elts):
            return all(Verdict.bind(t, r, env) for t, r in zip(target.elts, row.elts))
        return False

    def tv(self, e: ast.AST, sc: Dict[str, bool], env=None) -> Optional[bool]:
        a = self.atom(e, env)
        if a is not None:
            name, pol = a
            if name in sc:
                return sc[name] if pol else (not sc[name])
            if name.startswith("pair:") and "pair:*" in sc:
                return sc["pair:*"] if pol else (not sc["pair:*"])
            return None
        if isinstance(e, ast.Call) and isinstance(e.func, ast.Name) and e.func.id in ("all", "any") and len(e.args) == 1 and not e.keywords \
                and isinstance(e.args[0], (ast.GeneratorExp, ast.ListComp, ast.SetComp)) and len(e.args[0].generators) == 1:
            comp = e.args[0]
            gen = comp.generators[0]
            rows = self.rows(gen.iter, env)
            if rows is None:
                return None
            vals = []
            for row in rows:
                env2 = dict(env or {})
                if not self.bind(gen.target, row, env2):
                    return None
                keep = [C.eval3(c, lambda x: self.tv(x, sc, env2)) for c in gen.ifs]
                if any(k is False for k in keep):
                    continue
                v = C.eval3(comp.elt, lambda x: self.tv(x, sc, env2))
                if any(k is None for k in keep):
                    v = None if v is not (e.func.id == "all") else v     # a row that may be filtered out can only be neutral
                vals.append(v)
            if e.func.id == "all":
                if any(v is False for v in vals):
                    return False
                return True if all(v is True for v in vals) else None
            if any(v is True for v in vals):
                return True
            return False if all(v is False for v in vals) else None
        if isinstance(e, ast.Call) and isinstance(e.func, ast.Name) and e.func.id in ("all", "any") and len(e.args) == 1 and not e.keywords \
                and not isinstance(e.args[0], (ast.GeneratorExp, ast.ListComp, ast.SetComp)):
            rows = self.rows(e.args[0], env)            # any([a & b, c & d, ...])
            if rows is None:
                return None
            vals = [C.eval3(row, lambda x: self.tv(x, sc, env)) for row in rows]
            if e.func.id == "all":
                if any(v is False for v in vals):
                    return False
                return True if all(v is True for v in vals) else None
            if any(v is True for v in vals):
                return True
            return False if all(v is False for v in vals) else None
        if env and isinstance(e, ast.Name) and e.id in env:
            return self.tv(env[e.id], sc, env)
        return None

    def matcher(self, sc: Dict[str, bool]):
        def m(e):
            v = self.tv(e, sc, None)
            return None if v is None else ("T" if v else "!T")
        return m

    def reach(self, sc: Dict[str, bool]) -> Set[int]:
        """CFG nodes reachable under the scenario: forward abstract interpretation with an environment of the boolean locals whose
        value is decided (flow-sensitive, refined by the branch taken, joined pointwise), so that flags that are accumulated over
        several tests (`ok = True; if a: ok = False; if ok: ok = b(); return ok`) are followed like early returns"""
        g = C.cfg_of(self.f.node)

        def val(env):
            def v(e):
                t = self.tv(e, sc, None)
                if t is not None:
                    return t
                if isinstance(e, ast.Name) and isinstance(e.ctx, ast.Load) and e.id in env:
                    return env[e.id]
                return None
            return v

        def refine(test, truth: bool, env: Dict[str, bool]) -> Dict[str, bool]:
            if isinstance(test, ast.Name):
                env = dict(env)
                env[test.id] = truth
                return env
            if isinstance(test, ast.UnaryOp) and isinstance(test.op, ast.Not):
                return refine(test.operand, not truth, env)
            if isinstance(test, ast.BoolOp) and isinstance(test.op, ast.And if truth else ast.Or):
                for x in test.values:
                    env = refine(x, truth, env)
            return env

        def transfer(n: int, env: Dict[str, bool]) -> Dict[str, bool]:
            st = g.stmt[n]
            names = C.defs_of(st)
            if not names:
                return env
            out = {k: v for k, v in env.items() if k not in names}
            tgt = None
            if isinstance(st, ast.Assign) and len(st.targets) == 1 and isinstance(st.targets[0], ast.Name):
                tgt = st.targets[0].id
            elif isinstance(st, ast.AnnAssign) and isinstance(st.target, ast.Name) and st.value is not None:
                tgt = st.target.id
            if tgt is not None:
                v = C.eval3(st.value, val(env))
                if v is not None:
                    out[tgt] = v
            return out

        IN: Dict[int, Optional[Dict[str, bool]]] = {n: None for n in g.nodes()}
        IN[g.entry] = {}
        work = [g.entry]
        steps = 0
        while work and steps < 20000:
            steps += 1
            n = work.pop()
            env = IN[n]
            kind, st = g.kind[n], g.stmt[n]
            out = transfer(n, env)
            tv_ = None
            test = None
            if kind == "if" or (kind == "loop" and isinstance(st, ast.While)) or kind == "assert":
                test = st.test
                tv_ = C.eval3(test, val(env))
            for m, l in g.succ[n]:
                e2 = out
                if test is not None:
                    truth = {True: True, False: False, "iter": True, "done": False, "ok": True, "fail": False}.get(l)
                    if truth is not None:
                        if tv_ is not None and tv_ != truth:
                            continue
                        e2 = refine(test, truth, out)
                old = IN[m]
                new = e2 if old is None else {k: v for k, v in old.items() if k in e2 and e2[k] == v}
                if old is None or new != old:
                    IN[m] = dict(new)
                    work.append(m)
        return {n for n in g.nodes() if IN[n] is not None}


def module_const(repo: Repo, modsuffix: str, name: str):
    m = repo.module(modsuffix)
    ok, v = repo.const_value(m.name, name)
    if not ok:
        raise AnalysisError(f"constant {modsuffix}.{name} cannot be folded")
    return v


def per_iteration(g: C.CFG, head: int, nodes: Set[int]) -> Tuple[bool, bool]:
    """(every iteration of the loop that comes back to the head or leaves the function normally passes one of `nodes`,
    no iteration passes two of them); paths that end in a raise are not iterations that lose anything silently"""
    entries = [m for m, l in g.succ[head] if l == "iter"]
    free: Set[int] = set()
    for m in entries:
        free |= C.reachable_from(g, m, avoid=set(nodes) | {head})
    back = any(head == m for n in free for m, _l in g.succ[n])
    at_least = not back and g.exit not in free and not any(e == head for e in entries)
    at_most = True
    for a in nodes:
        after: Set[int] = set()
        for m, _l in g.succ[a]:
            after |= C.reachable_from(g, m, avoid={head})
        if after & set(nodes):
            at_most = False
    return at_least, at_most
