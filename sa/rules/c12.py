"""C12 -- numeric expressions evaluate as arithmetic; comparisons use the stated tolerance."""
from __future__ import annotations

import ast
from typing import List

from .. import absval as A
from .. import lib as L
from ..core import AnalysisError, Repo, unparse
from ..prov import callee_name
from ..report import Finding, RuleResult

NE = "models.numerical_expression"

EXPLANATION = (
    "Static analysis of the operator tables and of the functions that evaluate, build and print expression trees. "
    "C12.arith: each lambda of NUMERICAL_BINARY_OPERATORS is normalised to a rational function and compared with x<op>y. "
    "C12.compare: each lambda of COMPARISON_OPERATORS is evaluated abstractly over the five orderings of (x,y) "
    "(far below, within tolerance below, equal, within tolerance above, far above) with math.isclose modelled as 'within "
    "tolerance'; the tolerance argument must derive from EPSILON=float(os.environ.get('EPSILON',..)) and rel_tol must be pinned to 0. "
    "C12.assign: increase/decrease/assign helpers are symbolically executed to old+v / old-v / v. "
    "C12.order: def-use chains show that child 0 is the left operand / assignment target and child 1 the right operand at every "
    "table call, tree construction and printer. C12.env: every environment value reaches numeric use through float()/int(). "
    "C12.tables: every operator accepted by the parsers is a key of the evaluator tables."
)
UNDECIDED = ("floating-point results of evaluation; print/re-read fidelity of values beyond operand order; the "
             "missing-fluent-reads-as-0 convention; evaluation of trees deeper than the recursion shows structurally")


def _numexp_funcs(repo: Repo):
    m = repo.module(NE)
    return [f for f in repo.all_funcs() if f.mod is m]


_OPERATOR_FUNCS = {"add": ast.Add, "sub": ast.Sub, "mul": ast.Mult, "truediv": ast.Div,
                   "lt": ast.Lt, "le": ast.LtE, "gt": ast.Gt, "ge": ast.GtE, "eq": ast.Eq, "ne": ast.NotEq}


def _as_lambda(repo: Repo, m, v: ast.AST):
    """a table value as a two-parameter lambda: a lambda, operator.<fn>, or a module-level function that just returns an expression"""
    if isinstance(v, ast.Lambda):
        return v
    name = None
    if isinstance(v, ast.Attribute) and isinstance(v.value, ast.Name) and v.value.id == "operator":
        name = v.attr
    elif isinstance(v, ast.Name):
        res = repo.lookup(m.name, v.id)
        if res and res[0] == "external" and v.id in _OPERATOR_FUNCS:
            name = v.id
        elif res and res[0] == "func":
            fi = repo.funcs.get(f"{repo.mods[res[2]].short}::{v.id}") if len(res) > 2 and res[2] in repo.mods else repo.func_opt(f"{m.short}::{v.id}")
            if fi is not None:
                body = [st for st in fi.node.body if not (isinstance(st, ast.Expr) and isinstance(st.value, ast.Constant))]
                if len(body) == 1 and isinstance(body[0], ast.Return) and body[0].value is not None and len(fi.params) == 2:
                    lam = ast.Lambda(args=fi.node.args, body=body[0].value)
                    return ast.copy_location(lam, fi.node)
            return None
    if name in _OPERATOR_FUNCS:
        op = _OPERATOR_FUNCS[name]
        x, y = ast.Name(id="x", ctx=ast.Load()), ast.Name(id="y", ctx=ast.Load())
        body = ast.BinOp(left=x, op=op(), right=y) if issubclass(op, ast.operator) else ast.Compare(left=x, ops=[op()], comparators=[y])
        lam = ast.Lambda(args=ast.arguments(posonlyargs=[], args=[ast.arg(arg="x"), ast.arg(arg="y")], kwonlyargs=[], kw_defaults=[], defaults=[]), body=body)
        return ast.fix_missing_locations(ast.copy_location(lam, v))
    return None


def rule_arith(repo: Repo) -> RuleResult:
    r = RuleResult("C12.arith", "NUMERICAL_BINARY_OPERATORS[k] computes x k y with x the first parameter",
                   "PDDL prefix operand order: (- a b) = a-b, (/ a b) = a/b")
    tab = L.table(repo, NE, "NUMERICAL_BINARY_OPERATORS")
    m = repo.module(NE)
    for key, exp in A.EXPECTED_ARITH.items():
        r.site(f"{NE}.NUMERICAL_BINARY_OPERATORS[{key!r}]")
        if key not in tab:
            r.fail(Finding("C12.arith", (m.short, "NUMERICAL_BINARY_OPERATORS", str(m.path)), f"table-key:{key}",
                           f"operator {key!r} missing from NUMERICAL_BINARY_OPERATORS"))
            continue
        lam = _as_lambda(repo, m, tab[key])
        if lam is None:
            raise AnalysisError(f"C12.arith: table value for {key!r} is not interpreted: {unparse(tab[key])}")
        try:
            got = A.arith_lambda(lam)
        except A.Uninterpretable as e:
            raise AnalysisError(f"C12.arith: {e}")
        if got.same(exp):
            r.ok({"key": key, "normal_form": repr(got)})
        else:
            r.fail(Finding("C12.arith", (m.short, "NUMERICAL_BINARY_OPERATORS", str(m.path)), f"table-value:{key}",
                           f"lambda for {key!r} computes {got!r}, expected {exp!r}", node=lam),
                   {"key": key, "normal_form": repr(got)})
    r.require_sites(4)
    return r


def rule_compare(repo: Repo) -> RuleResult:
    r = RuleResult("C12.compare", "COMPARISON_OPERATORS truth table over the 5 orderings; tolerance = EPSILON from the environment",
                   "'=', '<=', '>=' tolerant, '<', '>' strict")
    tab = L.table(repo, NE, "COMPARISON_OPERATORS")
    m = repo.module(NE)
    owner = (m.short, "COMPARISON_OPERATORS", str(m.path))
    A.HELPERS.clear()
    A.HELPERS.update({name: node for name, (kind, node) in m.defs.items() if kind == "func"})
    for key in ("=", "<=", ">=", "<", ">"):
        r.site(f"{NE}.COMPARISON_OPERATORS[{key!r}]")
        if key not in tab:
            r.fail(Finding("C12.compare", owner, f"table-key:{key}", f"comparison {key!r} missing from COMPARISON_OPERATORS"))
            continue
        lam = _as_lambda(repo, m, tab[key])
        if lam is None:
            raise AnalysisError(f"C12.compare: table value for {key!r} is not interpreted: {unparse(tab[key])}")
        try:
            row, uses = A.cmp_table(lam)
        except A.Uninterpretable as e:
            raise AnalysisError(f"C12.compare[{key}]: {e}")
        exp = A.EXPECTED_CMP[key]
        sample = {"key": key, "row": dict(zip(A.POINTS, row))}
        if row == exp:
            r.ok(sample)
        else:
            bad = [p for p, a, b in zip(A.POINTS, row, exp) if a != b]
            r.fail(Finding("C12.compare", owner, f"table-value:{key}",
                           f"lambda for {key!r} is wrong on orderings {bad}: got {row}, expected {exp}", node=lam), sample)
        for u in uses:
            # tolerance must be EPSILON which must be float(os.environ.get("EPSILON", ...))
            ok_tol = False
            if u.abs_tol is not None and isinstance(u.abs_tol, ast.Name):
                cn = repo.const_node(m.name, u.abs_tol.id)
                if cn is not None and _is_env_number(cn, "EPSILON"):
                    ok_tol = True
            if ok_tol:
                r.ok({"key": key, "abs_tol": unparse(u.abs_tol)})
            else:
                r.fail(Finding("C12.compare", owner, f"isclose:abs_tol:{key}",
                               f"tolerance of {key!r} is {unparse(u.abs_tol) if u.abs_tol is not None else 'absent'}, "
                               f"not the configured EPSILON=float(os.environ.get('EPSILON', ..))", node=u.call))
            rel_zero = isinstance(u.rel_tol, ast.Constant) and u.rel_tol.value == 0
            if rel_zero:
                r.ok({"key": key, "rel_tol": 0})
            else:
                r.fail(Finding("C12.compare", owner, f"isclose:rel_tol-default:{key}",
                               f"math.isclose for {key!r} leaves rel_tol at {unparse(u.rel_tol) if u.rel_tol is not None else 'its default 1e-9'}: "
                               f"above magnitude EPSILON/rel_tol the effective tolerance exceeds the configured one", node=u.call))
        if key in ("=", "<=", ">=") and not uses:
            r.fail(Finding("C12.compare", owner, f"isclose:missing:{key}", f"{key!r} does not use the tolerance at all", node=lam))
    r.require_sites(5)
    return r


def _is_env_number(node: ast.AST, var: str) -> bool:
    """float(os.environ.get(VAR, d)) / int(...) / float(os.getenv(VAR, d))"""
    if isinstance(node, ast.Call) and isinstance(node.func, ast.Name) and node.func.id in ("float", "int") and len(node.args) == 1:
        inner = node.args[0]
        if isinstance(inner, ast.Call) and ast.unparse(inner.func) in ("os.environ.get", "os.getenv", "environ.get", "getenv"):
            return bool(inner.args) and isinstance(inner.args[0], ast.Constant) and inner.args[0].value == var
        if isinstance(inner, ast.Subscript) and ast.unparse(inner.value) == "os.environ":
            return isinstance(inner.slice, ast.Constant) and inner.slice.value == var
    return False


def rule_assign(repo: Repo, rid: str = "C12.assign") -> RuleResult:
    r = RuleResult(rid, "ASSIGNMENT_EXPRESSIONS: increase -> old+v, decrease -> old-v, assign -> v",
                   "PDDL 2.1 numeric effects")
    tab = L.table(repo, NE, "ASSIGNMENT_EXPRESSIONS")
    m = repo.module(NE)
    owner = (m.short, "ASSIGNMENT_EXPRESSIONS", str(m.path))
    for key, exp in A.EXPECTED_ASSIGN.items():
        r.site(f"{NE}.ASSIGNMENT_EXPRESSIONS[{key!r}]")
        if key not in tab:
            r.fail(Finding(rid, owner, f"table-key:{key}", f"{key!r} missing from ASSIGNMENT_EXPRESSIONS"))
            continue
        v = tab[key]
        if isinstance(v, ast.Name):
            fi = repo.func_opt(f"{NE}::{v.id}")
            if fi is None:
                res = repo.lookup(m.name, v.id)
                if res and res[0] == "func":
                    fi = repo.funcs.get(f"{repo.mods[res[2]].short}::{v.id}")
            if fi is None:
                raise AnalysisError(f"{rid}: helper {v.id} for {key!r} not found")
            try:
                got = A.assignment_effect(L.fn(repo, fi.qn).node, lambda e: _as_lambda(repo, m, e))
            except A.Uninterpretable as e:
                raise AnalysisError(f"{rid}: {e}")
            where, node = fi, fi.node
        elif isinstance(v, ast.Lambda):
            raise AnalysisError(f"{rid}: lambda helpers are not interpreted for assignment ({key})")
        else:
            raise AnalysisError(f"{rid}: table value for {key!r} not interpreted: {unparse(v)}")
        if got.same(exp):
            r.ok({"key": key, "helper": where.qn, "sets_target_to": repr(got)})
        else:
            r.fail(Finding(rid, where, f"helper:{key}", f"{key!r} sets the target to {got!r}, expected {exp!r}", node=node),
                   {"key": key, "sets_target_to": repr(got)})
    r.require_sites(3)
    return r


def _child_indices(paths) -> set:
    """indices k such that some path goes through .children[k]"""
    out = set()
    for p in paths:
        for a, b in zip(p, p[1:]):
            if a == "attr:children" and b.startswith("item:"):
                out.add(b[5:])
    return out


def rule_order(repo: Repo, rid: str = "C12.order") -> RuleResult:
    from .. import strshape as S
    from ..inline import flatten
    r = RuleResult(rid, "child 0 is the left operand / assignment target, child 1 the right operand, at every use",
                   "PDDL prefix notation (op left right)")
    ne_mod = repo.module(NE)
    gu_mod = repo.module("models.grounding_utils")
    funcs = [flatten(repo, f) for f in repo.all_funcs() if f.mod in (ne_mod, gu_mod)]
    tables = {"NUMERICAL_BINARY_OPERATORS", "COMPARISON_OPERATORS", "ASSIGNMENT_EXPRESSIONS"}
    seen_kinds = set()
    done = set()

    def once(node, kind) -> bool:
        k = (getattr(node, "lineno", 0), getattr(node, "col_offset", 0), kind)
        if k in done:
            return False
        done.add(k)
        return True

    for f in funcs:
        p = L.prov(repo, f)
        for call in L.calls_in(f.node):
            # (a) calls through an operator table: TABLE[op](a, b), also through a local alias  fn = TABLE[op]; fn(a, b)
            if len(call.args) == 2 and not isinstance(call.func, ast.Attribute):
                try:
                    base = p.trace(call.func)
                except KeyError:
                    base = set()
                tabs = {x[0][7:] for x in base if x[0].startswith("global:") and x[1:] in (("item",), ("call:get",))} & tables
                if tabs and once(call, "table"):
                    r.site(L.site(f, call, "table call"))
                    seen_kinds |= {"table:" + t for t in tabs}
                    i0, i1 = _child_indices(p.trace(call.args[0])), _child_indices(p.trace(call.args[1]))
                    if i0 == {"0"} and i1 == {"1"}:
                        r.ok({"function": f.qn, "call": unparse(call), "arg0_from_child": sorted(i0), "arg1_from_child": sorted(i1)})
                    else:
                        r.fail(Finding(rid, f, f"table-call:{sorted(tabs)[0]}",
                                       f"operands of {unparse(call, 70)} come from children {sorted(i0)} and {sorted(i1)}; expected [0] and [1]",
                                       node=call))
            # (b) node construction with two children derived from children of another node / from the AST list
            if callee_name(call) == "AnyNode":
                valkw = [k.value for k in call.keywords if k.arg == "value"]
                if valkw and (isinstance(valkw[0], ast.Constant) or _all_constant(p, valkw[0])):
                    continue  # a new operator node (algebraic rewriting), not a copy / translation of an existing node
                for k in call.keywords:
                    if k.arg != "children":
                        continue
                    kids = _two_elements(p, k.value)
                    if kids is None:
                        continue
                    e0, e1 = p.trace(kids[0]), p.trace(kids[1])
                    i0, i1 = _child_indices(e0), _child_indices(e1)
                    if i0 or i1:
                        if not once(call, "rebuild"):
                            continue
                        r.site(L.site(f, call, "tree rebuild"))
                        seen_kinds.add("rebuild")
                        if i0 == {"0"} and i1 == {"1"}:
                            r.ok({"function": f.qn, "children": [unparse(x, 50) for x in kids]})
                        else:
                            r.fail(Finding(rid, f, "rebuild:children-order",
                                           f"rebuilt children come from source children {sorted(i0)} and {sorted(i1)}; expected [0] and [1]", node=call))
                    else:
                        # built from the parsed list: positions 1 and 2 of the AST
                        # position in the parsed list: by index or by unpacking (`op, left, right = ast`)
                        pos = lambda paths: {"item:" + s_.split(":", 1)[1] for pth in paths for s_ in pth
                                             if (s_.startswith("item:") or s_.startswith("unpack:")) and pth[0].startswith("param:")}
                        a0, a1 = pos(e0), pos(e1)
                        if (a0 or a1) and once(call, "construct"):
                            r.site(L.site(f, call, "tree construction"))
                            seen_kinds.add("construct")
                            rebuilt = sorted({pth[0] for pth in e0 | e1 if pth[0] in ("fresh:list", "fresh:tuple", "fresh:comp")})
                            if rebuilt:
                                # the operand handed to the recursion is a list assembled here, not a sub-term of the text as written
                                # (re-association of (- a b c) into (- a (- b c)) changes the value)
                                r.fail(Finding(rid, f, "construct:reassembled-operand",
                                               "an operand of the new node is a list assembled in the function instead of a sub-term of the parsed text: "
                                               "the formula that is stored is not the one that was written", node=call))
                            elif a0 == {"item:1"} and a1 == {"item:2"}:
                                r.ok({"function": f.qn, "children_from_ast_positions": [sorted(a0), sorted(a1)]})
                            else:
                                r.fail(Finding(rid, f, "construct:children-order",
                                               f"children built from AST positions {sorted(a0)} and {sorted(a1)}; expected [1] and [2]", node=call))
        # (c) printers: text that mentions results derived from children[0] and children[1], however it is assembled
        ev = None
        cands = [n.value for n in ast.walk(f.node) if isinstance(n, ast.Return) and n.value is not None] + \
                [n.value for n in ast.walk(f.node) if isinstance(n, ast.Assign) and len(n.targets) == 1 and isinstance(n.targets[0], ast.Name)
                 and n.targets[0].id.startswith("__ret__")]
        for e in cands:
            if not isinstance(e, (ast.JoinedStr, ast.BinOp, ast.Call, ast.Name)):
                continue
            if isinstance(e, ast.Call) and not (isinstance(e.func, ast.Attribute) and e.func.attr in ("format", "join")):
                continue
            ev = ev or S.Evaluator(repo, f)
            try:
                sh = ev.string(e)
            except Exception:
                continue
            if not S.literals(sh):
                continue
            seq = []
            for h in S.holes(sh):
                try:
                    idx = _child_indices(p.trace(h))
                except KeyError:
                    idx = set()
                if idx:
                    seq.append(sorted(idx))
            if len(seq) >= 2 and once(e, "printer"):
                r.site(L.site(f, e, "printer"))
                seen_kinds.add("printer")
                if seq == [["0"], ["1"]]:
                    r.ok({"function": f.qn, "template": unparse(e, 60), "operand_order": seq})
                else:
                    r.fail(Finding(rid, f, "printer:operand-order", f"printer {unparse(e, 60)} emits operands from children {seq}; expected [0] then [1]", node=e))
    need = {"table:" + t for t in tables} | {"construct", "rebuild", "printer"}
    if not need <= seen_kinds:
        raise AnalysisError(f"rule {rid}: no site of kind {sorted(need - seen_kinds)} found -- the anchors this rule needs have vanished")
    r.require_sites(6)
    return r


def _all_constant(p, e: ast.AST) -> bool:
    try:
        tr = p.trace(e)
    except KeyError:
        return False
    return bool(tr) and all(len(x) == 1 and x[0].startswith("const:") for x in tr)


def _two_elements(p, e: ast.AST):
    """[a, b] literal, or a local name whose single definition is one"""
    if isinstance(e, (ast.List, ast.Tuple)) and len(e.elts) == 2:
        return e.elts
    if isinstance(e, ast.Name):
        try:
            at = p.node_of(e)
        except KeyError:
            return None
        defs = [d for d in p.rd.defs_reaching(at, e.id) if d != p.g.entry]
        if len(defs) == 1:
            st = p.g.stmt[defs[0]]
            if isinstance(st, (ast.Assign, ast.AnnAssign)) and st.value is not None:
                return _two_elements(p, st.value) if not isinstance(st.value, ast.Name) else None
    return None


def rule_env(repo: Repo) -> RuleResult:
    r = RuleResult("C12.env", "every os.environ value reaches numeric use through float()/int()",
                   "EPSILON / NUMERIC_PRECISION are numbers")
    for m in repo.mods.values():
        for n in ast.walk(m.tree):
            if isinstance(n, ast.Call) and ast.unparse(n.func) in ("os.environ.get", "os.getenv"):
                var = n.args[0].value if n.args and isinstance(n.args[0], ast.Constant) else "?"
                r.site(f"{m.short}: os.environ.get({var!r})")
                # parent must be float()/int()
                par = None
                for p in ast.walk(m.tree):
                    for c in ast.iter_child_nodes(p):
                        if c is n:
                            par = p
                if isinstance(par, ast.Call) and isinstance(par.func, ast.Name) and par.func.id in ("float", "int"):
                    r.ok({"module": m.short, "var": var, "converted_by": par.func.id})
                else:
                    owner = (m.short, "<module>", str(m.path))
                    r.fail(Finding("C12.env", owner, f"env:{var}", f"os.environ.get({var!r}, ..) is used without float()/int(): "
                                   f"when the variable is set the value is a str", node=n))
    r.require_sites(2)
    return r


def rule_tables(repo: Repo, rid: str = "C12.tables") -> RuleResult:
    r = RuleResult(rid, "operators the parsers accept are keys of the evaluator tables",
                   "_validate_numeric_expression_hold turns a KeyError into 'false', so a missing key is silent")
    pu = "lisp_parsers.parsing_utils"
    checks = [
        ("ASSIGNMENT_OPS", L.const_list(repo, pu, "ASSIGNMENT_OPS"), "ASSIGNMENT_EXPRESSIONS", NE),
        ("COMPARISON_OPS+=", L.const_list(repo, pu, "COMPARISON_OPS") + [L.const_list(repo, pu, "EQUALITY_OPERATOR")[0]], "COMPARISON_OPERATORS", NE),
        ("LEGAL_GOAL_OPERATORS", L.const_list(repo, "lisp_parsers.problem_parser", "LEGAL_GOAL_OPERATORS"), "COMPARISON_OPERATORS", NE),
        ("LEGAL_NUMERIC_OPERATORS", L.const_list(repo, NE, "LEGAL_NUMERIC_OPERATORS"), "NUMERICAL_BINARY_OPERATORS", NE),
        ("BINARY_OPERATORS", L.const_list(repo, pu, "BINARY_OPERATORS"), "BinaryOperator", "models.grounded_precondition"),
    ]
    for name, accepted, tabname, modsfx in checks:
        tab = L.table(repo, modsfx, tabname)
        m = repo.module(modsfx)
        for op in accepted:
            r.site(f"{name}:{op} in {tabname}")
            if op in tab:
                r.ok({"accepted_by": name, "operator": op, "table": tabname})
            else:
                r.fail(Finding(rid, (m.short, tabname, str(m.path)), f"missing-key:{op}",
                               f"operator {op!r} accepted via {name} has no entry in {tabname}"))
    r.require_sites(12)
    return r


def _recursion_children(repo: Repo, f: FuncInfo, p) -> set:
    """the child positions the tree walk descends into: self-recursive calls of the function, or of a private helper it hands the node to
    (a recursive generator that yields the leaves, a recursive worker) -- recursion cannot be analysed in place, so the helper is read
    on its own"""
    def every_child(fi: FuncInfo, pv, c: ast.Call) -> bool:
        """the call descends into the element of a walk over `.children` that visits every child: the argument is the element of the
        loop it sits in, and no turn of that loop can end the walk (break / return) before the remaining children are reached"""
        tr = pv.trace(c.args[0])
        if not tr or not all(len(x) >= 3 and x[-2:] == ("attr:children", "elem") for x in tr):
            return False
        loops = [lp for lp in ast.walk(fi.node) if isinstance(lp, ast.For) and any(x is c for x in ast.walk(lp))]
        if not loops:
            return True     # a comprehension / generator over the children: every element is visited
        G = L.Guards(fi, lambda e: None)
        return not any(L.leaves_loop_early(G, {}, lp) for lp in loops)

    def own(fi: FuncInfo, pv) -> set:
        out = set()
        for c in L.calls_in(fi.node):
            if (isinstance(c.func, ast.Name) and c.func.id == fi.name and c.args) or \
                    (isinstance(c.func, ast.Attribute) and c.func.attr == fi.name and fi.cls and c.args):
                out |= _child_indices(pv.trace(c.args[0]))
                if every_child(fi, pv, c):
                    out |= {"0", "1"}
        return out

    idx = own(f, p)
    if idx:
        return idx
    seen = {f.qn}
    work = [f]
    for _ in range(3):
        nxt = []
        for fi in work:
            for c in L.calls_in(fi.node):
                _cat, tg = repo.resolve_call(fi, c)
                for _k, t, _c in tg:
                    if t is None or t.qn in seen or t.mod is not f.mod or not t.name.startswith("_"):
                        continue
                    seen.add(t.qn)
                    ft = L.fn(repo, t.qn.split("::", 1)[1] if t.cls else t.qn)
                    got = own(ft, L.prov(repo, ft))
                    if got:
                        return got
                    nxt.append(ft)
        work = nxt
    return set()


def rule_leaf(repo: Repo) -> RuleResult:
    """calculate(): a leaf evaluates to its function's value or to its own constant; inner nodes recurse on both children."""
    r = RuleResult("C12.leaf", "calculate: leaf -> fluent value / constant, inner node -> table applied to both recursive results",
                   "ordinary arithmetic on the current fluent values")
    f = L.fn(repo, f"{NE}::calculate")
    p = L.prov(repo, f)
    r.site(f.qn)
    rets = L.func_returns(f)
    kinds = set()
    for ret in rets:
        if ret.value is None:
            continue
        tr = p.trace(ret.value)
        for pth in tr:
            s = "/".join(pth)
            if "attr:value/attr:value" in s or ("attr:value" in s and ("call:value" in s or s.endswith("attr:value/attr:value"))):
                kinds.add("fluent")
        if isinstance(ret.value, ast.Subscript) or isinstance(ret.value, ast.Call):
            pass
    # structural: two recursive self-calls exist
    idx = _recursion_children(repo, f, p)
    if idx == {"0", "1"}:
        r.ok({"recursive_calls_on_children": sorted(idx)})
    else:
        r.fail(Finding("C12.leaf", f, "recursion:children", f"calculate recurses on children {sorted(idx)}; expected both 0 and 1"))
    # set_expression_value visits both children
    g = L.fn(repo, f"{NE}::set_expression_value")
    pg = L.prov(repo, g)
    r.site(g.qn)
    idx = _recursion_children(repo, g, pg)
    if idx == {"0", "1"}:
        r.ok({"set_expression_value_recurses_on": sorted(idx)})
    else:
        r.fail(Finding("C12.leaf", g, "recursion:children", f"set_expression_value recurses on children {sorted(idx)}; expected both 0 and 1"))
    r.require_sites(2)
    return r


def rule_missing(repo: Repo, rid: str = "C12.missing") -> RuleResult:
    """reading the state into an expression: every fluent leaf gets the value the STATE gives it, or 0 when the state does not mention it --
    never a value the tree still holds from an earlier evaluation (in another state)"""
    r = RuleResult(rid, "set_expression_value stores the state's value of the fluent, or the constant 0 for a fluent the state does not mention",
                   "conditions and effects are evaluated on the current values of the fluents (an absent fluent reads as 0)")
    f = L.fn(repo, f"{NE}::set_expression_value")
    p = L.prov(repo, f)
    node_param = f.params[0]
    state_param = f.params[1] if len(f.params) > 1 else None
    stores = [c for c in L.calls_in(f.node) if isinstance(c.func, ast.Attribute) and c.func.attr == "set_value" and len(c.args) == 1]
    if not stores or state_param is None:
        raise AnalysisError("set_expression_value: no set_value(..) store of a fluent value found")
    from_state = False
    for c in stores:
        r.site(L.site(f, c, "fluent value"))
        tr = p.trace(c.args[0])
        stale = sorted(x for x in tr if x[0] == f"param:{node_param}")
        other = sorted(x for x in tr if not (x[0] == f"param:{state_param}" or x[0] in ("const:0", "const:0.0") or x[0] == f"param:{node_param}"
                                             or (x[0].startswith("param:") and "askey" in x)))
        if any(x[0] == f"param:{state_param}" for x in tr):
            from_state = True
        if stale:
            r.fail(Finding(rid, f, "stale-value", f"{unparse(c, 60)} can store a value taken from the expression tree itself ({stale[0][:4]}..): a fluent that the state "
                           f"does not mention keeps the value of an earlier evaluation instead of 0", node=c))
        elif other:
            r.fail(Finding(rid, f, "value-source", f"{unparse(c, 60)} stores a value that is neither the state's nor the constant 0: {other[0][:4]}", node=c))
        else:
            r.ok({"store": unparse(c, 60)})
    if not from_state:
        r.fail(Finding(rid, f, "state-not-read", "no stored value comes from the state's fluents"))
    return r


def rules(repo: Repo, tier: str) -> List[RuleResult]:
    from . import c13
    return [c13.rule_round(repo, "C12.round", ["NumericalExpressionTree.to_pddl", "NumericalExpressionTree.to_mathematical"]),
            c13.rule_digits(repo, "C12.digits", (NE,)), rule_arith(repo), rule_compare(repo), rule_assign(repo), rule_order(repo), rule_env(repo), rule_tables(repo),
            rule_leaf(repo), rule_missing(repo)]
