"""C12 -- numeric expressions evaluate as arithmetic; comparisons use the stated tolerance."""
from __future__ import annotations

import ast
from typing import List

from .. import absval as A
from .. import lib as L
from ..core import AnalysisError, Repo, unparse
from ..prov import callee_name
from ..report import Finding, RuleResult

NE = "models.numerical_expression"

EXPLANATION = (
    "Static analysis of the operator tables and of the functions that evaluate, build and print expression trees. "
    "C12.arith: each lambda of NUMERICAL_BINARY_OPERATORS is normalised to a rational function and compared with x<op>y. "
    "C12.compare: each lambda of COMPARISON_OPERATORS is evaluated abstractly over the five orderings of (x,y) "
    "(far below, within tolerance below, equal, within tolerance above, far above) with math.isclose modelled as 'within "
    "tolerance'; the tolerance argument must derive from EPSILON=float(os.environ.get('EPSILON',..)) and rel_tol must be pinned to 0. "
    "C12.assign: increase/decrease/assign helpers are symbolically executed to old+v / old-v / v. "
    "C12.order: def-use chains show that child 0 is the left operand / assignment target and child 1 the right operand at every "
    "table call, tree construction and printer. C12.env: every environment value reaches numeric use through float()/int(). "
    "C12.tables: every operator accepted by the parsers is a key of the evaluator tables. "
    "C12.construct / C12.leaf / C12.missing / C12.branch: the guards of construct_expression_tree, calculate, set_expression_value and "
    "evaluate_expression are decided for each concrete class of input (number token, (op a b) over numbers, fluent with 0..2 written "
    "arguments, compound expression; fluent leaf, number leaf, operator node; each assignment / comparison root operator) and the "
    "provenance of what is returned / stored / applied on the paths that stay reachable is compared with what that class denotes."
)
UNDECIDED = ("floating-point results of evaluation; print/re-read fidelity of values beyond operand order; the "
             "missing-fluent-reads-as-0 convention; evaluation of trees deeper than the recursion shows structurally")


def _numexp_funcs(repo: Repo):
    m = repo.module(NE)
    return [f for f in repo.all_funcs() if f.mod is m]


_OPERATOR_FUNCS = {"add": ast.Add, "sub": ast.Sub, "mul": ast.Mult, "truediv": ast.Div,
                   "lt": ast.Lt, "le": ast.LtE, "gt": ast.Gt, "ge": ast.GtE, "eq": ast.Eq, "ne": ast.NotEq}


def _sans_doc(body):
    return [st for st in body if not (isinstance(st, ast.Expr) and isinstance(st.value, ast.Constant))]


def _substitute(expr: ast.AST, mapping: dict) -> ast.AST:
    """a copy of the expression with the (free) names of `mapping` replaced by copies of the mapped expressions; the parameters of a
    lambda inside the expression shadow the mapping"""
    import copy

    class Sub(ast.NodeTransformer):
        def __init__(self, mp):
            self.mp = mp

        def visit_Name(self, n):
            return copy.deepcopy(self.mp[n.id]) if isinstance(n.ctx, ast.Load) and n.id in self.mp else n

        def visit_Lambda(self, n):
            own = {a.arg for a in n.args.args}
            inner = {k: v_ for k, v_ in self.mp.items() if k not in own}
            n.body = Sub(inner).visit(n.body)
            return n

    return Sub(dict(mapping)).visit(copy.deepcopy(expr))


def _module_function(repo: Repo, m, name: str):
    res = repo.lookup(m.name, name)
    if res and res[0] == "func":
        return repo.funcs.get(f"{repo.mods[res[2]].short}::{name}") if len(res) > 2 and res[2] in repo.mods else repo.func_opt(f"{m.short}::{name}")
    return None


def _def_as_lambda(fn: ast.FunctionDef):
    """`def f(p, q): return <expr>` (docstring allowed, no defaults / *args) as `lambda p, q: <expr>`"""
    a = fn.args
    if a.vararg or a.kwarg or a.kwonlyargs or a.defaults or a.posonlyargs:
        return None
    body = _sans_doc(fn.body)
    if len(body) == 1 and isinstance(body[0], ast.Return) and body[0].value is not None:
        return ast.copy_location(ast.Lambda(args=a, body=body[0].value), fn)
    return None


def _factory_result(repo: Repo, m, call: ast.Call, depth: int):
    """FACTORY(args) where FACTORY is a module-level function that defines a nested function / lambda and returns it: that function with
    the factory's parameters bound to the argument EXPRESSIONS (nothing of the repository is executed: the closure is written out)"""
    if not isinstance(call.func, ast.Name) or depth > 6:
        return None
    fi = _module_function(repo, m, call.func.id)
    if fi is None:
        return None
    a = fi.node.args
    if a.vararg or a.kwarg or a.kwonlyargs or a.posonlyargs:
        return None
    params = [x.arg for x in a.args]
    bind = dict(zip(params, call.args))
    if len(call.args) > len(params) or any(k.arg is None or k.arg not in params or k.arg in bind for k in call.keywords):
        return None
    bind.update({k.arg: k.value for k in call.keywords})
    for pname, d in zip(params[len(params) - len(a.defaults):], a.defaults):
        bind.setdefault(pname, d)
    if set(bind) != set(params):
        return None
    body = _sans_doc(fi.node.body)
    if not body or not isinstance(body[-1], ast.Return) or body[-1].value is None:
        return None
    local = {}
    for st in body[:-1]:
        if isinstance(st, ast.FunctionDef):
            local[st.name] = _def_as_lambda(st)
        elif isinstance(st, ast.Assign) and len(st.targets) == 1 and isinstance(st.targets[0], ast.Name) and isinstance(st.value, ast.Lambda):
            local[st.targets[0].id] = st.value
        else:
            return None
    ret = body[-1].value
    inner = local.get(ret.id) if isinstance(ret, ast.Name) else ret if isinstance(ret, ast.Lambda) else None
    if not isinstance(inner, ast.Lambda):
        return None
    own = {x.arg for x in inner.args.args}
    lam = ast.Lambda(args=inner.args, body=_substitute(inner.body, {k: v_ for k, v_ in bind.items() if k not in own}))
    lam.body = _reduce_calls(repo, m, lam.body, depth + 1)
    return ast.fix_missing_locations(ast.copy_location(lam, call))


def _reduce_calls(repo: Repo, m, expr: ast.AST, depth: int = 0) -> ast.AST:
    """beta-reduction of the calls whose callee is a function VALUE that can be written out (`operator.lt(x, y)` -> `x < y`, a lambda,
    a one-expression module function, the result of a factory): what remains are calls of library functions such as math.isclose"""
    if depth > 6:
        return expr

    class Red(ast.NodeTransformer):
        def visit_Call(self, n):
            self.generic_visit(n)
            if n.keywords or any(isinstance(x, ast.Starred) for x in n.args):
                return n
            f = _as_lambda(repo, m, n.func, depth + 1)
            if f is None or len(f.args.args) != len(n.args):
                return n
            body = _substitute(f.body, dict(zip([x.arg for x in f.args.args], n.args)))
            return _reduce_calls(repo, m, body, depth + 1)

    return Red().visit(expr)


def as_lambda(repo: Repo, m, v: ast.AST):
    """public name of _as_lambda: a table value of module `m` as a lambda (None when it cannot be written out)"""
    return _as_lambda(repo, m, v)


def _as_lambda(repo: Repo, m, v: ast.AST, depth: int = 0):
    """a table value as a two-parameter lambda: a lambda, operator.<fn>, a module-level function that just returns an expression, or
    the closure returned by a module-level factory call (`_tolerant(operator.lt)`), written out with the factory's parameters bound"""
    if isinstance(v, ast.Lambda):
        return v
    if isinstance(v, ast.Call):
        return _factory_result(repo, m, v, depth)
    name = None
    if isinstance(v, ast.Attribute) and isinstance(v.value, ast.Name) and v.value.id == "operator":
        name = v.attr
    elif isinstance(v, ast.Name):
        res = repo.lookup(m.name, v.id)
        if res and res[0] == "external" and v.id in _OPERATOR_FUNCS:
            name = v.id
        elif res and res[0] == "func":
            fi = repo.funcs.get(f"{repo.mods[res[2]].short}::{v.id}") if len(res) > 2 and res[2] in repo.mods else repo.func_opt(f"{m.short}::{v.id}")
            if fi is not None:
                body = [st for st in fi.node.body if not (isinstance(st, ast.Expr) and isinstance(st.value, ast.Constant))]
                if len(body) == 1 and isinstance(body[0], ast.Return) and body[0].value is not None and len(fi.params) == 2:
                    lam = ast.Lambda(args=fi.node.args, body=body[0].value)
                    return ast.copy_location(lam, fi.node)
            return None
    if name in _OPERATOR_FUNCS:
        op = _OPERATOR_FUNCS[name]
        x, y = ast.Name(id="x", ctx=ast.Load()), ast.Name(id="y", ctx=ast.Load())
        body = ast.BinOp(left=x, op=op(), right=y) if issubclass(op, ast.operator) else ast.Compare(left=x, ops=[op()], comparators=[y])
        lam = ast.Lambda(args=ast.arguments(posonlyargs=[], args=[ast.arg(arg="x"), ast.arg(arg="y")], kwonlyargs=[], kw_defaults=[], defaults=[]), body=body)
        return ast.fix_missing_locations(ast.copy_location(lam, v))
    return None


def rule_arith(repo: Repo) -> RuleResult:
    r = RuleResult("C12.arith", "NUMERICAL_BINARY_OPERATORS[k] computes x k y with x the first parameter",
                   "PDDL prefix operand order: (- a b) = a-b, (/ a b) = a/b")
    tab = L.table(repo, NE, "NUMERICAL_BINARY_OPERATORS")
    m = repo.module(NE)
    for key, exp in A.EXPECTED_ARITH.items():
        r.site(f"{NE}.NUMERICAL_BINARY_OPERATORS[{key!r}]")
        if key not in tab:
            r.fail(Finding("C12.arith", (m.short, "NUMERICAL_BINARY_OPERATORS", str(m.path)), f"table-key:{key}",
                           f"operator {key!r} missing from NUMERICAL_BINARY_OPERATORS"))
            continue
        lam = _as_lambda(repo, m, tab[key])
        if lam is None:
            raise AnalysisError(f"C12.arith: table value for {key!r} is not interpreted: {unparse(tab[key])}")
        try:
            got = A.arith_lambda(lam)
        except A.Uninterpretable as e:
            raise AnalysisError(f"C12.arith: {e}")
        if got.same(exp):
            r.ok({"key": key, "normal_form": repr(got)})
        else:
            r.fail(Finding("C12.arith", (m.short, "NUMERICAL_BINARY_OPERATORS", str(m.path)), f"table-value:{key}",
                           f"lambda for {key!r} computes {got!r}, expected {exp!r}", node=lam),
                   {"key": key, "normal_form": repr(got)})
    r.require_sites(4)
    return r


def rule_compare(repo: Repo) -> RuleResult:
    r = RuleResult("C12.compare", "COMPARISON_OPERATORS truth table over the 5 orderings; tolerance = EPSILON from the environment",
                   "'=', '<=', '>=' tolerant, '<', '>' strict")
    tab = L.table(repo, NE, "COMPARISON_OPERATORS")
    m = repo.module(NE)
    owner = (m.short, "COMPARISON_OPERATORS", str(m.path))
    A.HELPERS.clear()
    A.HELPERS.update({name: node for name, (kind, node) in m.defs.items() if kind == "func"})
    for key in ("=", "<=", ">=", "<", ">"):
        r.site(f"{NE}.COMPARISON_OPERATORS[{key!r}]")
        if key not in tab:
            r.fail(Finding("C12.compare", owner, f"table-key:{key}", f"comparison {key!r} missing from COMPARISON_OPERATORS"))
            continue
        lam = _as_lambda(repo, m, tab[key])
        if lam is None:
            raise AnalysisError(f"C12.compare: table value for {key!r} is not interpreted: {unparse(tab[key])}")
        try:
            row, uses = A.cmp_table(lam)
        except A.Uninterpretable as e:
            raise AnalysisError(f"C12.compare[{key}]: {e}")
        exp = A.EXPECTED_CMP[key]
        sample = {"key": key, "row": dict(zip(A.POINTS, row))}
        if row == exp:
            r.ok(sample)
        else:
            bad = [p for p, a, b in zip(A.POINTS, row, exp) if a != b]
            r.fail(Finding("C12.compare", owner, f"table-value:{key}",
                           f"lambda for {key!r} is wrong on orderings {bad}: got {row}, expected {exp}", node=lam), sample)
        for u in uses:
            # tolerance must be EPSILON which must be float(os.environ.get("EPSILON", ...))
            ok_tol = False
            if u.abs_tol is not None and isinstance(u.abs_tol, ast.Name):
                cn = repo.const_node(m.name, u.abs_tol.id)
                if cn is not None and _is_env_number(cn, "EPSILON"):
                    ok_tol = True
            if ok_tol:
                r.ok({"key": key, "abs_tol": unparse(u.abs_tol)})
            else:
                r.fail(Finding("C12.compare", owner, f"isclose:abs_tol:{key}",
                               f"tolerance of {key!r} is {unparse(u.abs_tol) if u.abs_tol is not None else 'absent'}, "
                               f"not the configured EPSILON=float(os.environ.get('EPSILON', ..))", node=u.call))
            rel_zero = isinstance(u.rel_tol, ast.Constant) and u.rel_tol.value == 0
            if rel_zero:
                r.ok({"key": key, "rel_tol": 0})
            else:
                r.fail(Finding("C12.compare", owner, f"isclose:rel_tol-default:{key}",
                               f"math.isclose for {key!r} leaves rel_tol at {unparse(u.rel_tol) if u.rel_tol is not None else 'its default 1e-9'}: "
                               f"above magnitude EPSILON/rel_tol the effective tolerance exceeds the configured one", node=u.call))
        if key in ("=", "<=", ">=") and not uses:
            r.fail(Finding("C12.compare", owner, f"isclose:missing:{key}", f"{key!r} does not use the tolerance at all", node=lam))
    r.require_sites(5)
    return r


def _is_env_number(node: ast.AST, var: str) -> bool:
    """float(os.environ.get(VAR, d)) / int(...) / float(os.getenv(VAR, d))"""
    if isinstance(node, ast.Call) and isinstance(node.func, ast.Name) and node.func.id in ("float", "int") and len(node.args) == 1:
        inner = node.args[0]
        if isinstance(inner, ast.Call) and ast.unparse(inner.func) in ("os.environ.get", "os.getenv", "environ.get", "getenv"):
            return bool(inner.args) and isinstance(inner.args[0], ast.Constant) and inner.args[0].value == var
        if isinstance(inner, ast.Subscript) and ast.unparse(inner.value) == "os.environ":
            return isinstance(inner.slice, ast.Constant) and inner.slice.value == var
    return False


def rule_assign(repo: Repo, rid: str = "C12.assign") -> RuleResult:
    r = RuleResult(rid, "ASSIGNMENT_EXPRESSIONS: increase -> old+v, decrease -> old-v, assign -> v",
                   "PDDL 2.1 numeric effects")
    tab = L.table(repo, NE, "ASSIGNMENT_EXPRESSIONS")
    m = repo.module(NE)
    owner = (m.short, "ASSIGNMENT_EXPRESSIONS", str(m.path))
    for key, exp in A.EXPECTED_ASSIGN.items():
        r.site(f"{NE}.ASSIGNMENT_EXPRESSIONS[{key!r}]")
        if key not in tab:
            r.fail(Finding(rid, owner, f"table-key:{key}", f"{key!r} missing from ASSIGNMENT_EXPRESSIONS"))
            continue
        v = tab[key]
        if isinstance(v, ast.Name):
            fi = repo.func_opt(f"{NE}::{v.id}")
            if fi is None:
                res = repo.lookup(m.name, v.id)
                if res and res[0] == "func":
                    fi = repo.funcs.get(f"{repo.mods[res[2]].short}::{v.id}")
            if fi is None:
                raise AnalysisError(f"{rid}: helper {v.id} for {key!r} not found")
            try:
                got = A.assignment_effect(L.fn(repo, fi.qn).node, lambda e: _as_lambda(repo, m, e))
            except A.Uninterpretable as e:
                raise AnalysisError(f"{rid}: {e}")
            where, node = fi, fi.node
        elif isinstance(v, ast.Lambda):
            raise AnalysisError(f"{rid}: lambda helpers are not interpreted for assignment ({key})")
        else:
            raise AnalysisError(f"{rid}: table value for {key!r} not interpreted: {unparse(v)}")
        if got.same(exp):
            r.ok({"key": key, "helper": where.qn, "sets_target_to": repr(got)})
        else:
            r.fail(Finding(rid, where, f"helper:{key}", f"{key!r} sets the target to {got!r}, expected {exp!r}", node=node),
                   {"key": key, "sets_target_to": repr(got)})
    r.require_sites(3)
    return r


def _norm_path(path: tuple) -> tuple:
    """positions in one vocabulary: a component taken by unpacking is the component taken by index (`a, b = xs` / `xs[0], xs[1]`), and
    the i-th element of the tail from k on is element k+i (`head, *rest = xs; rest[0]` / `xs[1:][0]` / `xs[1]`)"""
    out = []
    for st in path:
        if st.startswith("unpack:") and st[7:].isdigit():
            st = "item:" + st[7:]
        if st.startswith("item:") and st[5:].isdigit() and out and out[-1].startswith("slice:") and out[-1].endswith(":") and out[-1][6:-1].isdigit():
            out[-1] = f"item:{int(out[-1][6:-1]) + int(st[5:])}"
            continue
        out.append(st)
    return tuple(out)


def _norm(paths) -> set:
    return {_norm_path(x) for x in paths}


def _child_indices(paths) -> set:
    """indices k such that some path goes through .children[k]"""
    out = set()
    for p in _norm(paths):
        for a, b in zip(p, p[1:]):
            if a == "attr:children" and b.startswith("item:"):
                out.add(b[5:])
    return out


def rule_order(repo: Repo, rid: str = "C12.order") -> RuleResult:
    from .. import strshape as S
    from ..inline import flatten
    r = RuleResult(rid, "child 0 is the left operand / assignment target, child 1 the right operand, at every use",
                   "PDDL prefix notation (op left right)")
    ne_mod = repo.module(NE)
    gu_mod = repo.module("models.grounding_utils")
    funcs = [flatten(repo, f) for f in repo.all_funcs() if f.mod in (ne_mod, gu_mod)]
    tables = {"NUMERICAL_BINARY_OPERATORS", "COMPARISON_OPERATORS", "ASSIGNMENT_EXPRESSIONS"}
    seen_kinds = set()
    done = set()

    def once(node, kind) -> bool:
        k = (getattr(node, "lineno", 0), getattr(node, "col_offset", 0), kind)
        if k in done:
            return False
        done.add(k)
        return True

    for f in funcs:
        p = L.prov(repo, f)
        for call in L.calls_in(f.node):
            # (a) calls through an operator table: TABLE[op](a, b), also through a local alias  fn = TABLE[op]; fn(a, b)
            if len(call.args) == 2 and not isinstance(call.func, ast.Attribute):
                try:
                    base = p.trace(call.func)
                except KeyError:
                    base = set()
                tabs = {x[0][7:] for x in base if x[0].startswith("global:") and x[1:] in (("item",), ("call:get",))} & tables
                if tabs and once(call, "table"):
                    r.site(L.site(f, call, "table call"))
                    seen_kinds |= {"table:" + t for t in tabs}
                    i0, i1 = _child_indices(p.trace(call.args[0])), _child_indices(p.trace(call.args[1]))
                    if i0 == {"0"} and i1 == {"1"}:
                        r.ok({"function": f.qn, "call": unparse(call), "arg0_from_child": sorted(i0), "arg1_from_child": sorted(i1)})
                    else:
                        r.fail(Finding(rid, f, f"table-call:{sorted(tabs)[0]}",
                                       f"operands of {unparse(call, 70)} come from children {sorted(i0)} and {sorted(i1)}; expected [0] and [1]",
                                       node=call))
            # (b) node construction with two children derived from children of another node / from the AST list
            if callee_name(call) == "AnyNode":
                valkw = [k.value for k in call.keywords if k.arg == "value"]
                if valkw and (isinstance(valkw[0], ast.Constant) or _all_constant(p, valkw[0])):
                    continue  # a new operator node (algebraic rewriting), not a copy / translation of an existing node
                for k in call.keywords:
                    if k.arg != "children":
                        continue
                    for kids in _two_elements_all(p, k.value):
                        e0, e1 = p.trace(kids[0]), p.trace(kids[1])
                        i0, i1 = _child_indices(e0), _child_indices(e1)
                        if i0 or i1:
                            if not once(kids[0], "rebuild"):
                                continue
                            r.site(L.site(f, call, "tree rebuild"))
                            seen_kinds.add("rebuild")
                            if i0 == {"0"} and i1 == {"1"}:
                                r.ok({"function": f.qn, "children": [unparse(x, 50) for x in kids]})
                            else:
                                r.fail(Finding(rid, f, "rebuild:children-order",
                                               f"rebuilt children come from source children {sorted(i0)} and {sorted(i1)}; expected [0] and [1]", node=call))
                        else:
                            # built from the parsed list: positions 1 and 2 of the AST
                            # position in the parsed list: by index or by unpacking (`op, left, right = ast`)
                            pos = lambda paths: {s_ for pth in _norm(paths) for s_ in pth if s_.startswith("item:") and pth[0].startswith("param:")}
                            a0, a1 = pos(e0), pos(e1)
                            if (a0 or a1) and once(kids[0], "construct"):
                                r.site(L.site(f, call, "tree construction"))
                                seen_kinds.add("construct")
                                rebuilt = sorted({pth[0] for pth in e0 | e1 if pth[0] in ("fresh:list", "fresh:tuple", "fresh:comp")})
                                if rebuilt:
                                    # the operand handed to the recursion is a list assembled here, not a sub-term of the text as written
                                    # (re-association of (- a b c) into (- a (- b c)) changes the value)
                                    r.fail(Finding(rid, f, "construct:reassembled-operand",
                                                   "an operand of the new node is a list assembled in the function instead of a sub-term of the parsed text: "
                                                   "the formula that is stored is not the one that was written", node=call))
                                elif a0 == {"item:1"} and a1 == {"item:2"}:
                                    r.ok({"function": f.qn, "children_from_ast_positions": [sorted(a0), sorted(a1)]})
                                else:
                                    r.fail(Finding(rid, f, "construct:children-order",
                                                   f"children built from AST positions {sorted(a0)} and {sorted(a1)}; expected [1] and [2]", node=call))
        # (c) printers: text that mentions results derived from children[0] and children[1], however it is assembled
        ev = None
        cands = [n.value for n in ast.walk(f.node) if isinstance(n, ast.Return) and n.value is not None] + \
                [n.value for n in ast.walk(f.node) if isinstance(n, ast.Assign) and len(n.targets) == 1 and isinstance(n.targets[0], ast.Name)
                 and n.targets[0].id.startswith("__ret__")]
        for e in cands:
            if not isinstance(e, (ast.JoinedStr, ast.BinOp, ast.Call, ast.Name)):
                continue
            if isinstance(e, ast.Call) and not (isinstance(e.func, ast.Attribute) and e.func.attr in ("format", "join")):
                continue
            ev = ev or S.Evaluator(repo, f)
            try:
                sh = ev.string(e)
            except Exception:
                continue
            if not S.literals(sh):
                continue
            seq = []
            for h in S.holes(sh):
                try:
                    idx = _child_indices(p.trace(h))
                except KeyError:
                    idx = set()
                if idx:
                    seq.append(sorted(idx))
            if len(seq) >= 2 and once(e, "printer"):
                r.site(L.site(f, e, "printer"))
                seen_kinds.add("printer")
                if seq == [["0"], ["1"]]:
                    r.ok({"function": f.qn, "template": unparse(e, 60), "operand_order": seq})
                else:
                    r.fail(Finding(rid, f, "printer:operand-order", f"printer {unparse(e, 60)} emits operands from children {seq}; expected [0] then [1]", node=e))
    need = {"table:" + t for t in tables} | {"construct", "rebuild", "printer"}
    if not need <= seen_kinds:
        raise AnalysisError(f"rule {rid}: no site of kind {sorted(need - seen_kinds)} found -- the anchors this rule needs have vanished")
    r.require_sites(6)
    return r


def _all_constant(p, e: ast.AST) -> bool:
    try:
        tr = p.trace(e)
    except KeyError:
        return False
    return bool(tr) and all(len(x) == 1 and x[0].startswith("const:") for x in tr)


def _two_elements_all(p, e: ast.AST) -> list:
    """the two-element displays an expression can denote: the display itself, or -- for a local name -- the display of each of its
    definitions (`kids = [a, b]` in one branch, `kids = [c, d]` in the other)"""
    one = _two_elements(p, e)
    if one is not None:
        return [one]
    out = []
    if isinstance(e, ast.Name):
        try:
            at = p.node_of(e)
        except KeyError:
            return []
        for d in sorted(d for d in p.rd.defs_reaching(at, e.id) if d != p.g.entry):
            st = p.g.stmt[d]
            if isinstance(st, (ast.Assign, ast.AnnAssign)) and st.value is not None and not isinstance(st.value, ast.Name):
                got = _two_elements(p, st.value)
                if got is not None:
                    out.append(got)
    return out


def _two_elements(p, e: ast.AST):
    """[a, b] literal, or a local name whose single definition is one"""
    if isinstance(e, (ast.List, ast.Tuple)) and len(e.elts) == 2:
        return e.elts
    if isinstance(e, ast.Name):
        try:
            at = p.node_of(e)
        except KeyError:
            return None
        defs = [d for d in p.rd.defs_reaching(at, e.id) if d != p.g.entry]
        if len(defs) == 1:
            st = p.g.stmt[defs[0]]
            if isinstance(st, (ast.Assign, ast.AnnAssign)) and st.value is not None:
                return _two_elements(p, st.value) if not isinstance(st.value, ast.Name) else None
    return None


def rule_env(repo: Repo) -> RuleResult:
    r = RuleResult("C12.env", "every os.environ value reaches numeric use through float()/int()",
                   "EPSILON / NUMERIC_PRECISION are numbers")
    for m in repo.mods.values():
        for n in ast.walk(m.tree):
            if isinstance(n, ast.Call) and ast.unparse(n.func) in ("os.environ.get", "os.getenv"):
                var = n.args[0].value if n.args and isinstance(n.args[0], ast.Constant) else "?"
                r.site(f"{m.short}: os.environ.get({var!r})")
                # parent must be float()/int()
                par = None
                for p in ast.walk(m.tree):
                    for c in ast.iter_child_nodes(p):
                        if c is n:
                            par = p
                if isinstance(par, ast.Call) and isinstance(par.func, ast.Name) and par.func.id in ("float", "int"):
                    r.ok({"module": m.short, "var": var, "converted_by": par.func.id})
                else:
                    owner = (m.short, "<module>", str(m.path))
                    r.fail(Finding("C12.env", owner, f"env:{var}", f"os.environ.get({var!r}, ..) is used without float()/int(): "
                                   f"when the variable is set the value is a str", node=n))
    # one setting, one default: every read of the same variable falls back to the same number (otherwise the parts of one expression that
    # are printed by different modules are cut at different precisions when the variable is not set)
    defaults = {}
    for m in repo.mods.values():
        for n in ast.walk(m.tree):
            if isinstance(n, ast.Call) and ast.unparse(n.func) in ("os.environ.get", "os.getenv") and len(n.args) == 2 \
                    and isinstance(n.args[0], ast.Constant) and isinstance(n.args[0].value, str):
                ok, v = repo.fold(n.args[1], m.name)
                try:
                    num = float(v) if ok and not isinstance(v, bool) else None
                except (TypeError, ValueError):
                    num = None
                if num is not None:
                    defaults.setdefault(n.args[0].value, []).append((m.short, num, m, n))
    for var, reads in sorted(defaults.items()):
        if len(reads) < 2:
            continue
        if len({num for _s, num, _m, _n in reads}) == 1:
            r.ok({"var": var, "default": reads[0][1], "reads": len(reads)})
        else:
            reads.sort(key=lambda x: x[0])
            m = reads[0][2]
            r.fail(Finding("C12.env", (m.short, "<module>", str(m.path)), f"env-default:{var}",
                           f"{var} falls back to different defaults: " + ", ".join(f"{s_}: {num:g}" for s_, num, _m, _n in reads) +
                           " -- with the variable unset the modules disagree about the configured value", node=reads[0][3]))
    r.require_sites(2)
    return r


def rule_tables(repo: Repo, rid: str = "C12.tables") -> RuleResult:
    r = RuleResult(rid, "operators the parsers accept are keys of the evaluator tables",
                   "_validate_numeric_expression_hold turns a KeyError into 'false', so a missing key is silent")
    pu = "lisp_parsers.parsing_utils"
    checks = [
        ("ASSIGNMENT_OPS", L.const_list(repo, pu, "ASSIGNMENT_OPS"), "ASSIGNMENT_EXPRESSIONS", NE),
        ("COMPARISON_OPS+=", L.const_list(repo, pu, "COMPARISON_OPS") + [L.const_list(repo, pu, "EQUALITY_OPERATOR")[0]], "COMPARISON_OPERATORS", NE),
        ("LEGAL_GOAL_OPERATORS", L.const_list(repo, "lisp_parsers.problem_parser", "LEGAL_GOAL_OPERATORS"), "COMPARISON_OPERATORS", NE),
        ("LEGAL_NUMERIC_OPERATORS", L.const_list(repo, NE, "LEGAL_NUMERIC_OPERATORS"), "NUMERICAL_BINARY_OPERATORS", NE),
        ("BINARY_OPERATORS", L.const_list(repo, pu, "BINARY_OPERATORS"), "BinaryOperator", "models.grounded_precondition"),
    ]
    for name, accepted, tabname, modsfx in checks:
        tab = L.table(repo, modsfx, tabname)
        m = repo.module(modsfx)
        for op in accepted:
            r.site(f"{name}:{op} in {tabname}")
            if op in tab:
                r.ok({"accepted_by": name, "operator": op, "table": tabname})
            else:
                r.fail(Finding(rid, (m.short, tabname, str(m.path)), f"missing-key:{op}",
                               f"operator {op!r} accepted via {name} has no entry in {tabname}"))
    r.require_sites(12)
    return r


def _recursion_children(repo: Repo, f: FuncInfo, p) -> set:
    """the child positions the tree walk descends into: self-recursive calls of the function, or of a private helper it hands the node to
    (a recursive generator that yields the leaves, a recursive worker) -- recursion cannot be analysed in place, so the helper is read
    on its own"""
    def every_child(fi: FuncInfo, pv, c: ast.Call) -> bool:
        """the call descends into the element of a walk over `.children` that visits every child: the argument is the element of the
        loop it sits in, and no turn of that loop can end the walk (break / return) before the remaining children are reached"""
        tr = pv.trace(c.args[0])
        if not tr or not all(len(x) >= 3 and x[-2:] == ("attr:children", "elem") for x in tr):
            return False
        loops = [lp for lp in ast.walk(fi.node) if isinstance(lp, ast.For) and any(x is c for x in ast.walk(lp))]
        if not loops:
            return True     # a comprehension / generator over the children: every element is visited
        G = L.Guards(fi, lambda e: None)
        return not any(L.leaves_loop_early(G, {}, lp) for lp in loops)

    def own(fi: FuncInfo, pv) -> set:
        out = set()
        for c in L.calls_in(fi.node):
            if (isinstance(c.func, ast.Name) and c.func.id == fi.name and c.args) or \
                    (isinstance(c.func, ast.Attribute) and c.func.attr == fi.name and fi.cls and c.args):
                out |= _child_indices(pv.trace(c.args[0]))
                if every_child(fi, pv, c):
                    out |= {"0", "1"}
        return out

    idx = own(f, p)
    if idx:
        return idx
    seen = {f.qn}
    work = [f]
    for _ in range(3):
        nxt = []
        for fi in work:
            for c in L.calls_in(fi.node):
                _cat, tg = repo.resolve_call(fi, c)
                for _k, t, _c in tg:
                    if t is None or t.qn in seen or t.mod is not f.mod or not t.name.startswith("_"):
                        continue
                    seen.add(t.qn)
                    ft = L.fn(repo, t.qn.split("::", 1)[1] if t.cls else t.qn)
                    got = own(ft, L.prov(repo, ft))
                    if got:
                        return got
                    nxt.append(ft)
        work = nxt
    return set()


def rule_leaf(repo: Repo) -> RuleResult:
    """calculate(): a leaf evaluates to its function's value or to its own constant; inner nodes recurse on both children."""
    r = RuleResult("C12.leaf", "calculate: leaf -> fluent value / constant, inner node -> table applied to both recursive results",
                   "ordinary arithmetic on the current fluent values")
    f = L.fn(repo, f"{NE}::calculate")
    p = L.prov(repo, f)
    r.site(f.qn)
    rets = L.func_returns(f)
    kinds = set()
    for ret in rets:
        if ret.value is None:
            continue
        tr = p.trace(ret.value)
        for pth in tr:
            s = "/".join(pth)
            if "attr:value/attr:value" in s or ("attr:value" in s and ("call:value" in s or s.endswith("attr:value/attr:value"))):
                kinds.add("fluent")
        if isinstance(ret.value, ast.Subscript) or isinstance(ret.value, ast.Call):
            pass
    # structural: two recursive self-calls exist
    idx = _recursion_children(repo, f, p)
    if idx == {"0", "1"}:
        r.ok({"recursive_calls_on_children": sorted(idx)})
    else:
        r.fail(Finding("C12.leaf", f, "recursion:children", f"calculate recurses on children {sorted(idx)}; expected both 0 and 1"))
    # set_expression_value visits both children
    g = L.fn(repo, f"{NE}::set_expression_value")
    pg = L.prov(repo, g)
    r.site(g.qn)
    idx = _recursion_children(repo, g, pg)
    if idx == {"0", "1"}:
        r.ok({"set_expression_value_recurses_on": sorted(idx)})
    else:
        r.fail(Finding("C12.leaf", g, "recursion:children", f"set_expression_value recurses on children {sorted(idx)}; expected both 0 and 1"))
    _leaf_scenes(repo, r, f, p, g, pg)
    r.require_sites(2)
    return r


# the classes of node an evaluator is handed
_OPERATOR_FN = {"+": ("Add", "add"), "-": ("Sub", "sub"), "*": ("Mult", "mul"), "/": ("Div", "truediv")}   # operator -> (ast BinOp, operator.<fn>)


def _node_classify(N: str):
    """what an expression of a tree walk denotes, by provenance: the node's children (a sequence), its is_leaf flag, its value (an object
    -- PDDLFunction / number / operator string -- and, when a string, the operator token)"""
    def classify(tr: frozenset):
        if len(tr) != 1:
            return None
        (x,) = tuple(tr)
        if x == (f"param:{N}", "attr:children"):
            return {"seq": 0}
        if x == (f"param:{N}", "attr:is_leaf"):
            return {"flag": "leaf"}
        if x == (f"param:{N}", "attr:value"):
            return {"obj": "value", "token": "op"}
        return None
    return classify


_FLUENT_LEAF = {"len": 0, "leaf": True, "isa:value": "PDDLFunction"}
_NUMBER_LEAF = {"len": 0, "leaf": True, "isa:value": "float"}
_inner = lambda op: {"len": 2, "leaf": False, "isa:value": "str", "op": op}


def _leaf_scenes(repo: Repo, r: RuleResult, f, p, g, pg) -> None:
    """calculate / set_expression_value decided per class of node (fluent leaf, number leaf, operator node): what is returned, and that
    the walk descends into both children of an operator node"""
    from ._c12_util import Scenes, returns_under
    rid = r.rule
    N = f.params[0]
    sc = Scenes(repo, f, p, _node_classify(N))
    G = L.Guards(f, sc.matcher)
    done = set()

    def fail(fi, role, text, node=None):
        if (fi.qn, role) not in done:
            done.add((fi.qn, role))
            r.fail(Finding(rid, fi, role, text, node=node))

    def returned(scene):
        val = sc.valuation(G, scene)
        seen = G.reach(val)
        under = G.under(val, seen)
        return [(ret, _safe_trace(p, ret.value, under=under)) for ret in returns_under(G, seen)]

    for scene, what, want, role in ((_FLUENT_LEAF, "a fluent leaf", {(f"param:{N}", "attr:value", "attr:value")}, "leaf:fluent-value"),
                                    (_NUMBER_LEAF, "a number leaf", {(f"param:{N}", "attr:value")}, "leaf:number-value")):
        r.site(f"{f.qn}: {what}")
        rets = returned(scene)
        if not rets:
            fail(f, role, f"calculate never returns for {what}")
        for ret, tr in rets:
            if tr == want:
                r.ok({"node": what, "returns": "/".join(sorted(want)[0][1:])})
            else:
                fail(f, role, f"for {what} calculate returns {sorted(tr)[:2] or 'nothing it was given'}, expected {'the current value of the fluent (node.value.value)' if 'fluent' in what else 'the number held by the node (node.value)'}", ret)
    for op, (bin_name, fn_name) in _OPERATOR_FN.items():
        r.site(f"{f.qn}: operator node {op}")
        rets = returned(_inner(op))
        if not rets:
            fail(f, "inner:result", f"calculate never returns for an operator node ({op} a b)")
        for ret, tr in rets:
            sides = {}
            bad = []
            for x in tr:
                if x[0] != f"param:{N}":
                    continue
                k = next((i for i in range(len(x) - 3) if x[i + 1] == "attr:children" and x[i + 2].startswith("item:")
                          and x[i + 3] == f"arg0:{f.name}"), None)
                if k is None or len(x) != k + 5:
                    bad.append(x)
                    continue
                child, last = x[k + 2][5:], x[-1]
                if last.startswith("binop:"):
                    _b, nm, side = last.split(":")
                    if nm != bin_name or side != ("l" if child == "0" else "r"):
                        bad.append(x)
                elif last.startswith("arg") and ":" in last:
                    pos, callee = last[3:].split(":", 1)
                    if pos != child or (callee in [v[1] for v in _OPERATOR_FN.values()] and callee != fn_name):
                        bad.append(x)
                else:
                    bad.append(x)
                sides[child] = True
            if bad or set(sides) != {"0", "1"}:
                fail(f, "inner:result", f"for an operator node ({op} a b) calculate returns {sorted(bad or tr)[:2] or 'nothing it computed'}: expected "
                     f"value(child 0) {op} value(child 1)", ret)
            else:
                r.ok({"node": f"({op} a b)", "returns": f"value(child 0) {op} value(child 1)"})
    # set_expression_value: an operator node hands the state on to both children
    Ng = g.params[0]
    scg = Scenes(repo, g, pg, _node_classify(Ng))
    Gg = L.Guards(g, scg.matcher)
    val = scg.valuation(Gg, _inner("+"))
    seen = Gg.reach(val)
    under = Gg.under(val, seen)
    reached = set()
    for e in ast.walk(g.node):
        if isinstance(e, (ast.Subscript, ast.Name)) and isinstance(e.ctx, ast.Load):
            tr = _safe_trace(pg, e, under=under)
            if len(tr) == 1 and next(iter(tr))[:2] == (f"param:{Ng}", "attr:children") and len(next(iter(tr))) == 3 and Gg.reaches_expr(val, e, seen=seen):
                reached.add(next(iter(tr))[2])
    r.site(f"{g.qn}: operator node")
    if {"item:0", "item:1"} <= reached:
        r.ok({"set_expression_value_descends_for_operator_node": sorted(reached)})
    else:
        fail(g, "descent:unreachable", f"for an operator node set_expression_value reaches only {sorted(reached) or 'none'} of its two children: the fluents "
             f"below it keep the values of an earlier state")


def rule_missing(repo: Repo, rid: str = "C12.missing") -> RuleResult:
    """reading the state into an expression: every fluent leaf gets the value the STATE gives it, or 0 when the state does not mention it --
    never a value the tree still holds from an earlier evaluation (in another state)"""
    r = RuleResult(rid, "set_expression_value stores the state's value of the fluent, or the constant 0 for a fluent the state does not mention",
                   "conditions and effects are evaluated on the current values of the fluents (an absent fluent reads as 0)")
    f = L.fn(repo, f"{NE}::set_expression_value")
    p = L.prov(repo, f)
    node_param = f.params[0]
    state_param = f.params[1] if len(f.params) > 1 else None
    stores = [c for c in L.calls_in(f.node) if isinstance(c.func, ast.Attribute) and c.func.attr == "set_value" and len(c.args) == 1]
    if not stores or state_param is None:
        raise AnalysisError("set_expression_value: no set_value(..) store of a fluent value found")
    from_state = False
    for c in stores:
        r.site(L.site(f, c, "fluent value"))
        tr = p.trace(c.args[0])
        # (the fluent's own name handed to `state.get(name)` is the KEY of the lookup, like a subscript index: not a stored value)
        # and a path on which an attribute of the constant None would be read (`state.get(name, None).value`) is never taken
        tr = {x for x in tr if not (x[0] == f"param:{node_param}" and "arg0:get" in x)
              and not (x[0] == "const:None" and any(st.startswith("attr:") for st in x[1:]))}
        stale = sorted(x for x in tr if x[0] == f"param:{node_param}")
        other = sorted(x for x in tr if not (x[0] == f"param:{state_param}" or x[0] in ("const:0", "const:0.0") or x[0] == f"param:{node_param}"
                                             or (x[0].startswith("param:") and "askey" in x)))
        if any(x[0] == f"param:{state_param}" for x in tr):
            from_state = True
        if stale:
            r.fail(Finding(rid, f, "stale-value", f"{unparse(c, 60)} can store a value taken from the expression tree itself ({stale[0][:4]}..): a fluent that the state "
                           f"does not mention keeps the value of an earlier evaluation instead of 0", node=c))
        elif other:
            r.fail(Finding(rid, f, "value-source", f"{unparse(c, 60)} stores a value that is neither the state's nor the constant 0: {other[0][:4]}", node=c))
        else:
            r.ok({"store": unparse(c, 60)})
    if not from_state:
        r.fail(Finding(rid, f, "state-not-read", "no stored value comes from the state's fluents"))
    # per class of node: a fluent leaf is given a value on EVERY way through the function (also when the state does not mention it),
    # a number leaf is never treated as a fluent
    from ._c12_util import Scenes
    sc = Scenes(repo, f, p, _node_classify(node_param))
    G = L.Guards(f, sc.matcher)
    for scene, fluent in ((_FLUENT_LEAF, True), (_NUMBER_LEAF, False)):
        val = sc.valuation(G, scene)
        seen = G.reach(val)
        under = G.under(val, seen)
        own = [c for c in stores if isinstance(c.func, ast.Attribute) and G.reaches_expr(val, c, seen=seen)
               and _safe_trace(p, c.func.value, under=under) == {(f"param:{node_param}", "attr:value")}]
        r.site(f"{f.qn}: {'fluent' if fluent else 'number'} leaf")
        if fluent:
            nodes = {G.g.node_containing(c) for c in own}
            if G.g.exit in G.reach(val, avoid=nodes):
                r.fail(Finding(rid, f, "fluent-leaf:not-read", "set_expression_value can end for a fluent leaf without having stored a value in it (on some way "
                               "through the function no set_value(..) is passed): the fluent keeps the value of an earlier evaluation"))
            else:
                r.ok({"fluent leaf": "every way through the function stores a value"})
        elif own:
            r.fail(Finding(rid, f, "number-leaf:stored", f"{unparse(own[0], 60)} is reached for a leaf that holds a number, not a fluent (a number has no "
                           f"set_value): expressions that mention a numeric literal cannot be evaluated", node=own[0]))
        else:
            r.ok({"number leaf": "left alone"})
    return r


# --------------------------------------------------------------------------- reading an expression: construct_expression_tree
# the classes of parsed text the reader is handed (token = a string, otherwise a list whose head is the operator / function name)
_NUMBER_TOKEN = "5"                 # a token that is a number (no keyword table contains it)
_FUNCTION_NAME = "<function-name>"  # a head token that is a function name (no keyword table contains it)
_FLUENT_LENGTHS = (1, 2, 3)         # lengths of a fluent's list: (f), (f ?x), (f ?x ?y) -- the name followed by 0, 1, 2 written arguments
_POS = lambda i: (f"item:{i}", f"unpack:{i}")


def _construct_classify(P: str):
    """what an expression of construct_expression_tree denotes, by provenance: the parsed text itself (an object that is a str or a list,
    a sequence, and -- when a string -- a token), its head, its tail from position k"""
    def classify(tr: frozenset):
        if len(tr) != 1:
            return None
        (x,) = tuple(tr)
        if x == (f"param:{P}",):
            return {"obj": "text", "seq": 0, "token": "token"}
        if len(x) == 2 and x[0] == f"param:{P}" and x[1] in _POS(0):
            return {"token": "head"}
        if len(x) == 2 and x[0] == f"param:{P}" and x[1].startswith("slice:") and x[1].endswith(":") and x[1][6:-1].isdigit():
            return {"seq": int(x[1][6:-1])}
        return None
    return classify


def _node_parts(tr: set, fname: str, P: str):
    """what the provenance of a returned node says about it: sources of its `value`, and per child position the sources of the child's
    value / the argument of the recursive call that builds the child"""
    vals = {x[:-1] for x in tr if x[-1] == "kw:value:AnyNode"}
    kids = {}
    for x in tr:
        if len(x) >= 3 and x[-1] == "kw:children:AnyNode" and x[-2].startswith("in:"):
            kids.setdefault(x[-2][3:], set()).add(x[:-2])
    out = {}
    for k, ys in kids.items():
        out[k] = {"value": {y[:-1] for y in ys if y[-1] == "kw:value:AnyNode"},
                  "recursion": {y[:-1] for y in ys if y[-1] == f"arg0:{fname}" and y[0] == f"param:{P}"}}
    return vals, out


def rule_construct(repo: Repo, rid: str = "C12.construct") -> RuleResult:
    """construct_expression_tree, decided per class of parsed text: a number token becomes a leaf holding float(token); a flat list headed
    by an arithmetic operator becomes that operator over its two numbers; a flat list headed by a function name becomes a leaf holding
    the function object (with the arguments AS WRITTEN when there are any); a nested list becomes its head over the recursively built
    second and third element.  Each class must end in a normal return, and every return reachable for the class has that shape."""
    from ._c12_util import Scenes, returns_under
    r = RuleResult(rid, "construct_expression_tree builds, for every class of parsed text, the node that denotes it",
                   "reading an expression back preserves its structure and its value: number -> float leaf, (op a b) -> op over a, b in "
                   "this order, (f args) -> the fluent f applied to these args")
    f = L.fn(repo, f"{NE}::construct_expression_tree")
    p = L.prov(repo, f)
    if len(f.params) < 2:
        raise AnalysisError(f"{rid}: construct_expression_tree(expression, functions) expected")
    P, D = f.params[0], f.params[1]
    sc = Scenes(repo, f, p, _construct_classify(P))
    G = L.Guards(f, sc.matcher)
    fname = f.name
    arith = list(A.EXPECTED_ARITH)
    roots = arith + list(A.EXPECTED_CMP) + list(A.EXPECTED_ASSIGN)
    seen_roles = set()

    def fail(role, text, node=None):
        if role not in seen_roles:
            seen_roles.add(role)
            r.fail(Finding(rid, f, role, text, node=node))

    def run(scene, label):
        val = sc.valuation(G, scene)
        seen = G.reach(val)
        under = G.under(val, seen)
        out = []
        for ret in returns_under(G, seen):
            out.append((ret, _safe_trace(p, ret.value, under=under)))
        r.site(f"{f.qn}: {label}")
        return val, seen, under, out

    at = lambda i: {(f"param:{P}", f"item:{i}")}

    # (1) a number token
    val, seen, under, rets = run({"isa:text": "str", "token": _NUMBER_TOKEN}, "number token")
    if not rets:
        fail("literal:not-built", "a token that is a number (not an operator keyword) never reaches a normal return: every numeric literal of an "
             "expression is rejected")
    for ret, tr in rets:
        vals, kids = _node_parts(tr, fname, P)
        if vals == {(f"param:{P}", "arg0:float")} and not kids:
            r.ok({"class": "number token", "value": "float(token)"})
        else:
            fail("literal:value", f"the leaf built for a number token holds {sorted(vals)[:2] or 'no value'}, not float(token): arithmetic on the "
                 f"leaf does not compute with the number that was written", ret)

    # (2) (op a b) over two number tokens
    for op in arith:
        val, seen, under, rets = run({"isa:text": "list", "len": 3, "elems": {"str"}, "head": op}, f"constant operation ({op} a b)")
        if not rets:
            fail("constant-operation:not-built", f"a flat list ({op} a b) of an arithmetic operator and two number tokens never reaches a normal return")
        for ret, tr in rets:
            vals, kids = _node_parts(tr, fname, P)
            if not vals <= at(0) or not vals:
                fail("constant-operation:operator", f"the node built for ({op} a b) holds {sorted(vals)[:2] or 'no value'} as its operator, not the "
                     f"head of the list (it is not an operator node over the two numbers)", ret)
                continue
            good = True
            for k in (0, 1):
                kid = kids.get(str(k), {"value": set(), "recursion": set()})
                want_v = {x + ("arg0:float",) for x in at(k + 1)}
                ok_v = bool(kid["value"]) and kid["value"] <= want_v and not kid["recursion"]
                ok_r = bool(kid["recursion"]) and kid["recursion"] <= at(k + 1) and not kid["value"]
                if not (ok_v or ok_r):
                    good = False
                    fail(f"constant-operation:operand:{k}", f"operand {k} of the node built for ({op} a b) holds "
                         f"{sorted(kid['value'] | kid['recursion'])[:2] or 'nothing'}, not float(element {k + 1}) of the list", ret)
            if good:
                r.ok({"class": f"({op} a b)", "operator": "head", "operands": ["float(element 1)", "float(element 2)"]})

    # (3) (f arg ..): the fluent
    ctor = repo.find_method("PDDLFunction", "__init__")
    declared = (f"param:{D}", "item")
    is_fresh = lambda x: x == ("fresh:PDDLFunction",) or (len(x) > 1 and x[-1].endswith(":PDDLFunction") and x[-1].startswith(("kw:", "arg")))
    for n in _FLUENT_LENGTHS:
        label = "(f)" if n == 1 else "(f " + " ".join(f"?x{i}" for i in range(1, n)) + ")"
        val, seen, under, rets = run({"isa:text": "list", "len": n, "elems": {"str"}, "head": _FUNCTION_NAME}, f"fluent {label}")
        if not rets:
            fail("fluent:not-built", f"a flat list {label} headed by a function name never reaches a normal return: such fluents are rejected")
        for ret, tr in rets:
            vals, kids = _node_parts(tr, fname, P)
            fresh = ("fresh:PDDLFunction",) in vals
            if not vals or kids or not all(x == declared or is_fresh(x) for x in vals):
                fail("fluent:value", f"the leaf built for {label} holds {sorted(vals)[:2] or 'no value'}, not the function object (evaluation reads "
                     f"`.value` of a PDDLFunction at the leaves)", ret)
            elif n > 1 and (declared in vals or not fresh):
                fail("fluent:arguments", f"the leaf built for {label} can hold the domain's DECLARED function instead of a function with the arguments "
                     f"as written: the fluent denotes another (or no) state variable", ret)
            else:
                r.ok({"class": f"fluent {label}", "value": "PDDLFunction(head, written arguments)" if fresh else "declared function"})
        if n > 1:
            for c in L.calls_in(f.node):
                if callee_name(c) != "PDDLFunction" or not G.reaches_expr(val, c, seen=seen):
                    continue
                a_name, a_sig = L.arg_of(c, ctor, "name", 0), L.arg_of(c, ctor, "signature", 1)
                tn = _safe_trace(p, a_name, under=under) if a_name is not None else set()
                if not tn or not tn <= at(0):
                    fail("fluent:name", f"{unparse(c, 60)}: the name of the fluent comes from {sorted(tn)[:2] or 'nowhere'}, not from the head of the list", c)
                try:
                    ents = L.map_entries(p.trace(a_sig, keys=True, under=under)) if a_sig is not None else set()
                except (KeyError, RecursionError):
                    ents = set()
                keys = {src for kind, src in ents if kind == "key"}
                vals_ = {src for kind, src in ents if kind == "value" and "askey" not in src}
                want_k = {(f"param:{P}", "slice:1:", "zip0")}
                want_v = {declared + ("attr:signature", "call:values", "zip1")}
                if keys == want_k and vals_ == want_v:
                    r.ok({"class": f"fluent {label}", "signature": "written arguments (elements 1..) paired with the declared types"})
                else:
                    fail("fluent:signature", f"{unparse(c, 60)}: the signature pairs {sorted(keys)[:2] or 'nothing'} with {sorted(vals_)[:2] or 'nothing'}; "
                         f"expected the written arguments (elements 1.. of the list, all of them, in order) as keys and the declared parameter types "
                         f"as values", c)

    # (4) (op L R) with compound operands
    for op in roots:
        val, seen, under, rets = run({"isa:text": "list", "len": 3, "elems": {"str", "list"}, "head": op}, f"compound ({op} L R)")
        if not rets:
            fail("nested:not-built", f"a binary expression ({op} L R) with a compound operand never reaches a normal return")
        for ret, tr in rets:
            vals, kids = _node_parts(tr, fname, P)
            if not vals or not vals <= at(0):
                fail("nested:operator", f"the node built for ({op} L R) holds {sorted(vals)[:2] or 'no value'} as its operator, not the head of the list", ret)
                continue
            good = True
            for k in (0, 1):
                kid = kids.get(str(k), {"value": set(), "recursion": set()})
                if not (kid["recursion"] and kid["recursion"] <= at(k + 1) and not kid["value"]):
                    good = False
                    fail(f"nested:operand:{k}", f"operand {k} of the node built for ({op} L R) is {sorted(kid['value'] | kid['recursion'])[:2] or 'nothing'}, "
                         f"not the tree of element {k + 1} of the list", ret)
            if good:
                r.ok({"class": f"({op} L R)", "operator": "head", "operands": ["tree(element 1)", "tree(element 2)"]})
    return r


def rule_branch(repo: Repo, rid: str = "C12.branch") -> RuleResult:
    """evaluate_expression decided per root operator: an assignment operator reaches the application of an ASSIGNMENT_EXPRESSIONS helper
    and ends there; a comparison operator evaluates its left operand (child 0) as an expression"""
    from ._c12_util import Scenes
    r = RuleResult(rid, "evaluate_expression: assignment operators are applied as assignments (and nothing else), comparison operators compare the "
                        "values of both operands", "assign/increase/decrease set the target; comparisons answer on the two evaluated sides")
    f = L.fn(repo, f"{NE}::evaluate_expression")
    p = L.prov(repo, f)
    T = f.params[0]
    sc = Scenes(repo, f, p, _node_classify(T))
    G = L.Guards(f, sc.matcher)
    atab = L.table(repo, NE, "ASSIGNMENT_EXPRESSIONS")
    helpers = {v.id for v in atab.values() if isinstance(v, ast.Name)}
    a_roots = {"global:ASSIGNMENT_EXPRESSIONS"} | {f"global:{h}" for h in helpers}
    c_roots = {"global:COMPARISON_OPERATORS"}
    calls = [c for c in L.calls_in(f.node)]
    done = set()

    def fail(role, text, node=None):
        if role not in done:
            done.add(role)
            r.fail(Finding(rid, f, role, text, node=node))

    def sites(val, seen, under, roots_):
        out = []
        for c in calls:
            if isinstance(c.func, ast.Attribute) and not isinstance(c.func.value, ast.Subscript):
                continue
            if not G.reaches_expr(val, c, seen=seen):
                continue
            tr = _safe_trace(p, c.func, under=under)
            if tr and {x[0] for x in tr} <= roots_:
                out.append(c)
        return out

    for op in A.EXPECTED_ASSIGN:
        r.site(f"{f.qn}: root operator {op}")
        val = sc.valuation(G, {"op": op, "isa:value": "str", "len": 2, "leaf": False})
        seen = G.reach(val)
        under = G.under(val, seen)
        applied = sites(val, seen, under, a_roots)
        if not applied:
            fail("assignment:not-applied", f"for the root operator {op!r} no application of an ASSIGNMENT_EXPRESSIONS helper is reachable: the numeric effect "
                 f"is not performed")
            continue
        after = set()
        for c in applied:
            after |= G.reach(val, start=G.g.node_containing(c))
        late = [c for c in sites(val, after, under, c_roots) if c not in applied]
        if late:
            fail("assignment:falls-into-comparison", f"after the assignment {op!r} has been applied the function goes on to {unparse(late[0], 60)}: "
                 f"the effect is evaluated as a comparison as well", late[0])
        else:
            r.ok({"root": op, "applies": unparse(applied[0], 50)})
    for op in A.EXPECTED_CMP:
        r.site(f"{f.qn}: root operator {op}")
        val = sc.valuation(G, {"op": op, "isa:value": "str", "len": 2, "leaf": False})
        seen = G.reach(val)
        under = G.under(val, seen)
        left = [c for c in calls if callee_name(c) == "calculate" and c.args and G.reaches_expr(val, c, seen=seen)
                and _safe_trace(p, c.args[0], under=under) == {(f"param:{T}", "attr:children", "item:0")}]
        if left:
            r.ok({"root": op, "left_operand": unparse(left[0], 50)})
        else:
            fail("comparison:left-operand-not-evaluated", f"for the root operator {op!r} the value of the left operand (child 0) is never calculated: the "
                 f"comparison is not made on the two evaluated sides")
    return r


def _safe_trace(p, e, **kw) -> set:
    """provenance with positions normalised (_norm_path); empty when the expression cannot be traced"""
    try:
        return _norm(p.trace(e, **kw))
    except (KeyError, RecursionError):
        return set()


def rules(repo: Repo, tier: str) -> List[RuleResult]:
    from . import c13
    return [c13.rule_round(repo, "C12.round", ["NumericalExpressionTree.to_pddl", "NumericalExpressionTree.to_mathematical"]),
            c13.rule_digits(repo, "C12.digits", (NE,)), rule_arith(repo), rule_compare(repo), rule_assign(repo), rule_order(repo), rule_env(repo), rule_tables(repo),
            rule_leaf(repo), rule_missing(repo), rule_construct(repo), rule_branch(repo)]
