"""C08 -- exporting a domain and parsing it back preserves vocabulary and behaviour."""
from __future__ import annotations

import ast
from typing import Dict, List, Optional, Set, Tuple

from .. import cfg as C
from .. import fields as F
from .. import lib as L
from .. import templates as T
from ..core import AnalysisError, FuncInfo, Repo, unparse
from ..prov import callee_name
from ..report import Finding, RuleResult
from . import _c08_util as U

EXPLANATION = (
    "C08.fields: a backward slice from each printer's result (assignments, loop targets, append/extend, controlling tests, methods and "
    "properties of the printed object followed three levels deep) must reach every declared field of the printed object: Domain "
    "{name, requirements, types, constants, predicates, functions, actions}, Action, Precondition {operator, operands of all three "
    "kinds, equality and inequality pairs}, conditional / universal effects, predicates, functions, expression trees. C08.polarity: "
    "on the is_positive == False path the template is '(not ' + positive template + ')'. C08.keywords: every keyword the exporter "
    "writes is a head the domain parser dispatches on. C08.order: signature items reach the text unsorted. C08.balance: the literal "
    "parts of every writer template contain as many '(' as ')'. C08.options: a printer that takes print options passes them on at "
    "every recursive call (otherwise nested conditions are printed simplified at 2 digits although the exporter asked for "
    "unsimplified text). C08.operands: operands of each of the three kinds are handled, reach the returned text, and reach it through "
    "the operand's own text (untyped_representation / str / print / to_pddl) or through all of its identifying parts. The printers are "
    "analysed after flattening plus the local normalisations of _c08_util (generators at eager consumers, local tables, records and "
    "constant-key dicts split into locals, str.format / % templates written as f-strings), so the way the text is assembled is immaterial."
)
UNDECIDED = "equality of vocabulary and behaviour after re-parsing; numeric precision; a second export/parse round"

# (site, root object, class, required fields, excluded {field: reason})
FIELD_TABLE = [
    ("DomainExporter.extract_domain", "domain", "Domain", {"name", "requirements", "types", "constants", "predicates", "functions", "actions"}, {}),
    ("DomainExporter.write_action", "action", "Action", {"name", "signature", "preconditions", "discrete_effects", "numeric_effects", "conditional_effects", "universal_effects"}, {}),
    ("Precondition.print", "self", "Precondition", {"binary_operator", "operands", "equality_preconditions", "inequality_preconditions"}, {}),
    ("UniversalPrecondition.__str__", "self", "UniversalPrecondition", {"binary_operator", "operands", "equality_preconditions", "inequality_preconditions", "quantified_parameter", "quantified_type"}, {}),
    ("ConditionalEffect.__str__", "self", "ConditionalEffect", {"antecedents", "discrete_effects", "numeric_effects"}, {}),
    ("UniversalEffect.__str__", "self", "UniversalEffect", {"quantified_parameter", "quantified_type", "conditional_effects"}, {}),
    ("Predicate.untyped_representation", "self", "Predicate", {"name", "signature", "is_positive"}, {}),
    ("Predicate.__str__", "self", "Predicate", {"name", "signature"}, {"is_positive": "the declaration form is always positive"}),
    ("PDDLFunction.__str__", "self", "PDDLFunction", {"name", "signature"}, {"stored_value": "declaration form", "repeating_variables": "declaration form"}),
    ("PDDLFunction.untyped_representation", "self", "PDDLFunction", {"name", "signature"}, {"stored_value": "lifted form", "repeating_variables": "lifted form (see the note in the source)"}),
    ("CompoundPrecondition.print", "self", "CompoundPrecondition", {"root"}, {}),
]


# fields whose influence on the text is legitimately through control flow only (which template is chosen)
CONTROL_OK = {"is_positive", "is_init"}


def rule_fields(repo: Repo, rid: str, table) -> RuleResult:
    r = RuleResult(rid, "each printer's result depends on every declared field of what it prints", "the exported text carries the whole object")
    for spec, root, cls, required, excluded in table:
        f = U.fn(repo, spec)
        rootname = f.self_name if root == "self" else root
        got = U.slice_fields(repo, f, rootname, cls, control=False) | (U.slice_fields(repo, f, rootname, cls) & CONTROL_OK)
        r.site(f.qn)
        declared = set(repo.declared_fields(cls)) - {"logger"}
        new_fields = declared - required - set(excluded)
        missing = sorted((required | new_fields) - got)
        if missing:
            r.fail(Finding(rid, f, f"field-not-printed:{'/'.join(missing)}", f"the text produced by {spec} does not depend on {missing} of {cls}"),
                   {"printer": f.qn, "fields_in_result": sorted(got & (required | declared))})
        else:
            r.ok({"printer": f.qn, "fields_in_result": sorted(got & (required | declared)), "excluded": excluded})
    r.require_sites(len(table))
    return r


PRINT = "Precondition.print"          # public entry of the condition printer (its private helpers are analysed in place)


def _fn_literals(repo: Repo, f: FuncInfo) -> List[str]:
    """string literals that take part in the text a writer builds, including those kept in module constants"""
    lits = list(T.function_literals(f))
    for n in ast.walk(f.node):
        if isinstance(n, ast.Name) and isinstance(n.ctx, ast.Load):
            ok, v = repo.const_value(f.mod.name, n.id)
            if ok and isinstance(v, str):
                lits.append(v)
    return lits


def _text_literals(repo: Repo, f: FuncInfo) -> List[str]:
    """the literal fragments of the text the writer returns (templates, separators, f-string parts, whatever way the text is put
    together); all string literals of the function when the construction of some returned text is not interpreted"""
    from .. import strshape as S
    rets = [x for x in L.func_returns(f) if x.value is not None]
    if not rets:
        return _fn_literals(repo, f)
    ev = U.Evaluator(repo, f)
    lits: List[str] = []
    for x in rets:
        try:
            sh = ev.string(x.value)
        except Exception:
            return _fn_literals(repo, f)
        if S.unknowns(sh):
            return _fn_literals(repo, f)
        lits += S.literals(sh)
    return lits


def rule_operand_kinds(repo: Repo) -> RuleResult:
    from .c02 import ClassDispatch
    r = RuleResult("C08.operands", "the condition printer prints operands of all three kinds (literal, numeric, nested) and all of them reach the text",
                   "each action's precondition denotes the same formula as the original")
    f = U.fn(repo, PRINT)
    p = L.prov(repo, f)
    loops = [n for n in ast.walk(f.node) if isinstance(n, ast.For) and any(x == ("self", "attr:operands") for x in p.trace(n.iter))]
    comps = [n for n in ast.walk(f.node) if isinstance(n, (ast.ListComp, ast.SetComp, ast.GeneratorExp))
             and any(x == ("self", "attr:operands") for x in p.trace(n.generators[0].iter))]
    if not loops and not comps:
        raise AnalysisError(f"{PRINT}: no loop / comprehension over self.operands found")
    rets = [x for x in L.func_returns(f) if x.value is not None]
    elem = ("self", "attr:operands", "elem")
    for cls in ("Predicate", "NumericalExpressionTree", "Precondition"):
        r.site(f"{f.qn} [{cls}]")
        reaches = False
        handled = False
        mro = repo.mro(cls)
        views: Set[str] = set()
        for lp in loops:
            D = ClassDispatch(repo, f, p, lp)
            if not D.tests:
                continue
            if D.matches_any(cls):
                handled = True
            under = D.under(cls)
            for rt in rets:
                tr = p.trace(rt.value, under=under)
                views |= _views(tr, elem)
                # content that this iteration puts into lists / strings which the returned text is built from
                if any(x[:3] == elem and any(st.startswith("in:") for st in x[3:]) or x[:3] == elem and len(x) > 3 for x in tr):
                    # the flow must pass a statement executed for this class
                    seen = D.reach(cls)
                    adders = [n for n in seen if isinstance(D.g.stmt[n], (ast.Expr, ast.Assign, ast.AugAssign)) and
                              any(y[:3] == elem for sub in ast.walk(D.g.stmt[n]) if isinstance(sub, ast.Name) and isinstance(sub.ctx, ast.Load)
                                  for y in _safe(p, sub))]
                    if adders:
                        reaches = True
        for c in comps:
            conds = [t for g_ in c.generators for t in g_.ifs]
            klasses = []
            for t in conds:
                for sub in ast.walk(t):
                    if isinstance(sub, ast.Call) and isinstance(sub.func, ast.Name) and sub.func.id == "isinstance" and len(sub.args) == 2:
                        from .c02 import _classes_of
                        klasses += _classes_of(repo, f, sub.args[1]) or []
            if any(k in mro for k in klasses):
                handled = True
                if any(any(st == "in:elt" for st in x) or True for rt in rets for x in p.trace(rt.value) if x[:3] == elem):
                    reaches = True
                    for rt in rets:
                        views |= _views(p.trace(rt.value), elem)
        if not handled:
            r.fail(Finding("C08.operands", f, f"operand-kind:{cls}", f"operands of class {cls} are not printed"))
        elif reaches and views and not (views & WHOLE_VIEWS) and not (PART_VIEWS[cls] <= views):
            r.fail(Finding("C08.operands", f, f"operand-kind-partial:{cls}", f"operands of class {cls} reach the text only through {sorted(views)}: "
                           f"neither the operand's own text (untyped_representation / str / print / to_pddl) nor all of {sorted(PART_VIEWS[cls])}"))
        elif reaches:
            r.ok({"class": cls, "reaches_text": True})
        else:
            r.fail(Finding("C08.operands", f, f"operand-kind-dropped:{cls}", f"operands of class {cls} are collected but never reach the returned text"))
    r.require_sites(3)
    return r


# the operand's own text, whichever printer is used for it
WHOLE_VIEWS = {"attr:untyped_representation", "arg0:str", "call:__str__", "arg0:format", "arg0:repr", "call:__repr__", "call:print", "call:_print_self",
               "call:to_pddl", "call:to_mathematical", "call:__copy__", "call:copy", "attr:lifted_untyped_representation"}
# a text put together from the operand's parts must use at least these
PART_VIEWS = {"Predicate": {"attr:name", "attr:signature"}, "Precondition": {"attr:binary_operator", "attr:operands"},
              "NumericalExpressionTree": {"attr:root"}}


def _views(paths, elem) -> Set[str]:
    """how the operand is looked at on its way into the text: the first step after the element that is not mere storage"""
    out: Set[str] = set()
    for x in paths:
        if x[:len(elem)] != elem:
            continue
        for st in x[len(elem):]:
            if st.startswith("in:") or st in ("elem", "item") or st.startswith(("item:", "unpack:", "slice:")):
                continue
            out.add(st)
            break
    return out


def _safe(p, e):
    try:
        return p.trace(e)
    except KeyError:
        return set()


def rule_polarity(repo: Repo, rid: str = "C08.polarity") -> RuleResult:
    from .. import strshape as S
    r = RuleResult(rid, "negative literal text = '(not ' + positive literal text + ')'", "a literal is printed with its polarity")
    for spec in ("Predicate.untyped_representation", "GroundedPredicate.untyped_representation", "GroundedPredicate.__str__"):
        f = U.fn(repo, spec)
        g = C.cfg_of(f.node)
        p = L.prov(repo, f)
        G = L.Guards(f, lambda e: "pos" if isinstance(e, ast.Attribute) and e.attr == "is_positive" and isinstance(e.ctx, ast.Load) else None)
        r.site(f.qn)
        if "pos" not in G.atoms_seen:
            r.fail(Finding(rid, f, "polarity-ignored", f"{spec} does not look at is_positive"))
            continue
        ev = U.Evaluator(repo, f)

        def hole(n):
            tr = _safe(p, n)
            return "/".join(sorted("|".join(x) for x in tr))[:200] if tr else unparse(n, 40)

        text = {}
        for pos in (True, False):
            seen = G.reach({"pos": pos})
            val = G._val({"pos": pos}, seen)
            rs = [g.stmt[n] for n in seen if g.kind[n] == "return" and g.stmt[n].value is not None]
            texts = set()
            for rt in rs:
                sh = ev.string(rt.value)
                if S.unknowns(sh):
                    raise AnalysisError(f"{spec}: the returned text is not interpreted ({S.unknowns(sh)[:1]})")
                texts.add(S.render(sh, hole, val))
            text[pos] = texts.pop() if len(texts) == 1 else None
        if text[True] is None or text[False] is None:
            raise AnalysisError(f"{spec}: the text for a positive / a negative literal is not a single template")
        ok = text[False] == "(not " + text[True] + ")"
        short = lambda t: t if len(t) < 120 else t[:117] + "..."
        if ok:
            r.ok({"printer": f.qn, "positive": short(text[True]), "negative": "(not <positive>)"})
        else:
            r.fail(Finding(rid, f, "negative-template", f"negative text {short(text[False])!r} is not '(not ' + {short(text[True])!r} + ')'"))
    r.require_sites(3)
    return r


def parser_heads(repo: Repo, specs: List[str]) -> Set[str]:
    """the string constants the readers compare a token with: written in place or folded from constants (below), or reaching the
    comparison / the dict lookup through a table of (keyword, handler) rows or a dict of handlers (U.heads_of)"""
    heads: Set[str] = set()
    for spec in specs:
        for f in (L.fn(repo, spec), U.fn(repo, spec)):
            for n in ast.walk(f.node):
                if isinstance(n, ast.Compare) and len(n.ops) == 1:
                    c = n.comparators[0]
                    if isinstance(n.ops[0], (ast.Eq, ast.NotEq)):
                        ok, v = repo.fold(c, f.mod.name)
                        if ok and isinstance(v, str):
                            heads.add(v)
                    elif isinstance(n.ops[0], (ast.In, ast.NotIn)):
                        ok, v = repo.fold(c, f.mod.name)
                        if ok and isinstance(v, list):
                            heads |= {x for x in v if isinstance(x, str)}
            heads |= U.heads_of(repo, f)
    return heads


def rule_keywords(repo: Repo) -> RuleResult:
    r = RuleResult("C08.keywords", "every keyword the domain writer emits is a head the domain reader dispatches on", "the exported text is read back by the library's own parser")
    writers = ["DomainExporter.extract_domain", "DomainExporter.write_action", "Action.effects_to_pddl", "ConditionalEffect.__str__",
               "UniversalEffect.__str__", "UniversalPrecondition.__str__", PRINT, "Predicate.untyped_representation"]
    readers = ["DomainParser.parse_domain", "DomainParser.parse_action", "DomainParser.parse_preconditions", "PreconditionsParser.parse",
               "EffectsParser.parse", "EffectsParser.parse_conditional_effect"]
    heads = parser_heads(repo, readers)
    # keywords matched structurally rather than by a head test
    heads |= {"define"}
    for w in writers:
        f = U.fn(repo, w)
        kw = T.keywords(_text_literals(repo, f)) - {"<", ">", "<=", ">="}
        r.site(f.qn)
        unknown = sorted(k for k in kw if k not in heads)
        if unknown:
            r.fail(Finding("C08.keywords", f, f"keyword-not-read:{'/'.join(unknown)}", f"{w} writes {unknown} which the domain parser never dispatches on"))
        else:
            r.ok({"writer": f.qn, "keywords": sorted(kw)})
    r.notes.append(f"reader heads: {sorted(heads)}")
    r.require_sites(8)
    return r


BALANCE_SITES = ["DomainExporter.extract_domain", "DomainExporter.write_action", "Action.effects_to_pddl", "ConditionalEffect.__str__",
                 "UniversalEffect.__str__", "UniversalPrecondition.__str__", PRINT, "Predicate.untyped_representation",
                 "Predicate.__str__", "PDDLFunction.__str__", "PDDLFunction.untyped_representation", "Action.__str__"]


def rule_balance(repo: Repo, rid: str, sites: List[str]) -> RuleResult:
    from .. import strshape as S
    r = RuleResult(rid, "the literal parts of every writer template contain as many '(' as ')'", "the text has balanced parentheses, so it can be read back at all")
    for spec in sites:
        f = U.fn(repo, spec)
        r.site(f.qn)
        # per alternative of every returned text; whole function when the construction is not interpreted
        rets = [x for x in L.func_returns(f) if x.value is not None]
        units: List[Tuple[str, List[str]]] = []
        ev = U.Evaluator(repo, f)
        interpretable = bool(rets)
        for x in rets:
            try:
                sh = ev.string(x.value)
            except Exception:
                interpretable = False
                break
            if S.unknowns(sh):
                interpretable = False
                break
            for i, b_ in enumerate(S.branches(sh)):
                units.append((f"return@{x.lineno}#{i}", S.literals(b_)))
        if not interpretable:
            units = [("function", _fn_literals(repo, f))]
        bad = []
        for name, lits in units:
            o, c = T.paren_balance(lits)
            if o != c:
                bad.append((name, o, c))
        if bad:
            r.fail(Finding(rid, f, "unbalanced-template", f"template literals of {spec} are unbalanced: {bad[:3]}"))
        else:
            r.ok({"writer": f.qn, "units": len(units)})
    r.require_sites(len(sites))
    return r


def rule_order(repo: Repo) -> RuleResult:
    r = RuleResult("C08.order", "signature items and declaration maps reach the text in their own order (no sorted / set / reversed)", "parameter order is preserved")
    bad_steps = ("arg0:sorted", "arg0:reversed", "arg0:set", "arg0:frozenset", "call:sort")
    for spec in ("DomainExporter.write_action", "Predicate.untyped_representation", "Predicate.__str__", "PDDLFunction.__str__",
                 "PDDLFunction.untyped_representation", "Action.__str__"):
        f = U.fn(repo, spec)
        p = L.prov(repo, f)
        r.site(f.qn)
        offenders = []
        for n in ast.walk(f.node):
            if isinstance(n, (ast.For, ast.comprehension)):
                for x in p.trace(n.iter):
                    if "attr:signature" in x and any(s.startswith(bad_steps) for s in x):
                        offenders.append(unparse(n.iter, 50))
                    # regrouped: the parameters were sorted into per-key groups of a local dict and are printed group by group
                    if "attr:signature" in x and any(s.startswith("in:") and "[]@" in s for s in x):
                        offenders.append(unparse(n.iter, 50) + " (regrouped)")
            if isinstance(n, ast.Call) and callee_name(n) == "join" and n.args:
                for x in p.trace(n.args[0]):
                    if "attr:signature" in x and any(s.startswith(bad_steps) for s in x):
                        offenders.append(unparse(n.args[0], 50))
        if offenders:
            r.fail(Finding("C08.order", f, "signature-reordered", f"the signature is re-ordered before printing: {offenders[:2]}"))
        else:
            r.ok({"printer": f.qn})
    r.require_sites(6)
    return r


def rule_options(repo: Repo) -> RuleResult:
    r = RuleResult("C08.options", "print options (should_simplify, decimal_digits) are passed on at every nested print", "the exporter asks for unsimplified text; nested conditions must honour it")
    f = U.fn(repo, PRINT)
    opts = [x for x in f.params if x in ("should_simplify", "decimal_digits")]
    if len(opts) != 2:
        raise AnalysisError(f"{PRINT}: print options not found")
    p = L.prov(repo, f)
    for c in L.calls_in(f.node):
        if isinstance(c.func, ast.Name) and c.func.id == "str" and c.args:
            t = repo.types(f).typeof(c.args[0])
            tr = p.trace(c.args[0])
            if any("attr:operands" in x for x in tr):
                r.site(L.site(f, c, "nested print"))
                r.fail(Finding("C08.options", f, "call:str(operand)", f"{unparse(c)} prints a nested condition with the default options "
                               f"(should_simplify=True, decimal_digits=2) instead of the ones requested", node=c))
        if isinstance(c.func, ast.Attribute) and any("attr:operands" in x for x in _safe(p, c.func.value)) and \
                callee_name(c) not in ("__str__", "copy", "to_pddl", "to_mathematical", "append", "add", "sort"):
            # a nested condition is printed through the condition class's own entry point: a subclass that only overrides __str__
            # (UniversalPrecondition: the quantifier header) must not be bypassed
            m = callee_name(c)
            bypassed = [sc for sc in repo.subclasses("Precondition") if "__str__" in repo.classes[sc].methods and m not in repo.classes[sc].methods
                        and repo.find_method("Precondition", m) is not None]
            if bypassed:
                r.site(L.site(f, c, "nested print dispatch"))
                r.fail(Finding("C08.options", f, f"bypasses-subclass-printer:{m}", f"{unparse(c, 60)} calls Precondition.{m} directly on a nested condition: "
                               f"{bypassed} override only __str__, so their own text (e.g. the (forall (...) header) is lost", node=c))
        if callee_name(c) in ("print", "_print_self") and isinstance(c.func, ast.Attribute):
            r.site(L.site(f, c, "nested print"))
            passed = {o for o in opts for a_ in list(c.args) + [k.value for k in c.keywords] if L.is_param(p, a_, o)}
            if set(opts) <= passed:
                r.ok({"call": unparse(c), "options_passed": True})
            else:
                r.fail(Finding("C08.options", f, f"call:{callee_name(c)}-without-options", f"{unparse(c)} drops the print options", node=c))
        if callee_name(c) == "to_pddl" and isinstance(c.func, ast.Attribute):
            r.site(L.site(f, c, "numeric print"))
            if any(L.is_param(p, a_, "decimal_digits") for a_ in list(c.args) + [k.value for k in c.keywords]):
                r.ok({"call": unparse(c), "decimal_digits": True})
            else:
                r.fail(Finding("C08.options", f, "call:to_pddl-without-digits", f"{unparse(c)} ignores decimal_digits", node=c))
    # printers without option parameters that print a nested condition: the options cannot reach it
    for spec, attr, role in (("ConditionalEffect.__str__", "antecedents", "call:str(self.antecedents)"),
                             ("UniversalPrecondition.__str__", None, "call:super()._print_self()")):
        # the text of the antecedents may be produced by a helper / a template (analysed in place); the bare super() call is looked for
        # in the printer as written (analysed in place it would no longer be a call)
        g = U.fn(repo, spec) if attr else repo.func(spec)
        pg = L.prov(repo, g)
        for c in L.calls_in(g.node):
            nested = False
            if isinstance(c.func, ast.Name) and c.func.id == "str" and c.args and attr and any(x == ("self", f"attr:{attr}") for x in _safe(pg, c.args[0])):
                nested = True
            if isinstance(c.func, ast.Attribute) and isinstance(c.func.value, ast.Call) and callee_name(c.func.value) == "super" and not c.args and not c.keywords \
                    and callee_name(c) in ("_print_self", "print", "__str__"):
                nested = True
            if nested:
                r.site(L.site(g, c, "nested print"))
                r.fail(Finding("C08.options", g, role, f"{unparse(c)} prints with the default options (simplified, 2 digits): "
                               f"the domain exporter's should_simplify=False does not reach it", node=c))
        for v in [n for n in ast.walk(g.node) if isinstance(n, ast.FormattedValue)]:
            if attr and any(x == ("self", f"attr:{attr}") for x in _safe(pg, v.value)) and not isinstance(v.value, ast.Call):
                r.site(L.site(g, v, "nested print"))
                r.fail(Finding("C08.options", g, role, f"{{{unparse(v.value)}}} prints with the default options (simplified, 2 digits): "
                               f"the domain exporter's should_simplify=False does not reach it", node=v))
    r.require_sites(2)
    return r


def _alternatives(e: ast.AST) -> List[ast.AST]:
    if isinstance(e, ast.IfExp):
        return _alternatives(e.body) + _alternatives(e.orelse)
    return [e]


TYPED_LIST_SITES = ["DomainExporter.write_action", "Predicate.__str__", "PDDLFunction.__str__", "Action.__str__", "GroundedPredicate.__str__",
                    "PDDLFunction.state_typed_representation"]


def rule_typedparams(repo: Repo, rid: str = "C08.typedparams", sites: Optional[List[str]] = None) -> RuleResult:
    from .. import strshape as S
    r = RuleResult(rid, "in a typed list every entry is written as '<name> - <type>' on every alternative (no entry may omit its type)",
                   "PDDL typed lists are grouped: an entry without '- type' takes the type of the next typed entry")
    for spec in (sites or TYPED_LIST_SITES):
        f = U.fn(repo, spec)
        p = L.prov(repo, f)
        ev = U.Evaluator(repo, f)
        r.site(f.qn)
        entries = []          # repetitions over the signature / the call objects whose body carries literal text
        for rt in [x for x in L.func_returns(f) if x.value is not None]:
            try:
                sh = ev.string(rt.value)
            except Exception as ex:
                raise AnalysisError(f"{spec}: the returned text is not interpreted ({ex})")
            for rep in S.reps(sh):
                it = _safe(p, rep.loop.iter) if rep.loop.iter is not None else set()
                if any("attr:signature" in x or "attr:grounded_call_objects" in x for x in it):
                    entries.append(rep)
        if not entries:
            raise AnalysisError(f"{spec}: typed-list element template not found")
        bad = []
        judged = 0
        for rep in entries:
            if not S.literals(rep.body):
                continue        # a list of bare names, not a typed list
            judged += 1
            for alt in S.branches(rep.body):
                lits, hs = S.literals(alt), S.holes(alt)
                if len(hs) < 2 or not any(" - " in l for l in lits):
                    bad.append(S.render(alt, lambda n: unparse(n, 30)))
        if not judged:
            # the lists over the signature were found and interpreted, none of them has any text between its holes: bare names
            r.fail(Finding(rid, f, "entry-without-type", f"{spec}: the entries of the typed list are written as bare names "
                           f"({[S.render(rep.body, lambda n: unparse(n, 30)) for rep in entries][:2]}): no entry carries '- type'"))
            continue
        if bad:
            r.fail(Finding(rid, f, "entry-without-type", f"a typed-list entry can be written without its type: {bad[:2]}; in a grouped typed list it then takes the "
                           f"type of the following entry"))
        else:
            r.ok({"printer": f.qn, "entry": "<name> - <type> on every alternative"})
    r.require_sites(len(sites or TYPED_LIST_SITES))
    return r


FULL_TEXT = ("attr:untyped_representation", "attr:state_representation", "call:to_pddl", "arg0:str", "call:__str__", "attr:lifted_untyped_representation",
             "attr:state_typed_representation")


def printer_functions(repo: Repo) -> List[FuncInfo]:
    out = []
    for f in repo.all_funcs():
        top = f.mod.short.split(".")[0]
        if top == "exporters" and not f.name.startswith("__") and "output_parser" not in f.mod.short:
            out.append(f)
        elif top == "models" and f.name in ("__str__", "_print_self", "print", "effects_to_pddl", "serialize", "_serialize_predicates", "_serialize_numeric_fluents",
                                            "typed_serialize", "untyped_representation", "state_representation", "state_typed_representation", "to_pddl", "_convert_to_pddl"):
            out.append(f)
        elif top == "multi_agent" and f.name in ("export", "export_to_file", "export_plan"):
            out.append(f)
    return out


def rule_nocollapse(repo: Repo, rid: str = "C08.nocollapse", funcs: Optional[List[FuncInfo]] = None, floor: int = 20) -> RuleResult:
    r = RuleResult(rid, "the elements of a collection are never funnelled through a dict keyed by a *part* of the element",
                   "nothing is lost on the way: two different elements with the same partial key would collapse into one")
    fs = funcs if funcs is not None else printer_functions(repo)
    for f in fs:
        p = L.prov(repo, f)
        r.site(f.qn)
        offenders = []
        cands: List[Tuple[ast.AST, ast.AST, ast.AST]] = []
        for n in ast.walk(f.node):
            if isinstance(n, ast.DictComp):
                cands.append((n.key, n.value, n))
            elif isinstance(n, ast.Assign) and len(n.targets) == 1 and isinstance(n.targets[0], ast.Subscript) and isinstance(n.targets[0].value, ast.Name):
                cands.append((n.targets[0].slice, n.value, n))
        for k, v, anchor in cands:
            tv = [x for x in p.trace(v) if "elem" in x and x[0] in ("self",) or (x[0].startswith("param:") and "elem" in x)]
            tk = [x for x in p.trace(k) if "elem" in x and (x[0] == "self" or x[0].startswith("param:"))]
            if not tv or not tk:
                continue
            for kp in tk:
                i = len(kp) - 1 - kp[::-1].index("elem")
                pre, post = kp[: i + 1], [s for s in kp[i + 1:] if not s.startswith("unpack:")]
                same_coll = any(vp[: len(pre)] == pre for vp in tv)
                if same_coll and post and not any(s in FULL_TEXT for s in post):
                    offenders.append((unparse(anchor, 70), "/".join(post)))
        if offenders:
            r.fail(Finding(rid, f, f"partial-key:{offenders[0][1]}", f"{offenders[0][0]} keys the printed elements by {offenders[0][1]}: elements that agree on that part "
                           f"overwrite each other and are missing from the text"))
        else:
            r.ok({"printer": f.qn, "dict_keyed_by_part_of_element": False})
    r.require_sites(floor)
    return r


def rule_valuetext(repo: Repo, rid: str) -> RuleResult:
    from .. import strshape as S
    r = RuleResult(rid, "a fluent's value is written with Python's round-trip float text (no format spec, no rounding)",
                   "the same fluents with the same values after reading the text back")
    for spec in ("PDDLFunction.state_representation", "PDDLFunction.state_typed_representation"):
        f = U.fn(repo, spec)
        p = L.prov(repo, f)
        r.site(f.qn)
        ev = U.Evaluator(repo, f)
        holes = []
        for rt in [x for x in L.func_returns(f) if x.value is not None]:
            sh = ev.string(rt.value)
            for h in S.holes(sh):
                inner = h.value if isinstance(h, ast.FormattedValue) else h
                tr = _safe(p, inner)
                if any(x[0] == "self" and ("attr:stored_value" in x or "attr:value" in x or "call:value" in x) for x in tr):
                    holes.append((h, inner, tr))
        if not holes:
            r.fail(Finding(rid, f, "value-not-printed", f"{spec} does not print the fluent's value"))
            continue
        bad = []
        for h, inner, tr in holes:
            lossy_steps = [s_ for x in tr for s_ in x if s_.startswith(("arg0:round", "arg0:int", "arg0:format", "binop:", "call:__format__", "arg0:Decimal", "call:quantize",
                                                                         "call:format", "kw:"))]
            direct = any(x in (("self", "attr:value"), ("self", "attr:stored_value")) for x in tr)
            spec_ = isinstance(h, ast.FormattedValue) and (h.format_spec is not None or h.conversion not in (-1, 114, 115))
            if spec_ or lossy_steps or not direct:
                bad.append(unparse(inner, 40) + (" with format spec" if spec_ else "") + (f" via {sorted(set(lossy_steps))}" if lossy_steps else ""))
        # a property used for the value must itself return the stored value unchanged
        vp = repo.func_opt("PDDLFunction.value")
        if vp is not None:
            pv = L.prov(repo, vp)
            for ret in L.func_returns(vp):
                if not all(x == ("self", "attr:stored_value") for x in pv.trace(ret.value)):
                    bad.append("PDDLFunction.value does not return stored_value unchanged")
        if bad:
            r.fail(Finding(rid, f, "lossy-value-text", f"the value is written as {bad[:2]}: values with more digits than the format keeps do not survive the round trip"))
        else:
            r.ok({"printer": f.qn, "value": "{self.value} (repr-exact)"})
    r.require_sites(2)
    return r


def rule_allconstants(repo: Repo, rid: str = "C08.allconstants") -> RuleResult:
    """every constant of the domain is written into (:constants ..): the only entry that may be skipped is the one NAMED 'object' (the
    placeholder the parser keeps for the root type); a filter on anything else -- the constant's type, its position -- drops declarations"""
    r = RuleResult(rid, "write_constants collects every constant except the entry named 'object'",
                   "the re-parsed domain declares exactly the source's constants")
    f = L.fn(repo, "DomainExporter.write_constants")
    p = L.prov(repo, f)
    g = C.cfg_of(f.node)
    cparam = [x for x in f.params if x != f.self_name]
    if not cparam:
        raise AnalysisError("write_constants: parameter with the constants not found")
    root = f"param:{cparam[0]}"
    loops = [n for n in ast.walk(f.node) if isinstance(n, ast.For) and any(x[0] == root for x in _safe(p, n.iter))]
    comps = [n for n in ast.walk(f.node) if isinstance(n, ast.comprehension) and any(x[0] == root for x in _safe(p, n.iter))]
    r.site(f.qn)
    if not loops and not comps:
        raise AnalysisError("write_constants: no walk over the constants found")

    def is_name(e) -> bool:
        tr = _safe(p, e)
        # the dict key, or the .name of the constant itself (not of its type)
        return bool(tr) and all(x[0] == root and "attr:type" not in x and
                                (x[-1] == "unpack:0" or (x[-1] == "attr:name" and x[-2] in ("unpack:1", "elem")) or
                                 (x[-1] == "elem" and "call:items" not in x and "call:values" not in x)) for x in tr)

    def matcher(e):
        if isinstance(e, ast.Compare) and len(e.ops) == 1 and isinstance(e.ops[0], (ast.Eq, ast.NotEq)):
            a, b = e.left, e.comparators[0]
            for x, y in ((a, b), (b, a)):
                if isinstance(y, ast.Constant) and y.value == "object" and is_name(x):
                    return "named_object" if isinstance(e.ops[0], ast.Eq) else "!named_object"
        return None

    G = L.Guards(f, matcher)
    bad = None
    for comp in comps:
        val = G._val({"named_object": False}, G.reach({"named_object": False}))
        if any(C.eval3(t, val) is not True for t in comp.ifs):
            bad = ("filter", comp.iter)
    for lp in loops:
        # what the loop does with a constant: the statements that use the loop variable(s) to fill something
        uses = set()
        names = C.target_names(lp.target)
        for st in ast.walk(lp):
            if isinstance(st, ast.stmt) and st is not lp and not isinstance(st, (ast.If, ast.For, ast.While)):
                hdr = C.header(st)
                if hdr is not None and any(isinstance(c_, ast.Call) and isinstance(c_.func, ast.Attribute) and c_.func.attr in ("append", "add", "update", "extend", "setdefault")
                                           for c_ in ast.walk(hdr)) and any(isinstance(x, ast.Name) and x.id in names for x in ast.walk(hdr)):
                    n_ = g.node_of(st)
                    if n_ is not None:
                        uses.add(n_)
                if isinstance(st, ast.Assign) and any(isinstance(t, ast.Subscript) for t in st.targets) and any(isinstance(x, ast.Name) and x.id in names for x in ast.walk(st)):
                    n_ = g.node_of(st)
                    if n_ is not None:
                        uses.add(n_)
        if not uses:
            continue
        if not L.must_pass_in_loop(G, {"named_object": False}, lp, uses):
            bad = ("skip", lp)
    if bad:
        r.fail(Finding(rid, f, "constant-skipped", "a constant that is not the entry named 'object' can be left out of the (:constants ..) section "
                       "(a filter on something other than that name)", node=bad[1]))
    else:
        r.ok({"constants": "all but the entry named 'object'"})
    return r


def rules(repo: Repo, tier: str) -> List[RuleResult]:
    from . import c13
    return [rule_fields(repo, "C08.fields", FIELD_TABLE), rule_typedparams(repo), rule_nocollapse(repo), rule_operand_kinds(repo), rule_polarity(repo), rule_keywords(repo),
            rule_balance(repo, "C08.balance", BALANCE_SITES), rule_order(repo), rule_options(repo),
            # numeric constants of preconditions / effects survive the export up to the print precision (the tree printer is part of the writer)
            c13.rule_round(repo, "C08.round", ["NumericalExpressionTree.to_pddl"]), rule_allconstants(repo)]
