"""C08 -- exporting a domain and parsing it back preserves vocabulary and behaviour."""
from __future__ import annotations

import ast
import re
from typing import Dict, List, Optional, Set, Tuple

from .. import cfg as C
from .. import fields as F
from .. import lib as L
from .. import templates as T
from ..core import AnalysisError, FuncInfo, Repo, unparse
from ..prov import callee_name
from ..report import Finding, RuleResult
from . import _c08_util as U

EXPLANATION = (
    "C08.fields: a backward slice from each printer's result (assignments, loop targets, append/extend, controlling tests, methods and "
    "properties of the printed object followed three levels deep) must reach every declared field of the printed object: Domain "
    "{name, requirements, types, constants, predicates, functions, actions}, Action, Precondition {operator, operands of all three "
    "kinds, equality and inequality pairs}, conditional / universal effects, predicates, functions, expression trees. C08.polarity: "
    "on the is_positive == False path the template is '(not ' + positive template + ')'. C08.keywords: every keyword the exporter "
    "writes is a head the domain parser dispatches on. C08.order: signature items reach the text unsorted. C08.balance: the literal "
    "parts of every writer template contain as many '(' as ')'. C08.options: a printer that takes print options passes them on at "
    "every recursive call (otherwise nested conditions are printed simplified at 2 digits although the exporter asked for "
    "unsimplified text). C08.operands: operands of each of the three kinds are handled, reach the returned text, and reach it through "
    "the operand's own text (untyped_representation / str / print / to_pddl) or through all of its identifying parts. The printers are "
    "analysed after flattening plus the local normalisations of _c08_util (generators at eager consumers, local tables, records and "
    "constant-key dicts split into locals, str.format / % templates written as f-strings), so the way the text is assembled is immaterial. "
    "C08.sections: for a collection of one element and for one of two or more (the printer's size tests evaluated for that size) every text "
    "extract_domain / effects_to_pddl can return contains a piece made from the collection. C08.returns: no path through a printer (or through "
    "an inlined helper that produces its text) ends without returning a text. C08.allconstants / C08.alltypes: the grouping walks skip only the "
    "entry named 'object' and never stop early. C08.switch: for each value of should_simplify every local the condition printer reads is bound, "
    "every kind of operand reaches the text through its own text, and with should_simplify=False numeric operands do not pass the simplifier; "
    "C08.options also requires the exporter to ask for should_simplify=False. C08.treetext: the two tree printers per kind of node (leaf / "
    "fluent / float / integral valuations): operator position and operand order of inner nodes (TREE_LAYOUT), leaves never read children, "
    "fluent leaves are their untyped text, non-integral numbers are never cut by int(), value and precision stand in their places."
)
UNDECIDED = "equality of vocabulary and behaviour after re-parsing; numeric precision; a second export/parse round"

# (site, root object, class, required fields, excluded {field: reason})
FIELD_TABLE = [
    ("DomainExporter.extract_domain", "domain", "Domain", {"name", "requirements", "types", "constants", "predicates", "functions", "actions"}, {}),
    ("DomainExporter.write_action", "action", "Action", {"name", "signature", "preconditions", "discrete_effects", "numeric_effects", "conditional_effects", "universal_effects"}, {}),
    ("Precondition.print", "self", "Precondition", {"binary_operator", "operands", "equality_preconditions", "inequality_preconditions"}, {}),
    ("UniversalPrecondition.__str__", "self", "UniversalPrecondition", {"binary_operator", "operands", "equality_preconditions", "inequality_preconditions", "quantified_parameter", "quantified_type"}, {}),
    ("ConditionalEffect.__str__", "self", "ConditionalEffect", {"antecedents", "discrete_effects", "numeric_effects"}, {}),
    ("UniversalEffect.__str__", "self", "UniversalEffect", {"quantified_parameter", "quantified_type", "conditional_effects"}, {}),
    ("Predicate.untyped_representation", "self", "Predicate", {"name", "signature", "is_positive"}, {}),
    ("Predicate.__str__", "self", "Predicate", {"name", "signature"}, {"is_positive": "the declaration form is always positive"}),
    ("PDDLFunction.__str__", "self", "PDDLFunction", {"name", "signature"}, {"stored_value": "declaration form", "repeating_variables": "declaration form"}),
    ("PDDLFunction.untyped_representation", "self", "PDDLFunction", {"name", "signature"}, {"stored_value": "lifted form", "repeating_variables": "lifted form (see the note in the source)"}),
    ("CompoundPrecondition.print", "self", "CompoundPrecondition", {"root"}, {}),
]


# fields whose influence on the text is legitimately through control flow only (which template is chosen)
CONTROL_OK = {"is_positive", "is_init"}


def rule_fields(repo: Repo, rid: str, table) -> RuleResult:
    r = RuleResult(rid, "each printer's result depends on every declared field of what it prints", "the exported text carries the whole object")
    for spec, root, cls, required, excluded in table:
        f = U.fn(repo, spec)
        rootname = f.self_name if root == "self" else root
        got = U.slice_fields(repo, f, rootname, cls, control=False) | (U.slice_fields(repo, f, rootname, cls) & CONTROL_OK)
        r.site(f.qn)
        declared = set(repo.declared_fields(cls)) - {"logger"}
        new_fields = declared - required - set(excluded)
        missing = sorted((required | new_fields) - got)
        if missing:
            r.fail(Finding(rid, f, f"field-not-printed:{'/'.join(missing)}", f"the text produced by {spec} does not depend on {missing} of {cls}"),
                   {"printer": f.qn, "fields_in_result": sorted(got & (required | declared))})
        else:
            r.ok({"printer": f.qn, "fields_in_result": sorted(got & (required | declared)), "excluded": excluded})
    r.require_sites(len(table))
    return r


PRINT = "Precondition.print"          # public entry of the condition printer (its private helpers are analysed in place)


def _fn_literals(repo: Repo, f: FuncInfo) -> List[str]:
    """string literals that take part in the text a writer builds, including those kept in module constants"""
    lits = list(T.function_literals(f))
    for n in ast.walk(f.node):
        if isinstance(n, ast.Name) and isinstance(n.ctx, ast.Load):
            ok, v = repo.const_value(f.mod.name, n.id)
            if ok and isinstance(v, str):
                lits.append(v)
    return lits


def _text_literals(repo: Repo, f: FuncInfo) -> List[str]:
    """the literal fragments of the text the writer returns (templates, separators, f-string parts, whatever way the text is put
    together); all string literals of the function when the construction of some returned text is not interpreted"""
    from .. import strshape as S
    rets = [x for x in L.func_returns(f) if x.value is not None]
    if not rets:
        return _fn_literals(repo, f)
    ev = U.Evaluator(repo, f)
    lits: List[str] = []
    for x in rets:
        try:
            sh = ev.string(x.value)
        except Exception:
            return _fn_literals(repo, f)
        if S.unknowns(sh):
            return _fn_literals(repo, f)
        lits += S.literals(sh)
    return lits


def rule_operand_kinds(repo: Repo) -> RuleResult:
    from .c02 import ClassDispatch
    r = RuleResult("C08.operands", "the condition printer prints operands of all three kinds (literal, numeric, nested) and all of them reach the text",
                   "each action's precondition denotes the same formula as the original")
    f = U.fn(repo, PRINT)
    p = L.prov(repo, f)
    loops = [n for n in ast.walk(f.node) if isinstance(n, ast.For) and any(x == ("self", "attr:operands") for x in p.trace(n.iter))]
    comps = [n for n in ast.walk(f.node) if isinstance(n, (ast.ListComp, ast.SetComp, ast.GeneratorExp))
             and any(x == ("self", "attr:operands") for x in p.trace(n.generators[0].iter))]
    if not loops and not comps:
        raise AnalysisError(f"{PRINT}: no loop / comprehension over self.operands found")
    rets = [x for x in L.func_returns(f) if x.value is not None]
    elem = ("self", "attr:operands", "elem")
    for cls in ("Predicate", "NumericalExpressionTree", "Precondition"):
        r.site(f"{f.qn} [{cls}]")
        reaches = False
        handled = False
        mro = repo.mro(cls)
        views: Set[str] = set()
        for lp in loops:
            D = ClassDispatch(repo, f, p, lp)
            if not D.tests:
                continue
            if D.matches_any(cls):
                handled = True
            under = D.under(cls)
            for rt in rets:
                tr = p.trace(rt.value, under=under)
                views |= _views(tr, elem)
                # content that this iteration puts into lists / strings which the returned text is built from
                if any(x[:3] == elem and any(st.startswith("in:") for st in x[3:]) or x[:3] == elem and len(x) > 3 for x in tr):
                    # the flow must pass a statement executed for this class
                    seen = D.reach(cls)
                    adders = [n for n in seen if isinstance(D.g.stmt[n], (ast.Expr, ast.Assign, ast.AugAssign)) and
                              any(y[:3] == elem for sub in ast.walk(D.g.stmt[n]) if isinstance(sub, ast.Name) and isinstance(sub.ctx, ast.Load)
                                  for y in _safe(p, sub))]
                    if adders:
                        reaches = True
        for c in comps:
            conds = [t for g_ in c.generators for t in g_.ifs]
            klasses = []
            for t in conds:
                for sub in ast.walk(t):
                    if isinstance(sub, ast.Call) and isinstance(sub.func, ast.Name) and sub.func.id == "isinstance" and len(sub.args) == 2:
                        from .c02 import _classes_of
                        klasses += _classes_of(repo, f, sub.args[1]) or []
            if any(k in mro for k in klasses):
                handled = True
                if any(any(st == "in:elt" for st in x) or True for rt in rets for x in p.trace(rt.value) if x[:3] == elem):
                    reaches = True
                    for rt in rets:
                        views |= _views(p.trace(rt.value), elem)
        if not handled:
            r.fail(Finding("C08.operands", f, f"operand-kind:{cls}", f"operands of class {cls} are not printed"))
        elif reaches and views and not (views & WHOLE_VIEWS) and not (PART_VIEWS[cls] <= views):
            r.fail(Finding("C08.operands", f, f"operand-kind-partial:{cls}", f"operands of class {cls} reach the text only through {sorted(views)}: "
                           f"neither the operand's own text (untyped_representation / str / print / to_pddl) nor all of {sorted(PART_VIEWS[cls])}"))
        elif reaches:
            r.ok({"class": cls, "reaches_text": True})
        else:
            r.fail(Finding("C08.operands", f, f"operand-kind-dropped:{cls}", f"operands of class {cls} are collected but never reach the returned text"))
    r.require_sites(3)
    return r


# the operand's own text, whichever printer is used for it
WHOLE_VIEWS = {"attr:untyped_representation", "arg0:str", "call:__str__", "arg0:format", "arg0:repr", "call:__repr__", "call:print", "call:_print_self",
               "call:to_pddl", "call:to_mathematical", "call:__copy__", "call:copy", "attr:lifted_untyped_representation"}
# a text put together from the operand's parts must use at least these
PART_VIEWS = {"Predicate": {"attr:name", "attr:signature"}, "Precondition": {"attr:binary_operator", "attr:operands"},
              "NumericalExpressionTree": {"attr:root"}}


def _views(paths, elem) -> Set[str]:
    """how the operand is looked at on its way into the text: the first step after the element that is not mere storage"""
    out: Set[str] = set()
    for x in paths:
        if x[:len(elem)] != elem:
            continue
        for st in x[len(elem):]:
            if st.startswith("in:") or st in ("elem", "item") or st.startswith(("item:", "unpack:", "slice:")):
                continue
            if st.startswith("arg0:") and "call:" + st[5:] in WHOLE_VIEWS:
                st = "call:" + st[5:]       # Cls.method(operand, ..) is operand.method(..)
            out.add(st)
            break
    return out


def _safe(p, e):
    try:
        return p.trace(e)
    except KeyError:
        return set()


def rule_polarity(repo: Repo, rid: str = "C08.polarity") -> RuleResult:
    from .. import strshape as S
    r = RuleResult(rid, "negative literal text = '(not ' + positive literal text + ')'", "a literal is printed with its polarity")
    for spec in ("Predicate.untyped_representation", "GroundedPredicate.untyped_representation", "GroundedPredicate.__str__"):
        f = U.fn(repo, spec)
        g = C.cfg_of(f.node)
        p = L.prov(repo, f)
        G = L.Guards(f, lambda e: "pos" if isinstance(e, ast.Attribute) and e.attr == "is_positive" and isinstance(e.ctx, ast.Load) else None)
        r.site(f.qn)
        if "pos" not in G.atoms_seen:
            r.fail(Finding(rid, f, "polarity-ignored", f"{spec} does not look at is_positive"))
            continue
        ev = U.Evaluator(repo, f)

        def hole(n):
            tr = _safe(p, n)
            return "/".join(sorted("|".join(x) for x in tr))[:200] if tr else unparse(n, 40)

        text = {}
        for pos in (True, False):
            seen = G.reach({"pos": pos})
            val = G._val({"pos": pos}, seen)
            rs = [g.stmt[n] for n in seen if g.kind[n] == "return" and g.stmt[n].value is not None]
            texts = set()
            for rt in rs:
                sh = ev.string(rt.value)
                if S.unknowns(sh):
                    raise AnalysisError(f"{spec}: the returned text is not interpreted ({S.unknowns(sh)[:1]})")
                texts.add(S.render(sh, hole, val))
            text[pos] = texts.pop() if len(texts) == 1 else None
        if text[True] is None or text[False] is None:
            raise AnalysisError(f"{spec}: the text for a positive / a negative literal is not a single template")
        ok = text[False] == "(not " + text[True] + ")"
        short = lambda t: t if len(t) < 120 else t[:117] + "..."
        if ok:
            r.ok({"printer": f.qn, "positive": short(text[True]), "negative": "(not <positive>)"})
        else:
            r.fail(Finding(rid, f, "negative-template", f"negative text {short(text[False])!r} is not '(not ' + {short(text[True])!r} + ')'"))
    r.require_sites(3)
    return r


def parser_heads(repo: Repo, specs: List[str]) -> Set[str]:
    """the string constants the readers compare a token with: written in place or folded from constants (below), or reaching the
    comparison / the dict lookup through a table of (keyword, handler) rows or a dict of handlers (U.heads_of)"""
    heads: Set[str] = set()
    for spec in specs:
        for f in (L.fn(repo, spec), U.fn(repo, spec)):
            for n in ast.walk(f.node):
                if isinstance(n, ast.Compare) and len(n.ops) == 1:
                    c = n.comparators[0]
                    if isinstance(n.ops[0], (ast.Eq, ast.NotEq)):
                        ok, v = repo.fold(c, f.mod.name)
                        if ok and isinstance(v, str):
                            heads.add(v)
                    elif isinstance(n.ops[0], (ast.In, ast.NotIn)):
                        ok, v = repo.fold(c, f.mod.name)
                        if ok and isinstance(v, list):
                            heads |= {x for x in v if isinstance(x, str)}
            heads |= U.heads_of(repo, f)
    return heads


def rule_keywords(repo: Repo) -> RuleResult:
    r = RuleResult("C08.keywords", "every keyword the domain writer emits is a head the domain reader dispatches on", "the exported text is read back by the library's own parser")
    writers = ["DomainExporter.extract_domain", "DomainExporter.write_action", "Action.effects_to_pddl", "ConditionalEffect.__str__",
               "UniversalEffect.__str__", "UniversalPrecondition.__str__", PRINT, "Predicate.untyped_representation"]
    readers = ["DomainParser.parse_domain", "DomainParser.parse_action", "DomainParser.parse_preconditions", "PreconditionsParser.parse",
               "EffectsParser.parse", "EffectsParser.parse_conditional_effect"]
    heads = parser_heads(repo, readers)
    # keywords matched structurally rather than by a head test
    heads |= {"define"}
    for w in writers:
        f = U.fn(repo, w)
        kw = T.keywords(_text_literals(repo, f)) - {"<", ">", "<=", ">="}
        r.site(f.qn)
        unknown = sorted(k for k in kw if k not in heads)
        if unknown:
            r.fail(Finding("C08.keywords", f, f"keyword-not-read:{'/'.join(unknown)}", f"{w} writes {unknown} which the domain parser never dispatches on"))
        else:
            r.ok({"writer": f.qn, "keywords": sorted(kw)})
    r.notes.append(f"reader heads: {sorted(heads)}")
    r.require_sites(8)
    return r


BALANCE_SITES = ["DomainExporter.extract_domain", "DomainExporter.write_action", "Action.effects_to_pddl", "ConditionalEffect.__str__",
                 "UniversalEffect.__str__", "UniversalPrecondition.__str__", PRINT, "Predicate.untyped_representation",
                 "Predicate.__str__", "PDDLFunction.__str__", "PDDLFunction.untyped_representation", "Action.__str__"]


def rule_balance(repo: Repo, rid: str, sites: List[str]) -> RuleResult:
    from .. import strshape as S
    r = RuleResult(rid, "the literal parts of every writer template contain as many '(' as ')'", "the text has balanced parentheses, so it can be read back at all")
    for spec in sites:
        f = U.fn(repo, spec)
        r.site(f.qn)
        # per alternative of every returned text; whole function when the construction is not interpreted
        rets = [x for x in L.func_returns(f) if x.value is not None]
        units: List[Tuple[str, List[str]]] = []
        ev = U.Evaluator(repo, f)
        interpretable = bool(rets)
        for x in rets:
            try:
                sh = ev.string(x.value)
            except Exception:
                interpretable = False
                break
            if S.unknowns(sh):
                interpretable = False
                break
            for i, b_ in enumerate(S.branches(sh)):
                units.append((f"return@{x.lineno}#{i}", S.literals(b_)))
        if not interpretable:
            units = [("function", _fn_literals(repo, f))]
        bad = []
        for name, lits in units:
            o, c = T.paren_balance(lits)
            if o != c:
                bad.append((name, o, c))
        if bad:
            r.fail(Finding(rid, f, "unbalanced-template", f"template literals of {spec} are unbalanced: {bad[:3]}"))
        else:
            r.ok({"writer": f.qn, "units": len(units)})
    r.require_sites(len(sites))
    return r


def rule_order(repo: Repo) -> RuleResult:
    r = RuleResult("C08.order", "signature items and declaration maps reach the text in their own order (no sorted / set / reversed)", "parameter order is preserved")
    bad_steps = ("arg0:sorted", "arg0:reversed", "arg0:set", "arg0:frozenset", "call:sort")
    for spec in ("DomainExporter.write_action", "Predicate.untyped_representation", "Predicate.__str__", "PDDLFunction.__str__",
                 "PDDLFunction.untyped_representation", "Action.__str__"):
        f = U.fn(repo, spec)
        p = L.prov(repo, f)
        r.site(f.qn)
        offenders = []
        for n in ast.walk(f.node):
            if isinstance(n, (ast.For, ast.comprehension)):
                for x in p.trace(n.iter):
                    if "attr:signature" in x and any(s.startswith(bad_steps) for s in x):
                        offenders.append(unparse(n.iter, 50))
                    # regrouped: the parameters were sorted into per-key groups of a local dict and are printed group by group
                    if "attr:signature" in x and any(s.startswith("in:") and "[]@" in s for s in x):
                        offenders.append(unparse(n.iter, 50) + " (regrouped)")
            if isinstance(n, ast.Call) and callee_name(n) == "join" and n.args:
                for x in p.trace(n.args[0]):
                    if "attr:signature" in x and any(s.startswith(bad_steps) for s in x):
                        offenders.append(unparse(n.args[0], 50))
        if offenders:
            r.fail(Finding("C08.order", f, "signature-reordered", f"the signature is re-ordered before printing: {offenders[:2]}"))
        else:
            r.ok({"printer": f.qn})
    r.require_sites(6)
    return r


def rule_options(repo: Repo) -> RuleResult:
    r = RuleResult("C08.options", "print options (should_simplify, decimal_digits) are passed on at every nested print", "the exporter asks for unsimplified text; nested conditions must honour it")
    f = U.fn(repo, PRINT)
    opts = [x for x in f.params if x in ("should_simplify", "decimal_digits")]
    if len(opts) != 2:
        raise AnalysisError(f"{PRINT}: print options not found")
    p = L.prov(repo, f)
    for c in L.calls_in(f.node):
        if isinstance(c.func, ast.Name) and c.func.id == "str" and c.args:
            t = repo.types(f).typeof(c.args[0])
            tr = p.trace(c.args[0])
            if any("attr:operands" in x for x in tr):
                r.site(L.site(f, c, "nested print"))
                r.fail(Finding("C08.options", f, "call:str(operand)", f"{unparse(c)} prints a nested condition with the default options "
                               f"(should_simplify=True, decimal_digits=2) instead of the ones requested", node=c))
        if isinstance(c.func, ast.Attribute) and any("attr:operands" in x for x in _safe(p, c.func.value)) and \
                callee_name(c) not in ("__str__", "copy", "to_pddl", "to_mathematical", "append", "add", "sort"):
            # a nested condition is printed through the condition class's own entry point: a subclass that only overrides __str__
            # (UniversalPrecondition: the quantifier header) must not be bypassed
            m = callee_name(c)
            bypassed = [sc for sc in repo.subclasses("Precondition") if "__str__" in repo.classes[sc].methods and m not in repo.classes[sc].methods
                        and repo.find_method("Precondition", m) is not None]
            if bypassed:
                r.site(L.site(f, c, "nested print dispatch"))
                r.fail(Finding("C08.options", f, f"bypasses-subclass-printer:{m}", f"{unparse(c, 60)} calls Precondition.{m} directly on a nested condition: "
                               f"{bypassed} override only __str__, so their own text (e.g. the (forall (...) header) is lost", node=c))
        if callee_name(c) in ("print", "_print_self") and isinstance(c.func, ast.Attribute):
            r.site(L.site(f, c, "nested print"))
            passed = {o for o in opts for a_ in list(c.args) + [k.value for k in c.keywords] if L.is_param(p, a_, o)}
            if set(opts) <= passed:
                r.ok({"call": unparse(c), "options_passed": True})
            else:
                r.fail(Finding("C08.options", f, f"call:{callee_name(c)}-without-options", f"{unparse(c)} drops the print options", node=c))
        if callee_name(c) == "to_pddl" and isinstance(c.func, ast.Attribute):
            r.site(L.site(f, c, "numeric print"))
            if any(L.is_param(p, a_, "decimal_digits") for a_ in list(c.args) + [k.value for k in c.keywords]):
                r.ok({"call": unparse(c), "decimal_digits": True})
            else:
                r.fail(Finding("C08.options", f, "call:to_pddl-without-digits", f"{unparse(c)} ignores decimal_digits", node=c))
    # printers without option parameters that print a nested condition: the options cannot reach it
    for spec, attr, role in (("ConditionalEffect.__str__", "antecedents", "call:str(self.antecedents)"),
                             ("UniversalPrecondition.__str__", None, "call:super()._print_self()")):
        # the text of the antecedents may be produced by a helper / a template (analysed in place); the bare super() call is looked for
        # in the printer as written (analysed in place it would no longer be a call)
        g = U.fn(repo, spec) if attr else repo.func(spec)
        pg = L.prov(repo, g)
        for c in L.calls_in(g.node):
            nested = False
            if isinstance(c.func, ast.Name) and c.func.id == "str" and c.args and attr and any(x == ("self", f"attr:{attr}") for x in _safe(pg, c.args[0])):
                nested = True
            if isinstance(c.func, ast.Attribute) and isinstance(c.func.value, ast.Call) and callee_name(c.func.value) == "super" and not c.args and not c.keywords \
                    and callee_name(c) in ("_print_self", "print", "__str__"):
                nested = True
            if nested:
                r.site(L.site(g, c, "nested print"))
                r.fail(Finding("C08.options", g, role, f"{unparse(c)} prints with the default options (simplified, 2 digits): "
                               f"the domain exporter's should_simplify=False does not reach it", node=c))
        for v in [n for n in ast.walk(g.node) if isinstance(n, ast.FormattedValue)]:
            if attr and any(x == ("self", f"attr:{attr}") for x in _safe(pg, v.value)) and not isinstance(v.value, ast.Call):
                r.site(L.site(g, v, "nested print"))
                r.fail(Finding("C08.options", g, role, f"{{{unparse(v.value)}}} prints with the default options (simplified, 2 digits): "
                               f"the domain exporter's should_simplify=False does not reach it", node=v))
    # the exporter asks for the unsimplified text: the action's precondition is printed through print(..) with should_simplify False
    w = U.fn(repo, "DomainExporter.write_action")
    pw = L.prov(repo, w)
    aparams = [x for x in w.params if x != w.self_name]
    if aparams:
        pre = (f"param:{aparams[0]}", "attr:preconditions")
        for c in L.calls_in(w.node):
            if not (isinstance(c.func, ast.Attribute) and callee_name(c) in ("print", "_print_self")):
                continue
            tr = _safe(pw, c.func.value)
            if not tr or not all(x[:2] == pre for x in tr):
                continue
            r.site(L.site(w, c, "exporter's print"))
            callee = next((m for k in ("CompoundPrecondition", "Precondition") for m in [repo.find_method(k, callee_name(c))]
                           if m is not None and "should_simplify" in m.params), None)
            a = L.arg_of(c, callee, "should_simplify", 0)
            if a is None:
                asked = callee.defaults.get("should_simplify") if callee is not None and hasattr(callee, "defaults") and isinstance(callee.defaults, dict) else None
                v = L.is_true_const(asked) if asked is not None else True
            else:
                v = L.is_true_const(a)
                if v is None:
                    ta = _safe(pw, a)
                    if ta and all(x in (("const:True",), ("const:False",)) for x in ta) and len(ta) == 1:
                        v = next(iter(ta)) == ("const:True",)
            if v is True:
                r.fail(Finding("C08.options", w, "exporter-asks-simplified", f"{unparse(c, 70)} asks the condition printer to simplify: the top-level "
                               f"precondition is rewritten by sympy (re-associated terms, rationals that the printer cannot convert back) instead of "
                               f"being written as it is", node=c))
            else:
                r.ok({"call": unparse(c, 70), "should_simplify": False if v is False else "not a constant"})
    r.require_sites(2)
    return r


def _alternatives(e: ast.AST) -> List[ast.AST]:
    if isinstance(e, ast.IfExp):
        return _alternatives(e.body) + _alternatives(e.orelse)
    return [e]


TYPED_LIST_SITES = ["DomainExporter.write_action", "Predicate.__str__", "PDDLFunction.__str__", "Action.__str__", "GroundedPredicate.__str__",
                    "PDDLFunction.state_typed_representation"]


def rule_typedparams(repo: Repo, rid: str = "C08.typedparams", sites: Optional[List[str]] = None) -> RuleResult:
    from .. import strshape as S
    r = RuleResult(rid, "in a typed list every entry is written as '<name> - <type>' on every alternative (no entry may omit its type)",
                   "PDDL typed lists are grouped: an entry without '- type' takes the type of the next typed entry")
    for spec in (sites or TYPED_LIST_SITES):
        f = U.fn(repo, spec)
        p = L.prov(repo, f)
        ev = U.Evaluator(repo, f)
        r.site(f.qn)
        entries = []          # repetitions over the signature / the call objects whose body carries literal text
        for rt in [x for x in L.func_returns(f) if x.value is not None]:
            try:
                sh = ev.string(rt.value)
            except Exception as ex:
                raise AnalysisError(f"{spec}: the returned text is not interpreted ({ex})")
            for rep in S.reps(sh):
                it = _safe(p, rep.loop.iter) if rep.loop.iter is not None else set()
                if any("attr:signature" in x or "attr:grounded_call_objects" in x for x in it):
                    entries.append(rep)
        if not entries:
            raise AnalysisError(f"{spec}: typed-list element template not found")
        bad = []
        judged = 0
        for rep in entries:
            if not S.literals(rep.body):
                continue        # a list of bare names, not a typed list
            judged += 1
            for alt in S.branches(rep.body):
                lits, hs = S.literals(alt), S.holes(alt)
                if len(hs) < 2 or not any(" - " in l for l in lits):
                    bad.append(S.render(alt, lambda n: unparse(n, 30)))
        if not judged:
            # the lists over the signature were found and interpreted, none of them has any text between its holes: bare names
            r.fail(Finding(rid, f, "entry-without-type", f"{spec}: the entries of the typed list are written as bare names "
                           f"({[S.render(rep.body, lambda n: unparse(n, 30)) for rep in entries][:2]}): no entry carries '- type'"))
            continue
        if bad:
            r.fail(Finding(rid, f, "entry-without-type", f"a typed-list entry can be written without its type: {bad[:2]}; in a grouped typed list it then takes the "
                           f"type of the following entry"))
        else:
            r.ok({"printer": f.qn, "entry": "<name> - <type> on every alternative"})
    r.require_sites(len(sites or TYPED_LIST_SITES))
    return r


FULL_TEXT = ("attr:untyped_representation", "attr:state_representation", "call:to_pddl", "arg0:str", "call:__str__", "attr:lifted_untyped_representation",
             "attr:state_typed_representation")


def printer_functions(repo: Repo) -> List[FuncInfo]:
    out = []
    for f in repo.all_funcs():
        top = f.mod.short.split(".")[0]
        if top == "exporters" and not f.name.startswith("__") and "output_parser" not in f.mod.short:
            out.append(f)
        elif top == "models" and f.name in ("__str__", "_print_self", "print", "effects_to_pddl", "serialize", "_serialize_predicates", "_serialize_numeric_fluents",
                                            "typed_serialize", "untyped_representation", "state_representation", "state_typed_representation", "to_pddl", "_convert_to_pddl"):
            out.append(f)
        elif top == "multi_agent" and f.name in ("export", "export_to_file", "export_plan"):
            out.append(f)
    return out


def rule_nocollapse(repo: Repo, rid: str = "C08.nocollapse", funcs: Optional[List[FuncInfo]] = None, floor: int = 20) -> RuleResult:
    r = RuleResult(rid, "the elements of a collection are never funnelled through a dict keyed by a *part* of the element",
                   "nothing is lost on the way: two different elements with the same partial key would collapse into one")
    fs = funcs if funcs is not None else printer_functions(repo)
    for f in fs:
        p = L.prov(repo, f)
        r.site(f.qn)
        offenders = []
        cands: List[Tuple[ast.AST, ast.AST, ast.AST]] = []
        for n in ast.walk(f.node):
            if isinstance(n, ast.DictComp):
                cands.append((n.key, n.value, n))
            elif isinstance(n, ast.Assign) and len(n.targets) == 1 and isinstance(n.targets[0], ast.Subscript) and isinstance(n.targets[0].value, ast.Name):
                cands.append((n.targets[0].slice, n.value, n))
        for k, v, anchor in cands:
            tv = [x for x in p.trace(v) if "elem" in x and x[0] in ("self",) or (x[0].startswith("param:") and "elem" in x)]
            tk = [x for x in p.trace(k) if "elem" in x and (x[0] == "self" or x[0].startswith("param:"))]
            if not tv or not tk:
                continue
            for kp in tk:
                i = len(kp) - 1 - kp[::-1].index("elem")
                pre, post = kp[: i + 1], [s for s in kp[i + 1:] if not s.startswith("unpack:")]
                same_coll = any(vp[: len(pre)] == pre for vp in tv)
                if same_coll and post and not any(s in FULL_TEXT for s in post):
                    offenders.append((unparse(anchor, 70), "/".join(post)))
        if offenders:
            r.fail(Finding(rid, f, f"partial-key:{offenders[0][1]}", f"{offenders[0][0]} keys the printed elements by {offenders[0][1]}: elements that agree on that part "
                           f"overwrite each other and are missing from the text"))
        else:
            r.ok({"printer": f.qn, "dict_keyed_by_part_of_element": False})
    r.require_sites(floor)
    return r


def rule_valuetext(repo: Repo, rid: str) -> RuleResult:
    from .. import strshape as S
    r = RuleResult(rid, "a fluent's value is written with Python's round-trip float text (no format spec, no rounding)",
                   "the same fluents with the same values after reading the text back")
    for spec in ("PDDLFunction.state_representation", "PDDLFunction.state_typed_representation"):
        f = U.fn(repo, spec)
        p = L.prov(repo, f)
        r.site(f.qn)
        ev = U.Evaluator(repo, f)
        holes = []
        for rt in [x for x in L.func_returns(f) if x.value is not None]:
            sh = ev.string(rt.value)
            for h in S.holes(sh):
                inner = h.value if isinstance(h, ast.FormattedValue) else h
                tr = _safe(p, inner)
                if any(x[0] == "self" and ("attr:stored_value" in x or "attr:value" in x or "call:value" in x) for x in tr):
                    holes.append((h, inner, tr))
        if not holes:
            r.fail(Finding(rid, f, "value-not-printed", f"{spec} does not print the fluent's value"))
            continue
        bad = []
        for h, inner, tr in holes:
            lossy_steps = [s_ for x in tr for s_ in x if s_.startswith(("arg0:round", "arg0:int", "arg0:format", "binop:", "call:__format__", "arg0:Decimal", "call:quantize",
                                                                         "call:format", "kw:"))]
            direct = any(x in (("self", "attr:value"), ("self", "attr:stored_value")) for x in tr)
            spec_ = isinstance(h, ast.FormattedValue) and (h.format_spec is not None or h.conversion not in (-1, 114, 115))
            if spec_ or lossy_steps or not direct:
                bad.append(unparse(inner, 40) + (" with format spec" if spec_ else "") + (f" via {sorted(set(lossy_steps))}" if lossy_steps else ""))
        # a property used for the value must itself return the stored value unchanged
        vp = repo.func_opt("PDDLFunction.value")
        if vp is not None:
            pv = L.prov(repo, vp)
            for ret in L.func_returns(vp):
                if not all(x == ("self", "attr:stored_value") for x in pv.trace(ret.value)):
                    bad.append("PDDLFunction.value does not return stored_value unchanged")
        if bad:
            r.fail(Finding(rid, f, "lossy-value-text", f"the value is written as {bad[:2]}: values with more digits than the format keeps do not survive the round trip"))
        else:
            r.ok({"printer": f.qn, "value": "{self.value} (repr-exact)"})
    r.require_sites(2)
    return r


def rule_allconstants(repo: Repo, rid: str = "C08.allconstants", spec: str = "DomainExporter.write_constants", what: str = "constant") -> RuleResult:
    """every constant (type) of the domain is written into (:constants ..) / (:types ..): the only entry that may be skipped is the one NAMED
    'object' (the placeholder the parser keeps for the root type); a filter on anything else -- the constant's type, its position --
    drops declarations, and so does a walk that stops at that entry instead of going on with the next one"""
    short = spec.split(".")[-1]
    r = RuleResult(rid, f"{short} collects every {what} except the entry named 'object'",
                   f"the re-parsed domain declares exactly the source's {what}s")
    f = L.fn(repo, spec)
    p = L.prov(repo, f)
    g = C.cfg_of(f.node)
    cparam = [x for x in f.params if x != f.self_name]
    if not cparam:
        raise AnalysisError(f"{short}: parameter with the {what}s not found")
    root = f"param:{cparam[0]}"
    loops = [n for n in ast.walk(f.node) if isinstance(n, ast.For) and any(x[0] == root for x in _safe(p, n.iter))]
    comps = [n for n in ast.walk(f.node) if isinstance(n, ast.comprehension) and any(x[0] == root for x in _safe(p, n.iter))]
    r.site(f.qn)
    if not loops and not comps:
        raise AnalysisError(f"{short}: no walk over the {what}s found")

    def is_name(e) -> bool:
        tr = _safe(p, e)
        # the dict key, or the .name of the constant itself (not of its type)
        return bool(tr) and all(x[0] == root and "attr:type" not in x and
                                (x[-1] == "unpack:0" or (x[-1] == "attr:name" and x[-2] in ("unpack:1", "elem")) or
                                 (x[-1] == "elem" and "call:items" not in x and "call:values" not in x)) for x in tr)

    def matcher(e):
        if isinstance(e, ast.Compare) and len(e.ops) == 1 and isinstance(e.ops[0], (ast.Eq, ast.NotEq)):
            a, b = e.left, e.comparators[0]
            for x, y in ((a, b), (b, a)):
                if isinstance(y, ast.Constant) and y.value == "object" and is_name(x):
                    return "named_object" if isinstance(e.ops[0], ast.Eq) else "!named_object"
        return None

    G = L.Guards(f, matcher)
    bad = None
    for comp in comps:
        val = G._val({"named_object": False}, G.reach({"named_object": False}))
        if any(C.eval3(t, val) is not True for t in comp.ifs):
            bad = ("filter", comp.iter)
    for lp in loops:
        # what the loop does with a constant: the statements that use the loop variable(s) to fill something
        uses = set()
        names = C.target_names(lp.target)
        for st in ast.walk(lp):
            if isinstance(st, ast.stmt) and st is not lp and not isinstance(st, (ast.If, ast.For, ast.While)):
                hdr = C.header(st)
                if hdr is not None and any(isinstance(c_, ast.Call) and isinstance(c_.func, ast.Attribute) and c_.func.attr in ("append", "add", "update", "extend", "setdefault")
                                           for c_ in ast.walk(hdr)) and any(isinstance(x, ast.Name) and x.id in names for x in ast.walk(hdr)):
                    n_ = g.node_of(st)
                    if n_ is not None:
                        uses.add(n_)
                if isinstance(st, ast.Assign) and any(isinstance(t, ast.Subscript) for t in st.targets) and any(isinstance(x, ast.Name) and x.id in names for x in ast.walk(st)):
                    n_ = g.node_of(st)
                    if n_ is not None:
                        uses.add(n_)
        if not uses:
            continue
        if not L.must_pass_in_loop(G, {"named_object": False}, lp, uses):
            bad = ("skip", lp)
        elif any(L.leaves_loop_early(G, v, lp) for v in ({"named_object": True}, {"named_object": False})):
            # the entry named 'object' is skipped, the walk goes on: the parser keeps that entry wherever the source declared it
            bad = ("stop", lp)
    if bad and bad[0] == "stop":
        r.fail(Finding(rid, f, f"{what}-walk-left-early", f"the walk over the {what}s can end before the last one (at the entry named 'object' or "
                       f"at another entry): every {what} after it is left out of the (:{what}s ..) section", node=bad[1]))
    elif bad:
        r.fail(Finding(rid, f, f"{what}-skipped", f"a {what} that is not the entry named 'object' can be left out of the (:{what}s ..) section "
                       "(a filter on something other than that name)", node=bad[1]))
    else:
        r.ok({f"{what}s": "all but the entry named 'object'"})
    return r


# views of a numeric operand that mean "rewritten by the simplifier" (the exporter asks for the text as it is: should_simplify=False)
SIMPLIFIER_VIEWS = {"call:__copy__", "call:copy", "call:to_mathematical", "arg0:deepcopy"}
OPERAND_CLASSES = ("Predicate", "NumericalExpressionTree", "Precondition")


def rule_switch(repo: Repo, rid: str = "C08.switch") -> RuleResult:
    """the condition printer under each value of its should_simplify switch (the exporter passes False, nested conditions and antecedents
    are printed with the default True): every local it reads is bound, operands of every kind reach the text through their own text, and
    with should_simplify=False a numeric operand is printed by to_pddl without passing the simplifier"""
    from .c02 import ClassDispatch
    r = RuleResult(rid, "for each value of should_simplify the condition printer prints every kind of operand through the operand's own text; "
                   "unsimplified means to_pddl", "the exported precondition is the source's formula, literally when the exporter asks for it")
    f = U.fn(repo, PRINT)
    if "should_simplify" not in f.params:
        raise AnalysisError(f"{PRINT}: parameter should_simplify not found")
    p = L.prov(repo, f)
    loops = [n for n in ast.walk(f.node) if isinstance(n, ast.For) and any(x == ("self", "attr:operands") for x in p.trace(n.iter))]
    rets = [x for x in L.func_returns(f) if x.value is not None]
    elem = ("self", "attr:operands", "elem")
    sm = L.bool_param_atoms({"should_simplify": "simplify"})
    dispatches = [D for D in (ClassDispatch(repo, f, p, lp) for lp in loops) if D.tests]
    for v in (True, False):
        r.site(f"{f.qn} [should_simplify={v}]")
        G0 = L.Guards(f, sm)
        if "simplify" not in G0.atoms_seen:
            r.ok({"should_simplify": v, "switch_not_tested": True})
            continue
        ub = U.unbound_under(G0, {"simplify": v})
        if ub:
            r.fail(Finding(rid, f, f"local-unbound@should_simplify={v}", f"with should_simplify={v} the printer reads a local that no statement "
                           f"on that path has bound ({unparse(ub[0], 40)!r}): UnboundLocalError for every condition printed this way", node=ub[0]))
            continue
        problems = []
        for D in dispatches:
            G = L.Guards(f, lambda e, D=D: (f"isa{id(e)}" if id(e) in D.tests else sm(e)))
            for cls in OPERAND_CLASSES:
                if not D.matches_any(cls):
                    continue
                val = dict(D.valuation(cls))
                val["simplify"] = v
                under = G.under(val)
                views: Set[str] = set()
                for rt in rets:
                    try:
                        views |= _views(p.trace(rt.value, under=under), elem)
                    except (KeyError, RecursionError):
                        views = {"?"}
                        break
                if "?" in views:
                    continue
                if not views:
                    problems.append((f"operand-kind-dropped:{cls}@should_simplify={v}", f"with should_simplify={v} operands of class {cls} do not reach the returned text"))
                elif not (views & WHOLE_VIEWS) and not (PART_VIEWS[cls] <= views):
                    problems.append((f"operand-kind-partial:{cls}@should_simplify={v}", f"with should_simplify={v} operands of class {cls} reach the text only "
                                     f"through {sorted(views)}: neither the operand's own text nor all of {sorted(PART_VIEWS[cls])}"))
                elif v is False and cls == "NumericalExpressionTree" and views & SIMPLIFIER_VIEWS:
                    problems.append((f"unsimplified-print-simplifies", f"with should_simplify=False numeric operands reach the text through {sorted(views)} "
                                     f"instead of to_pddl: the exporter's literal text is rewritten (re-associated, sympy rationals raise KeyError)"))
        if problems:
            for role, text in problems[:2]:
                r.fail(Finding(rid, f, role, text))
        else:
            r.ok({"should_simplify": v, "operands": "own text"})
    r.require_sites(2)
    return r


# printer of an expression tree -> where the operator stands (the text the reader / the simplifier expects)
TREE_LAYOUT = {
    "NumericalExpressionTree.to_pddl": "prefix",          # PDDL: (op left right); construct_expression_tree reads item 0 as the operator
    "NumericalExpressionTree.to_mathematical": "infix",   # the sympy front end of the simplifier reads (left op right)
}
TREE_TEXT = {"prefix": {"({op} {left} {right})", "({op} [{child}]*< >)"}, "infix": {"({left} {op} {right})"}}
TRUNCATING_STEPS = ("arg0:int", "arg0:round", "arg0:floor", "arg0:trunc", "arg0:ceil")
FUNCTION_LEAF_CLASS = "PDDLFunction"
LIFTED_VIEW = "attr:untyped_representation"      # `(name ?x ?y)`: what the reader of a numeric expression accepts for a fluent


def _after(path: tuple, step: str) -> Optional[tuple]:
    return path[path.index(step) + 1:] if step in path else None


def _tree_atoms(repo: Repo, f: FuncInfo, p):
    """atoms of a tree printer: 'leaf' (the node has no children), 'func' (the leaf holds a fluent), 'float' (isinstance(value, float)),
    'integer' (the number has no fraction) -- each recognised on provenance: tests on the node's `.is_leaf` / `.children`, on its `.value`"""
    from .c02 import _classes_of

    def is_value(e) -> bool:
        tr = _safe(p, e)
        return bool(tr) and all(x[-1] == "attr:value" or (len(x) > 1 and x[-2] == "attr:value" and x[-1] in ("arg0:float",)) for x in tr)

    def is_children(e) -> bool:
        tr = _safe(p, e)
        return bool(tr) and all(x[-1] == "attr:children" and x.count("attr:children") == 1 for x in tr)

    def number_of(e):
        """e is the value, or float(value)"""
        if isinstance(e, ast.Call) and isinstance(e.func, ast.Name) and e.func.id == "float" and len(e.args) == 1:
            return is_value(e.args[0])
        return is_value(e)

    def matcher(e):
        if isinstance(e, ast.Attribute) and e.attr == "is_leaf" and isinstance(e.ctx, ast.Load):
            tr = _safe(p, e.value)
            return "leaf" if tr and not any("attr:children" in x for x in tr) else None       # the printed node, not one of its children
        if isinstance(e, ast.Attribute) and e.attr == "children" and isinstance(e.ctx, ast.Load) and is_children(e):
            return "!leaf"
        if isinstance(e, ast.Call) and isinstance(e.func, ast.Name) and e.func.id == "isinstance" and len(e.args) == 2 and is_value(e.args[0]):
            cs = _classes_of(repo, f, e.args[1]) or []
            if cs and all(FUNCTION_LEAF_CLASS in repo.mro(c) for c in cs if c in repo.classes) and all(c in repo.classes for c in cs):
                return "func"
            if cs == ["float"]:
                return "float"
            if cs and not any(c in repo.classes for c in cs):
                return "plain"          # int / float / str / Number ...: a value of such a class is not a fluent
            return None
        if isinstance(e, ast.Call) and isinstance(e.func, ast.Attribute) and e.func.attr == "is_integer" and not e.args and number_of(e.func.value):
            return "integer"
        if isinstance(e, ast.Compare) and len(e.ops) == 1 and isinstance(e.ops[0], (ast.Eq, ast.NotEq)):
            a, b = e.left, e.comparators[0]
            neg = "!" if isinstance(e.ops[0], ast.NotEq) else ""
            for x, y in ((a, b), (b, a)):
                if isinstance(y, ast.Call) and isinstance(y.func, ast.Name) and y.func.id == "int" and len(y.args) == 1 and number_of(x) and number_of(y.args[0]):
                    return neg + "integer"
                if isinstance(x, ast.BinOp) and isinstance(x.op, ast.Mod) and number_of(x.left) and isinstance(x.right, ast.Constant) and x.right.value == 1 \
                        and isinstance(y, ast.Constant) and y.value == 0:
                    return neg + "integer"
                if isinstance(x, ast.Call) and isinstance(x.func, ast.Name) and x.func.id == "len" and len(x.args) == 1 and is_children(x.args[0]) \
                        and isinstance(y, ast.Constant) and isinstance(y.value, int):
                    return (neg + "leaf") if y.value == 0 else (("!" if not neg else "") + "leaf" if y.value == 2 else None)
        return None

    return matcher, is_value, is_children


def _precision_format(e: ast.AST):
    """`f"{V:.{D}f}"`, `"{x:.{d}f}".format(x=V, d=D)`, `format(V, f".{D}f")`, `"%.*f" % (D, V)`  ->  (V, D) with D an expression or an int;
    None when e is not a fixed-point format of one value"""
    import string as _string

    def spec_of(spec: ast.AST):
        """'.{D}f' / '.3f' as the format_spec of an f-string -> D"""
        if isinstance(spec, ast.Constant) and isinstance(spec.value, str):
            m = re.fullmatch(r"\.(\d+)f", spec.value)
            return int(m.group(1)) if m else None
        if isinstance(spec, ast.JoinedStr):
            vs = spec.values
            if len(vs) == 1 and isinstance(vs[0], ast.Constant):
                return spec_of(vs[0])
            if len(vs) == 3 and isinstance(vs[0], ast.Constant) and vs[0].value == "." and isinstance(vs[1], ast.FormattedValue) \
                    and isinstance(vs[2], ast.Constant) and vs[2].value == "f":
                return vs[1].value
        return None

    if isinstance(e, ast.JoinedStr):
        vs = [v for v in e.values if not (isinstance(v, ast.Constant) and v.value == "")]
        if len(vs) == 1 and isinstance(vs[0], ast.FormattedValue) and vs[0].format_spec is not None:
            d = spec_of(vs[0].format_spec)
            return (vs[0].value, d) if d is not None else None
        return None
    if isinstance(e, ast.Call) and isinstance(e.func, ast.Name) and e.func.id == "format" and len(e.args) == 2:
        d = spec_of(e.args[1])
        return (e.args[0], d) if d is not None else None
    if isinstance(e, ast.Call) and isinstance(e.func, ast.Attribute) and e.func.attr == "format" and isinstance(e.func.value, ast.Constant) \
            and isinstance(e.func.value.value, str) and not any(isinstance(a, ast.Starred) for a in e.args) and all(k.arg for k in e.keywords):
        try:
            parsed = [x for x in _string.Formatter().parse(e.func.value.value)]
        except ValueError:
            return None
        if len(parsed) != 1 or parsed[0][0] or parsed[0][1] is None or parsed[0][3]:
            return None
        kw = {k.arg: k.value for k in e.keywords}
        auto = [0]

        def arg(field: str):
            if field == "":
                i = auto[0]
                auto[0] += 1
                return e.args[i] if i < len(e.args) else None
            if field.isdigit():
                return e.args[int(field)] if int(field) < len(e.args) else None
            return kw.get(field)

        v = arg(parsed[0][1])
        spec = parsed[0][2] or ""
        m = re.fullmatch(r"\.(\d+)f", spec)
        if m:
            return (v, int(m.group(1))) if v is not None else None
        m = re.fullmatch(r"\.\{([^{}]*)\}f", spec)
        if m and v is not None:
            d = arg(m.group(1))
            return (v, d) if d is not None else None
        return None
    if isinstance(e, ast.BinOp) and isinstance(e.op, ast.Mod) and isinstance(e.left, ast.Constant) and e.left.value == "%.*f" \
            and isinstance(e.right, ast.Tuple) and len(e.right.elts) == 2:
        return e.right.elts[1], e.right.elts[0]
    return None


def rule_treetext(repo: Repo, rid: str = "C08.treetext") -> RuleResult:
    """the printers of a numeric expression tree, decided per kind of node (valuations of: leaf / fluent / float / integral):
    an inner node is '(' operator, left subtree, right subtree ')' in the order of TREE_LAYOUT with the subtrees taken from children[0] and
    children[1]; a leaf never looks at children; a fluent leaf is its untyped (lifted) text; a number that is not integral is never cut by
    int(); a fixed-point format formats the node's value with the requested number of digits"""
    from .. import strshape as S
    r = RuleResult(rid, "tree printers: operator position and operand order of inner nodes, fluent leaves untyped, non-integral numbers not truncated, "
                   "value and precision in their places", "numeric conditions and effects denote the same expression after re-parsing, constants up to the stated decimals")
    for spec, layout in TREE_LAYOUT.items():
        f = U.fn(repo, spec)
        p = L.prov(repo, f)
        matcher, is_value, is_children = _tree_atoms(repo, f, p)
        G = L.Guards(f, matcher)
        ev = U.Evaluator(repo, f)
        atoms = G.atoms_seen
        r.site(f.qn)
        problems: List[Tuple[str, str, Optional[ast.AST]]] = []
        if "leaf" not in atoms:
            r.ok({"printer": f.qn, "leaf_test": "not recognised: no claim"})
            continue

        def finals_under(val):
            seen = G.reach(val)
            return U.final_values(G, val, seen), G.under(val, seen)

        # -- a leaf has no children
        val = {"leaf": True}
        seen = G.reach(val)
        for n in ast.walk(f.node):
            reads = None
            if isinstance(n, ast.Subscript) and isinstance(n.ctx, ast.Load) and is_children(n.value):
                reads = n
            elif isinstance(n, (ast.For, ast.comprehension)) and is_children(n.iter):
                reads = n.iter
            elif isinstance(n, ast.Assign) and isinstance(n.targets[0], (ast.Tuple, ast.List)) and is_children(n.value):
                reads = n.value
            if reads is not None and G.reaches_expr(val, reads, seen=seen):
                problems.append(("leaf-reads-children", f"a leaf can get as far as {unparse(n if isinstance(n, ast.Subscript) else reads, 50)}: a leaf has no children "
                                 f"(IndexError), one of its kinds is not given a text of its own", reads))
                break
        # -- inner node: layout
        finals, under = finals_under({"leaf": False})
        for e, _at in finals:
            if e is None:
                continue
            try:
                sh = ev.string(e)
            except Exception:
                continue
            if S.unknowns(sh):
                continue

            def hole(n):
                inner = n.value if isinstance(n, ast.FormattedValue) else n
                names = set()
                for x in _safe_under(p, inner, under):
                    rest = _after(x, "attr:children")
                    if rest is not None and rest:
                        names.add("left" if rest[0] in ("item:0", "unpack:0") else "right" if rest[0] in ("item:1", "unpack:1") else "child" if rest[0] == "elem" else "?")
                    elif rest is None and ("attr:value" in x or "attr:id" in x):
                        names.add("op")       # an inner node is built with id == value == the operator
                return "+".join(sorted(names)) or "?"

            text = re.sub(r"\s+", " ", S.render(sh, hole, under[0]))
            if text not in TREE_TEXT[layout]:
                problems.append(("inner-node-layout", f"an inner node is written as {text!r}; expected {sorted(TREE_TEXT[layout])[0]!r} ({layout}) with the subtrees "
                                 f"taken from children[0] and children[1] in that order", e))
                break
        # -- fluent leaf
        lifted = lambda tr: [x for x in tr if "attr:value" in x] and all((_after(x, "attr:value") or ("",))[0] == LIFTED_VIEW for x in tr if "attr:value" in x)
        if "func" in atoms:
            finals, under = finals_under({"leaf": True, "func": True, "float": False, "plain": False})
            for e, _at in finals:
                if e is None or not lifted(_safe_under(p, e, under)):
                    problems.append(("fluent-leaf-not-lifted", f"a leaf that holds a fluent is written as {unparse(e, 50) if e is not None else None!r}, not as its "
                                     f"untyped_representation: typed parameters inside an expression are read back as extra parameters", e))
                    break
        else:
            finals, under = finals_under({"leaf": True})
            if finals and not any(e is not None and lifted(_safe_under(p, e, under)) for e, _at in finals):
                problems.append(("fluent-leaf-not-lifted", "no leaf is written through the fluent's untyped_representation", None))
        # -- numbers
        if "integer" in atoms:
            val = {"leaf": True, "func": False, "integer": False}
            if "float" in atoms:
                val["float"] = True
            finals, under = finals_under(val)
            for e, _at in finals:
                if e is None:
                    continue
                tr = _safe_under(p, e, under)
                if any("attr:value" in x and any(st in TRUNCATING_STEPS for st in _after(x, "attr:value")) for x in tr):
                    problems.append(("non-integral-number-truncated", f"a number that is NOT integral can be written as {unparse(e, 50)!r}: its fraction is cut off", e))
                    break
        finals, under = finals_under({"leaf": True, "func": False})
        for e, _at in finals:
            pf = _precision_format(e) if e is not None else None
            if pf is None:
                continue
            v, d = pf
            vt = _safe_under(p, v, under)
            dparam = [x for x in f.params if x == "decimal_digits"]
            if (vt and not any("attr:value" in x for x in vt)) or (dparam and L.is_param(p, v, "decimal_digits")) or \
                    (not isinstance(d, int) and any("attr:value" in x for x in _safe_under(p, d, under))):
                problems.append(("format-arguments-misplaced", f"{unparse(e, 70)} does not format the node's value with the requested precision "
                                 f"(value and number of digits are in each other's place)", e))
                break
        # -- class tests ask isinstance(<value>, <class>)
        for c in L.calls_in(f.node):
            if isinstance(c.func, ast.Name) and c.func.id == "isinstance" and len(c.args) == 2 and is_value(c.args[1]) and not is_value(c.args[0]):
                problems.append(("class-test:value-as-class", f"{unparse(c, 60)} has the node's value where the class belongs: TypeError for every leaf that reaches it", c))
                break
        if problems:
            for role, text, node in problems:
                r.fail(Finding(rid, f, role, f"{spec}: {text}", node=node))
        else:
            r.ok({"printer": f.qn, "layout": layout, "atoms": sorted(atoms)})
    r.require_sites(len(TREE_LAYOUT))
    return r


def _safe_under(p, e, under):
    try:
        return p.trace(e, under=under)
    except (KeyError, RecursionError):
        return set()


RETURN_SITES = BALANCE_SITES + ["DomainExporter.write_constants", "DomainExporter.write_types", "DomainExporter.write_functions",
                                "NumericalExpressionTree.to_pddl", "NumericalExpressionTree.to_mathematical"]


def rule_returns(repo: Repo, rid: str = "C08.returns", sites: Optional[List[str]] = None) -> RuleResult:
    """every way through a printer ends in `return <text>` (or raises): a path that reaches the end of the body, of an inlined helper's
    body, or a bare `return`, makes the caller write the word None into the file"""
    r = RuleResult(rid, "every path through a printer returns a text (none falls off the end / returns None)",
                   "the exported file contains the text of every part, never the word None")
    trivial = lambda e: None
    for spec in (sites or RETURN_SITES):
        f = U.fn(repo, spec)
        r.site(f.qn)
        if any(isinstance(n, (ast.Yield, ast.YieldFrom)) for n in ast.walk(f.node)):
            r.ok({"printer": f.qn, "generator": True})
            continue
        G = L.Guards(f, trivial)
        seen = G.reach({})
        g = G.g
        why = None
        ends = {a for a, _l in g.pred[g.exit] if a in seen and g.kind[a] not in ("return", "raise")}
        if ends and U.consistent_path(f, {g.exit}, avoid={n for n in g.nodes() if g.kind[n] in ("return", "raise")} | {g.raise_}) is True:
            why = "the end of the body can be reached without a return"
        for e, _at in ([] if why else U.final_values(G, {}, seen)):
            if e is None or (isinstance(e, ast.Constant) and e.value is None):
                why = "a path returns None"
            elif isinstance(e, ast.Name) and e.id.startswith("__ret__") and U.may_be_unbound(f, e):
                why = "the body of a helper that produces the text can end without a return"
            if why:
                break
        if why:
            r.fail(Finding(rid, f, "no-text-returned", f"{spec}: {why}; the caller writes 'None' where this text belongs"))
        else:
            r.ok({"printer": f.qn, "every_path_returns_text": True})
    r.require_sites(len(sites or RETURN_SITES))
    return r


# (printer, how the collection is rooted: "param" = attribute of the first parameter / "self", attribute, reason)
SECTION_TABLE = [
    ("DomainExporter.extract_domain", "param", "requirements", "the requirement flags"),
    ("DomainExporter.extract_domain", "param", "types", "(:types ..)"),
    ("DomainExporter.extract_domain", "param", "predicates", "(:predicates ..)"),
    ("DomainExporter.extract_domain", "param", "constants", "(:constants ..) is optional in the text, not in the domain: written whenever there is a constant"),
    ("DomainExporter.extract_domain", "param", "functions", "(:functions ..) is written whenever there is a function"),
    ("DomainExporter.extract_domain", "param", "actions", "the actions"),
    ("Action.effects_to_pddl", "self", "discrete_effects", "add / delete effects"),
    ("Action.effects_to_pddl", "self", "numeric_effects", "numeric effects are written whenever there is one"),
    ("Action.effects_to_pddl", "self", "conditional_effects", "(when ..) effects"),
    ("Action.effects_to_pddl", "self", "universal_effects", "(forall ..) effects"),
]
SIZE_CLASS = {1: "exactly one element", 2: "two or more elements"}


def _undecided_about(G, p, under, seen, root: tuple) -> bool:
    """is there a reachable test (branch, conditional expression, filter) that the valuation leaves open and that reads something derived
    from the collection `root`?"""
    g = G.g
    val = under[0]
    tests: List[ast.AST] = []
    for n in seen:
        st = g.stmt[n]
        if g.kind[n] == "if" and not getattr(st, "_inline_block", False):
            tests.append(st.test)
        h = C.header(st) if st is not None else None
        if h is not None:
            for x in ast.walk(h):
                if isinstance(x, ast.IfExp):
                    tests.append(x.test)
                elif isinstance(x, ast.comprehension):
                    tests += x.ifs
    for t in tests:
        if C.eval3(t, val) is not None:
            continue
        for x in ast.walk(t):
            if isinstance(x, (ast.Name, ast.Attribute, ast.Call, ast.Subscript)) and isinstance(getattr(x, "ctx", ast.Load()), ast.Load):
                if any(y[:2] == root for y in _safe_under(p, x, under)):
                    return True
    return False


def rule_sections(repo: Repo, rid: str = "C08.sections", table=None) -> RuleResult:
    """a collection of the printed object is in the text whenever it is NOT EMPTY: for a collection of one element and for one of two or
    more (the size tests of the printer evaluated for that size), every text the printer can return contains a piece that is made from the
    collection.  (`if len(xs) > 0` around the section is fine, `> 1`, `== 0` or a negated test drop declarations.)"""
    from .. import strshape as S
    r = RuleResult(rid, "a collection of the printed object is part of the text whenever it has one element / two or more elements",
                   "the re-parsed domain has the same constants, functions, effects ... as the source, however many there are")
    for spec, rootkind, attr, _why in (table or SECTION_TABLE):
        f = U.fn(repo, spec)
        p = L.prov(repo, f)
        if rootkind == "self":
            root = ("self", f"attr:{attr}")
        else:
            params = [x for x in f.params if x != f.self_name]
            if not params:
                raise AnalysisError(f"{spec}: parameter with the printed object not found")
            root = (f"param:{params[0]}", f"attr:{attr}")
        G = L.Guards(f, U.size_matcher(f, p, {root: attr}))
        ev = U.Evaluator(repo, f)
        r.site(f"{f.qn} [{attr}]")
        bad = None
        for size in (1, 2):
            val = U.size_valuation(G.atoms_seen, attr, size)
            seen = G.reach(val)
            under = G.under(val, seen)
            finals = U.final_values(G, val, seen)
            if not finals:
                continue
            if _undecided_about(G, p, under, seen, root):
                continue        # a test on something made from the collection (its text, a count ..) that the size does not decide: no claim
            for e, _at in finals:
                if e is None:
                    continue
                try:
                    sh = ev.string(e)
                except Exception:
                    continue
                if S.unknowns(sh):
                    continue
                for br in U.branches_under(sh, under[0]):
                    hs = S.holes(br)
                    has = False
                    for h in hs:
                        inner = h.value if isinstance(h, ast.FormattedValue) else h
                        try:
                            tr = p.trace(inner, under=under)
                        except (KeyError, RecursionError):
                            has = True      # not interpreted: no claim
                            break
                        if any(x[:2] == root for x in tr):
                            has = True
                            break
                    if not has:
                        bad = (size, S.render(br, lambda n: unparse(n, 30)))
                        break
                if bad:
                    break
            if bad:
                break
        if bad:
            short = bad[1] if len(bad[1]) < 100 else bad[1][:97] + "..."
            r.fail(Finding(rid, f, f"collection-dropped:{attr}", f"with {SIZE_CLASS[bad[0]]} in {attr}, {spec} can return the text {short!r} "
                           f"that contains nothing of {attr}: these declarations are missing after re-parsing"))
        else:
            r.ok({"printer": f.qn, "collection": attr, "written_when_non_empty": True})
    r.require_sites(len(table or SECTION_TABLE))
    return r


def rules(repo: Repo, tier: str) -> List[RuleResult]:
    from . import c13
    return [rule_fields(repo, "C08.fields", FIELD_TABLE), rule_typedparams(repo), rule_nocollapse(repo), rule_operand_kinds(repo), rule_polarity(repo), rule_keywords(repo),
            rule_balance(repo, "C08.balance", BALANCE_SITES), rule_order(repo), rule_options(repo),
            # numeric constants of preconditions / effects survive the export up to the print precision (the tree printer is part of the writer)
            c13.rule_round(repo, "C08.round", ["NumericalExpressionTree.to_pddl"]), rule_allconstants(repo), rule_allconstants(repo, "C08.alltypes", "DomainExporter.write_types", "type"), rule_sections(repo), rule_returns(repo), rule_switch(repo), rule_treetext(repo)]
