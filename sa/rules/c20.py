"""C20 -- grounding is substitution of the call's arguments for the parameters."""
from __future__ import annotations

import ast
from typing import Dict, List, Set

from .. import cfg as C
from .. import lib as L
from ..core import AnalysisError, FuncInfo, Repo, unparse
from ..prov import callee_name
from ..report import Finding, RuleResult
from . import c01, c02

GU = "models.grounding_utils"

EXPLANATION = (
    "C20.zip: the parameter map is {parameter: argument} over zip(action signature, call arguments), both reaching the zip unsorted "
    "(def-use provenance), in Operator.ground and in the universal-effect pass. C20.positional: in ground_predicate the object of the "
    "i-th declared parameter is looked up through the i-th parameter name of the literal (finite valuation over 'is a domain "
    "constant': constants keep their name, everything else goes through the parameter map). C20.constants: in the typed form a "
    "constant carries its own type and a parameter the type it has in the action; numeric trees are grounded leaf by leaf the same "
    "way. C20.complete: grounding an effect group loops over all discrete and all numeric effects without a filter and keeps the "
    "polarity; the precondition translation attaches every operand (C02.translate); the operator builds one group for the simple "
    "effects and one per conditional effect. C20.dupkeys: the grounded signature of a numeric leaf is keyed by the argument value."
)
UNDECIDED = "set equality of the reported literals with the substituted schema for all calls (only the structural clauses above)"


def rule_zip(repo: Repo) -> RuleResult:
    r = RuleResult("C20.zip", "parameter map = {p: a for p, a in zip(action.signature, call arguments)} in their own order", "position by position")
    for spec in ("Operator.ground", "Operator._apply_universal_effects"):
        f = repo.func(spec)
        p = L.prov(repo, f)
        found = False
        for n in ast.walk(f.node):
            if isinstance(n, ast.DictComp) and len(n.generators) == 1 and isinstance(n.generators[0].iter, ast.Call) and callee_name(n.generators[0].iter) == "zip":
                z = n.generators[0].iter
                if len(z.args) != 2:
                    continue
                t0, t1 = p.trace(z.args[0]), p.trace(z.args[1])
                if not any("attr:signature" in x for x in t0 | t1):
                    continue
                found = True
                r.site(L.site(f, n, "parameter map"))
                bad = ("arg0:sorted", "arg0:reversed", "arg0:set", "call:sort", "slice:")
                ok0 = all(x == ("self", "attr:action", "attr:signature") for x in t0) and bool(t0)
                ok1 = all(x == ("self", "attr:grounded_call_objects") for x in t1) and bool(t1)
                tg = n.generators[0].target
                okkv = isinstance(tg, ast.Tuple) and len(tg.elts) == 2 and isinstance(n.key, ast.Name) and isinstance(n.value, ast.Name) and \
                    n.key.id == tg.elts[0].id and n.value.id == tg.elts[1].id and not n.generators[0].ifs
                if ok0 and ok1 and okkv:
                    r.ok({"function": f.qn, "map": "zip(self.action.signature, self.grounded_call_objects)"})
                else:
                    r.fail(Finding("C20.zip", f, "parameter-map", f"the parameter map is built from zip({sorted(t0)[:1]}, {sorted(t1)[:1]}) with key/value "
                                   f"{'in order' if okkv else 'swapped or filtered'}", node=n))
        if not found:
            raise AnalysisError(f"{spec}: parameter map (dict comprehension over zip(signature, call objects)) not found")
    # the map reaches the grounding calls
    f = repo.func("Operator.ground")
    p = L.prov(repo, f)
    r.site(f.qn + " [map used]")
    uses = [c for c in L.calls_in(f.node) if callee_name(c) in ("ground_preconditions", "_ground_conditional_effects")]
    ok = len(uses) == 2 and all(any(x[0] == "fresh:comp" for x in p.trace(c.args[0])) for c in uses if c.args)
    if ok:
        r.ok({"used_by": [callee_name(c) for c in uses]})
    else:
        r.fail(Finding("C20.zip", f, "map-not-used", "preconditions and effects are not both grounded with the parameter map"))
    r.require_sites(3)
    return r


def rule_positional(repo: Repo) -> RuleResult:
    r = RuleResult("C20.positional", "ground_predicate: declared parameter i -> object of the literal's i-th argument; constants keep their name",
                   "each parameter replaced, position by position, by the corresponding call argument (constants kept)")
    f = repo.func(f"{GU}::ground_predicate")
    p = L.prov(repo, f)
    g = C.cfg_of(f.node)

    def matcher(e):
        if isinstance(e, ast.Compare) and len(e.ops) == 1 and isinstance(e.ops[0], (ast.In, ast.NotIn)) and "constants" in ast.unparse(e.comparators[0]) \
                and not isinstance(e.left, ast.Call):
            return "const" if isinstance(e.ops[0], ast.In) else "!const"
        return None

    G = L.Guards(f, matcher)
    stores = [n for n in ast.walk(f.node) if isinstance(n, ast.Assign) and len(n.targets) == 1 and isinstance(n.targets[0], ast.Subscript)
              and any(any(s.endswith("object_mapping:GroundedPredicate") or s == "kw:object_mapping:GroundedPredicate" for s in x) or True for x in [()])
              and isinstance(n.targets[0].value, ast.Name) and "mapping" in n.targets[0].value.id]
    if not stores:
        raise AnalysisError("ground_predicate: store into the object mapping not recognised")
    for const in (True, False):
        r.site(f"{f.qn} [argument is a constant: {const}]")
        seen = G.reach({"const": const})
        live = [s for s in stores if g.node_of(s) in seen]
        if len(live) != 1:
            r.fail(Finding("C20.positional", f, f"mapping-arms:const={const}", f"{len(live)} stores into the object mapping are reachable when 'is a constant' is {const}"))
            continue
        s = live[0]
        key = p.trace(s.targets[0].slice)
        val = p.trace(s.value, keys=True)
        key_ok = any("attr:predicates" in x and "attr:signature" in x for x in key)   # declared parameter name
        via_map = any(x[0] == "param:parameters_map" and "askey" not in x for x in val)
        lit_arg = any(x[0] == "param:predicate" and "attr:signature" in x for x in val)
        same_index = _same_index(f, s)
        sample = {"constant": const, "key": "declared parameter", "value_via_parameter_map": via_map, "from_literal_argument": lit_arg, "same_position": same_index}
        if const and key_ok and lit_arg and not via_map and same_index:
            r.ok(sample)
        elif (not const) and key_ok and via_map and lit_arg and same_index:
            r.ok(sample)
        else:
            r.fail(Finding("C20.positional", f, f"mapping:const={const}", f"object mapping store {unparse(s, 80)}: {sample}", node=s), sample)
    # name, polarity, declared signature
    r.site(f.qn + " [name / polarity / signature]")
    ctor = [c for c in L.calls_in(f.node) if callee_name(c) == "GroundedPredicate"]
    init = repo.find_method("GroundedPredicate", "__init__")
    ok = False
    if ctor:
        nm, sg, pol, om = (L.arg_of(ctor[0], init, k) for k in ("name", "signature", "is_positive", "object_mapping"))
        ok = nm is not None and any(x == ("param:predicate", "attr:name") for x in p.trace(nm)) and \
            pol is not None and all(x == ("param:predicate", "attr:is_positive") for x in p.trace(pol)) and \
            sg is not None and any("attr:predicates" in x and "attr:signature" in x for x in p.trace(sg)) and om is not None
    if ok:
        r.ok({"name": "predicate.name", "is_positive": "predicate.is_positive", "signature": "declared signature of the predicate"})
    else:
        r.fail(Finding("C20.positional", f, "literal-identity", "the grounded literal does not keep name / polarity / declared signature of the schema literal"))
    r.require_sites(3)
    return r


def _same_index(f: FuncInfo, store: ast.Assign) -> bool:
    """the store sits in `for i, declared in enumerate(declared_signature)` and reads <literal params>[i]"""
    for loop in [n for n in ast.walk(f.node) if isinstance(n, ast.For)]:
        if any(store is s for s in C.stmts_in(loop.body)) and isinstance(loop.iter, ast.Call) and callee_name(loop.iter) == "enumerate" \
                and isinstance(loop.target, ast.Tuple) and len(loop.target.elts) == 2:
            idx, name = [e.id for e in loop.target.elts if isinstance(e, ast.Name)]
            key_is_name = isinstance(store.targets[0].slice, ast.Name) and store.targets[0].slice.id == name
            reads = [n for n in ast.walk(store.value) if isinstance(n, ast.Subscript) and isinstance(n.slice, ast.Name) and n.slice.id == idx]
            return key_is_name and bool(reads)
    return False


def rule_constants(repo: Repo) -> RuleResult:
    r = RuleResult("C20.constants", "typed form: a constant carries its own type, a parameter the type it has in the action; numeric leaves likewise",
                   "each argument carries the type its parameter has in the action and each constant its own type")
    f = repo.func(f"{GU}::fix_grounded_predicate_types")
    p = L.prov(repo, f)
    g = C.cfg_of(f.node)

    def matcher(e):
        if isinstance(e, ast.Compare) and len(e.ops) == 1 and isinstance(e.ops[0], (ast.In, ast.NotIn)) and "constants" in ast.unparse(e.comparators[0]):
            return "const" if isinstance(e.ops[0], ast.In) else "!const"
        return None

    G = L.Guards(f, matcher)
    stores = [n for n in ast.walk(f.node) if isinstance(n, ast.Assign) and isinstance(n.targets[0], ast.Subscript)]
    for const in (True, False):
        r.site(f"{f.qn} [constant: {const}]")
        seen = G.reach({"const": const})
        live = [s for s in stores if g.node_of(s) in seen]
        ok = False
        if len(live) == 1:
            v = p.trace(live[0].value)
            if const:
                ok = any(x[0] == "param:domain" and "attr:constants" in x and x[-1] == "attr:type" for x in v) and not any(x[0] == "param:action" for x in v)
            else:
                ok = any(x[:2] == ("param:action", "attr:signature") for x in v) and not any("attr:constants" in x for x in v)
        if ok:
            r.ok({"constant": const, "type_from": "domain.constants[name].type" if const else "action.signature[name]"})
        else:
            r.fail(Finding("C20.constants", f, f"types:const={const}", f"when the argument is{'' if const else ' not'} a constant the type does not come from "
                           f"{'the constant' if const else 'the action signature'}"))
    # zip(declared parameters, literal parameters) in order
    r.site(f.qn + " [pairing]")
    loops = [n for n in ast.walk(f.node) if isinstance(n, ast.For) and isinstance(n.iter, ast.Call) and callee_name(n.iter) == "zip"]
    ok = bool(loops) and any(x == ("param:predicate_signature",) for x in p.trace(loops[0].iter.args[0])) and \
        any(x == ("param:lifted_predicate_params",) for x in p.trace(loops[0].iter.args[1])) and \
        not any(x[0].startswith("param:") and x[0] != "param:predicate_signature" and len(x) == 1 for x in p.trace(loops[0].iter.args[0]))
    if ok:
        r.ok({"pairs": "zip(predicate_signature, lifted_predicate_params)"})
    else:
        r.fail(Finding("C20.constants", f, "pairing", "declared parameters and literal parameters are not paired position by position"))
    # numeric leaves
    h = repo.func(f"{GU}::_iterate_calc_tree_and_ground")
    ph = L.prov(repo, h)
    gh = C.cfg_of(h.node)
    Gh = L.Guards(h, matcher)
    hst = [n for n in ast.walk(h.node) if isinstance(n, ast.Assign) and isinstance(n.targets[0], ast.Subscript)]
    for const in (True, False):
        r.site(f"{h.qn} [constant: {const}]")
        seen = Gh.reach({"const": const})
        live = [s for s in hst if gh.node_of(s) in seen]
        ok = False
        if len(live) == 1:
            k = ph.trace(live[0].targets[0].slice)
            v = ph.trace(live[0].value)
            typ_ok = any("attr:signature" in x for x in v)
            if const:
                ok = typ_ok and not any(x[0] == "param:parameters_map" for x in k)
            else:
                ok = typ_ok and any(x[0] == "param:parameters_map" for x in k)
        if ok:
            r.ok({"numeric_leaf_constant": const, "key": "the constant's name" if const else "parameters_map[parameter]"})
        else:
            r.fail(Finding("C20.constants", h, f"leaf:const={const}", f"numeric leaf grounding is wrong when the argument is{'' if const else ' not'} a constant"))
    r.require_sites(5)
    return r


def rule_complete(repo: Repo) -> RuleResult:
    r = RuleResult("C20.complete", "an effect group grounds all of its discrete and numeric effects; the operator builds one group per effect group of the schema",
                   "nothing is added or omitted")
    f = repo.func("GroundedEffect.ground_conditional_effect")
    p = L.prov(repo, f)
    for lifted, grounded, fn in (("_lifted_discrete_effects", "grounded_discrete_effects", "ground_predicate"),
                                 ("_lifted_numeric_effects", "grounded_numeric_effects", "ground_numeric_calculation_tree")):
        r.site(f"{f.qn} [{lifted}]")
        ok = False
        for loop in [n for n in ast.walk(f.node) if isinstance(n, ast.For)]:
            if all(x == ("self", f"attr:{lifted}") for x in p.trace(loop.iter)) and p.trace(loop.iter):
                filt = any(isinstance(s, (ast.If, ast.Continue, ast.Break)) for s in C.stmts_in(loop.body))
                adds = [c for c in L.calls_in(loop) if isinstance(c.func, ast.Attribute) and c.func.attr == "add" and
                        any(x == ("self", f"attr:{grounded}") for x in p.trace(c.func.value))]
                good = [c for c in adds if c.args and isinstance(c.args[0], ast.Call) and callee_name(c.args[0]) == fn and
                        any(x[-1] == "elem" for x in p.trace(c.args[0].args[0]))]
                ok = not filt and len(good) == 1
        if ok:
            r.ok({"loop": f"for e in self.{lifted}: self.{grounded}.add({fn}(e, ...))", "filter": None})
        else:
            r.fail(Finding("C20.complete", f, f"effects-loop:{lifted}", f"not every element of {lifted} is grounded into {grounded}"))
    # nothing is removed from / re-filtered in the grounded collections afterwards
    r.site(f"{f.qn} [no pruning]")
    pruned = []
    for n in ast.walk(f.node):
        if isinstance(n, ast.Assign) and any(isinstance(t, ast.Attribute) and t.attr in ("grounded_discrete_effects", "grounded_numeric_effects") for t in n.targets):
            pruned.append(n)
        if isinstance(n, ast.Call) and isinstance(n.func, ast.Attribute) and n.func.attr in ("discard", "remove", "pop", "clear", "difference_update", "intersection_update") \
                and any(x[:2] in (("self", "attr:grounded_discrete_effects"), ("self", "attr:grounded_numeric_effects")) for x in p.trace(n.func.value)):
            pruned.append(n)
    if pruned:
        r.fail(Finding("C20.complete", f, "effects-pruned", f"{unparse(pruned[0], 70)} removes / re-filters grounded effects after grounding: the reported literals are no "
                       f"longer the substituted schema (e.g. a delete effect that is also added disappears for ?from == ?to)", node=pruned[0]))
    else:
        r.ok({"grounded_effects": "only added to"})
    # antecedents grounded with the same map
    r.site(f"{f.qn} [antecedents]")
    ac = [c for c in L.calls_in(f.node) if callee_name(c) == "ground_preconditions"]
    if ac and all(x == ("param:parameters_map",) for x in p.trace(ac[0].args[0])):
        r.ok({"antecedents": "ground_preconditions(parameters_map)"})
    else:
        r.fail(Finding("C20.complete", f, "antecedents", "the antecedents are not grounded with the same parameter map"))
    # operator: one group for simple effects + one per conditional effect
    o = repo.func("Operator._ground_conditional_effects")
    po = L.prov(repo, o)
    init = repo.find_method("GroundedEffect", "__init__")
    ctors = [c for c in L.calls_in(o.node) if callee_name(c) == "GroundedEffect"]
    g = C.cfg_of(o.node)
    simple = [c for c in ctors if g.loop_of.get(g.node_containing(c)) is None]
    conds = [c for c in ctors if g.loop_of.get(g.node_containing(c)) is not None]
    r.site(o.qn + " [simple group]")
    ok = False
    if len(simple) == 1:
        c = simple[0]
        a, d, n = (L.arg_of(c, init, k) for k in ("lifted_antecedents", "lifted_discrete_effects", "lifted_numeric_effects"))
        ok = isinstance(a, ast.Constant) and a.value is None and all(x == ("self", "attr:action", "attr:discrete_effects") for x in po.trace(d)) and \
            all(x == ("self", "attr:action", "attr:numeric_effects") for x in po.trace(n))
    if ok:
        r.ok({"simple_group": "GroundedEffect(None, action.discrete_effects, action.numeric_effects)"})
    else:
        r.fail(Finding("C20.complete", o, "simple-group", "the unconditional effects are not grounded as one group without antecedents"))
    r.site(o.qn + " [conditional groups]")
    ok = False
    if len(conds) == 1:
        c = conds[0]
        a, d, n = (L.arg_of(c, init, k) for k in ("lifted_antecedents", "lifted_discrete_effects", "lifted_numeric_effects"))
        same = lambda e, fld: e is not None and all(x == ("self", "attr:action", "attr:conditional_effects", "elem", f"attr:{fld}") for x in po.trace(e)) and po.trace(e)
        ok = same(a, "antecedents") and same(d, "discrete_effects") and same(n, "numeric_effects")
    adds = [c for c in L.calls_in(o.node) if isinstance(c.func, ast.Attribute) and c.func.attr == "add"]
    grounded = [c for c in L.calls_in(o.node) if callee_name(c) == "ground_conditional_effect"]
    if ok and len(adds) == 2 and len(grounded) == 2:
        r.ok({"conditional_groups": "one GroundedEffect per conditional effect with its own antecedents / effects; every group grounded and collected"})
    else:
        r.fail(Finding("C20.complete", o, "conditional-groups", "conditional effects are not grounded one group each (antecedents, discrete, numeric of the same effect)"))
    r.require_sites(6)
    return r


def rules(repo: Repo, tier: str) -> List[RuleResult]:
    from . import c07
    grounding = lambda f: f.mod.short in ("models.grounding_utils", "models.grounded_precondition", "models.grounded_effect", "models.pddl_operator")
    return [rule_zip(repo), rule_positional(repo), rule_constants(repo), rule_complete(repo), c02.rule_translate(repo, "C20.translate"),
            # a grounded literal carries ITS argument types: it must not share (and overwrite) the domain's declaration or the action schema
            c07.rule_write(repo, "C20.purity", floor=10, only=grounding),
            c01.rule_dupkeys(repo, "C20.dupkeys", [f"{GU}::_iterate_calc_tree_and_ground"])]
