"""C20 -- grounding is substitution of the call's arguments for the parameters."""
from __future__ import annotations

import ast
from typing import Dict, List, Set

from .. import cfg as C
from .. import lib as L
from ..core import AnalysisError, FuncInfo, Repo, unparse
from ..prov import callee_name
from ..report import Finding, RuleResult
from . import c01, c02

GU = "models.grounding_utils"

EXPLANATION = (
    "C20.zip: the parameter map is {parameter: argument} over zip(action signature, call arguments), both reaching the zip unsorted "
    "(def-use provenance), in Operator.ground and in the universal-effect pass. C20.positional: in ground_predicate the object of the "
    "i-th declared parameter is looked up through the i-th parameter name of the literal (finite valuation over 'is a domain "
    "constant': constants keep their name, everything else goes through the parameter map). C20.constants: in the typed form a "
    "constant carries its own type and a parameter the type it has in the action; numeric trees are grounded leaf by leaf the same "
    "way. C20.complete: grounding an effect group loops over all discrete and all numeric effects without a filter and keeps the "
    "polarity; the precondition translation attaches every operand (C02.translate); the operator builds one group for the simple "
    "effects and one per conditional effect. C20.dupkeys: the grounded signature of a numeric leaf is keyed by the argument value. "
    "C20.constants (literal-typed): the signature handed to the GroundedPredicate construction in ground_predicate receives the constant's own "
    "type / the action parameter's type (the public typing pass read in place). C20.numtree: under the three valuations of (the lifted node "
    "is a leaf, it holds a PDDLFunction) the returned node is a newly constructed AnyNode whose value is the lifted node's value (operator, "
    "number) / the PDDLFunction constructed by the grounding (fluent), a leaf stays a leaf, and operand i of an operator node is the "
    "recursive grounding of operand i of the lifted node."
)
UNDECIDED = "set equality of the reported literals with the substituted schema for all calls (only the structural clauses above)"


GROUNDING_CALLS = ("ground_preconditions", "ground_conditional_effect")


def rule_zip(repo: Repo) -> RuleResult:
    r = RuleResult("C20.zip", "every grounding call receives the map {parameter: argument} paired by zip(action.signature, call arguments) in their own order "
                   "(plus the quantified parameter -> object binding in the forall pass)", "position by position")
    want_key = ("self", "attr:action", "attr:signature", "zip0")
    want_val = ("self", "attr:grounded_call_objects", "zip1")
    n_calls = {}
    for spec in ("Operator.ground", "Operator.apply"):
        f = L.fn(repo, spec)
        p = L.prov(repo, f)
        calls = [c for c in L.calls_in(f.node) if callee_name(c) in GROUNDING_CALLS and isinstance(c.func, ast.Attribute)]
        n_calls[spec] = len(calls)
        for c in calls:
            pm = repo.func_opt("GroundedEffect.ground_conditional_effect") if callee_name(c) == "ground_conditional_effect" else \
                repo.func_opt("GroundedPrecondition.ground_preconditions")
            m = L.arg_of(c, pm, "parameters_map", 0)
            r.site(L.site(f, c, "parameter map"))
            if m is None:
                r.fail(Finding("C20.zip", f, "parameter-map", f"{unparse(c, 60)} is called without a parameter map", node=c))
                continue
            ents = L.map_entries(p.trace(m))
            keys = {e for k, e in ents if k == "key"}
            vals = {e for k, e in ents if k == "value"}
            whole = {e for k, e in ents if k == "whole"}
            extra_k = {e for e in keys if e != want_key and not (e[-1] == "attr:quantified_parameter")}
            extra_v = {e for e in vals if e != want_val and not (any("problem_objects" in s_ for s_ in e))}
            quant_k = {e for e in keys if e[-1] == "attr:quantified_parameter"}
            quant_v = {e for e in vals if any("problem_objects" in s_ for s_ in e)}
            ok = want_key in keys and want_val in vals and not extra_k and not extra_v and not whole and (bool(quant_k) == bool(quant_v))
            if spec == "Operator.ground" and (quant_k or quant_v):
                ok = False
            if ok:
                r.ok({"function": f.qn, "call": unparse(c, 50), "map": "zip(self.action.signature, self.grounded_call_objects)" + (" + quantified binding" if quant_k else "")})
            else:
                r.fail(Finding("C20.zip", f, "parameter-map", f"the parameter map handed to {callee_name(c)} has keys from {sorted(keys)[:3]} and values from "
                               f"{sorted(vals | whole)[:3]}; expected parameters / call arguments paired by zip in their own order", node=c))
    r.site("Operator.ground [map used]")
    if n_calls["Operator.ground"] >= 3 and n_calls["Operator.apply"] >= 1:
        r.ok({"grounding_calls": n_calls})
    elif n_calls["Operator.ground"] == 0 or n_calls["Operator.apply"] == 0:
        raise AnalysisError(f"Operator.ground / Operator.apply: grounding calls {GROUNDING_CALLS} not found ({n_calls})")
    else:
        r.fail(Finding("C20.zip", L.fn(repo, "Operator.ground"), "map-not-used", f"preconditions, simple effects and conditional effects are not all grounded ({n_calls})"))
    r.require_sites(3)
    return r


def _const_matcher(p):
    """atom 'const': <argument> in domain.constants (any alias of the constants map)"""
    def matcher(e):
        if isinstance(e, ast.Compare) and len(e.ops) == 1 and isinstance(e.ops[0], (ast.In, ast.NotIn)) and not isinstance(e.left, ast.Call):
            try:
                tr = p.trace(e.comparators[0])
            except KeyError:
                return None
            if any("attr:constants" in x for x in tr):
                return "const" if isinstance(e.ops[0], ast.In) else "!const"
        return None
    return matcher


def _enum_source(path, comp: str):
    """prefix of a path before (.., 'arg0:enumerate', 'elem', 'unpack:<comp>')"""
    for i in range(len(path) - 2):
        if path[i] == "arg0:enumerate" and path[i + 1] == "elem" and path[i + 2] == f"unpack:{comp}":
            return tuple(path[:i])
    return None


def rule_positional(repo: Repo) -> RuleResult:
    r = RuleResult("C20.positional", "ground_predicate: declared parameter i -> object of the literal's i-th argument; constants keep their name",
                   "each parameter replaced, position by position, by the corresponding call argument (constants kept)")
    f = L.fn(repo, f"{GU}::ground_predicate")
    p = L.prov(repo, f)
    G = L.Guards(f, _const_matcher(p))
    ctor = [c for c in L.calls_in(f.node) if callee_name(c) == "GroundedPredicate"]
    init = repo.find_method("GroundedPredicate", "__init__")
    if not ctor:
        raise AnalysisError("ground_predicate: GroundedPredicate construction not found")
    om = L.arg_of(ctor[0], init, "object_mapping")
    if om is None:
        raise AnalysisError("ground_predicate: object_mapping argument not found")
    for const in (True, False):
        r.site(f"{f.qn} [argument is a constant: {const}]")
        if "const" not in G.atoms_seen:
            if const:
                r.fail(Finding("C20.positional", f, "mapping:const=True", "no test `<argument> in domain.constants` decides how an argument is grounded: "
                               "constants are not kept by name", node=om))
                continue
        under = G.under({"const": const})
        ents = L.map_entries(p.trace(om, keys=True, under=under))
        keys = [e for k, e in ents if k == "key" and "askey" not in e]
        vals = [e for k, e in ents if k == "value" and "askey" not in e]
        vkeys = [e for k, e in ents if k == "value" and "askey" in e]
        whole = [e for k, e in ents if k == "whole"]
        if not keys or not vals or whole:
            raise AnalysisError(f"ground_predicate: the construction of the object mapping is not interpreted (keys={len(keys)}, values={len(vals)}, other={whole[:1]})")
        key_ok = all("attr:predicates" in x and "attr:signature" in x for x in keys)     # declared parameter names
        via_map = any(x[0] == "param:parameters_map" for x in vals)
        lit_direct = [x for x in vals if x[0] == "param:predicate" and "attr:signature" in x]
        lit_as_key = [x for x in vkeys if x[0] == "param:predicate" and "attr:signature" in x]
        # same position: index of the literal argument = index of the declared parameter (same enumerate), or a zip pairing
        ksrc = {_enum_source(x, "1") for x in keys} - {None}
        isrc = {_enum_source(x, "0") for x in vkeys} - {None}
        same_index = bool(ksrc & isrc) or (all(x[-1] == "zip0" for x in keys) and any(x[-1] == "zip1" for x in (lit_direct + lit_as_key)))
        sample = {"constant": const, "key": "declared parameter" if key_ok else sorted(keys)[:2], "value_via_parameter_map": via_map,
                  "from_literal_argument": bool(lit_direct if const else lit_as_key), "same_position": same_index}
        if const and key_ok and lit_direct and not via_map and same_index:
            r.ok(sample)
        elif (not const) and key_ok and via_map and lit_as_key and not lit_direct and same_index:
            r.ok(sample)
        else:
            r.fail(Finding("C20.positional", f, f"mapping:const={const}", f"object mapping when the argument is{'' if const else ' not'} a constant: {sample}", node=om), sample)
    # name, polarity, declared signature
    r.site(f.qn + " [name / polarity / signature]")
    nm, sg, pol = (L.arg_of(ctor[0], init, k) for k in ("name", "signature", "is_positive"))
    ok = nm is not None and any(x == ("param:predicate", "attr:name") for x in p.trace(nm)) and \
        pol is not None and all(x == ("param:predicate", "attr:is_positive") for x in p.trace(pol)) and \
        sg is not None and any("attr:predicates" in x and "attr:signature" in x for x in p.trace(sg))
    if ok:
        r.ok({"name": "predicate.name", "is_positive": "predicate.is_positive", "signature": "declared signature of the predicate"})
    else:
        r.fail(Finding("C20.positional", f, "literal-identity", "the grounded literal does not keep name / polarity / declared signature of the schema literal"))
    r.require_sites(3)
    return r


def _stores_into(p, f: FuncInfo, is_target) -> List[ast.Assign]:
    return [n for n in ast.walk(f.node) if isinstance(n, ast.Assign) and len(n.targets) == 1 and isinstance(n.targets[0], ast.Subscript)
            and is_target(p.trace(n.targets[0].value))]


def rule_constants(repo: Repo) -> RuleResult:
    r = RuleResult("C20.constants", "typed form: a constant carries its own type, a parameter the type it has in the action; numeric leaves likewise",
                   "each argument carries the type its parameter has in the action and each constant its own type")
    f = L.fn(repo, f"{GU}::fix_grounded_predicate_types")
    p = L.prov(repo, f)
    g = C.cfg_of(f.node)
    G = L.Guards(f, _const_matcher(p))
    stores = _stores_into(p, f, lambda tr: any(x == ("param:predicate_signature",) for x in tr))
    if not stores:
        raise AnalysisError("fix_grounded_predicate_types: no store into predicate_signature found")
    pair_ok = True
    no_test = "const" not in G.atoms_seen
    if no_test:
        # no test `name in domain.constants` at all: the type cannot depend on whether the argument is a constant; it is right only if
        # every stored value can come from the constant (it cannot, without a lookup in domain.constants)
        from_const = any(x[0] == "param:domain" and "attr:constants" in x and x[-1] == "attr:type" for st_ in stores for x in p.trace(st_.value))
        r.site(f"{f.qn} [constant: True]")
        r.site(f"{f.qn} [constant: False]")
        if from_const:
            raise AnalysisError("fix_grounded_predicate_types: the constant's type is used but the test for a constant was not recognised")
        r.fail(Finding("C20.constants", f, "types:const=True", "no store distinguishes a domain constant from a parameter: a constant does not get its own type "
                       "(it keeps the declared type of the position / is looked up in the action signature)", node=stores[0]))
        r.ok({"constant": False})
    for const in (() if no_test else (True, False)):
        r.site(f"{f.qn} [constant: {const}]")
        under = G.under({"const": const})
        live = [s_ for s_ in stores if g.node_of(s_) in under[1]]
        ok = False
        if len(live) == 1:
            v = p.trace(live[0].value, under=under)
            if const:
                ok = any(x[0] == "param:domain" and "attr:constants" in x and x[-1] == "attr:type" for x in v) and not any(x[0] == "param:action" for x in v)
            else:
                ok = any(x[:2] == ("param:action", "attr:signature") for x in v) and not any("attr:constants" in x for x in v)
            # pairing: key = declared parameter (component 0 of the zip), looked-up name = literal parameter (component 1)
            k = p.trace(live[0].targets[0].slice)
            vk = [x for x in p.trace(live[0].value, keys=True, under=under) if "askey" in x]
            pair_ok = pair_ok and all(x[:2] == ("param:predicate_signature", "arg0:zip") for x in k) and bool(k) and \
                any(x[:2] == ("param:lifted_predicate_params", "arg1:zip") for x in vk) and \
                not any(x[0] == "param:predicate_signature" for x in vk)
        if ok:
            r.ok({"constant": const, "type_from": "domain.constants[name].type" if const else "action.signature[name]"})
        else:
            r.fail(Finding("C20.constants", f, f"types:const={const}", f"when the argument is{'' if const else ' not'} a constant the type does not come from "
                           f"{'the constant' if const else 'the action signature'}"))
    # every position gets its type: with the constant test decided, no path through one iteration may skip the store
    r.site(f.qn + " [every position typed]")
    pmf = L.parents_of(f)
    loops_ = [x for st_ in stores for x in _ancestors(pmf, st_) if isinstance(x, ast.For)]
    if not loops_:
        raise AnalysisError("fix_grounded_predicate_types: the stores are not inside a loop over the parameter positions")
    store_nodes = {g.node_of(st_) for st_ in stores}
    skipped = [const for const in (True, False) if not no_test and not L.must_pass_in_loop(G, {"const": const}, loops_[0], store_nodes)]
    if skipped:
        r.fail(Finding("C20.constants", f, "types:position-skipped", f"for an argument that is{'' if skipped[0] else ' not'} a constant some path through the loop "
                       f"leaves the declared (super)type in place: the typed form then carries the declaration's type instead of the argument's", node=loops_[0]))
    else:
        r.ok({"every_position": "typed on every path"})
    # zip(declared parameters, literal parameters) in order
    r.site(f.qn + " [pairing]")
    if pair_ok:
        r.ok({"pairs": "zip(predicate_signature, lifted_predicate_params)"})
    else:
        r.fail(Finding("C20.constants", f, "pairing", "declared parameters and literal parameters are not paired position by position"))
    # numeric leaves
    h = L.fn(repo, f"{GU}::ground_numeric_calculation_tree")
    ph = L.prov(repo, h)
    gh = C.cfg_of(h.node)
    Gh = L.Guards(h, _const_matcher(ph))
    ctor = [c for c in L.calls_in(h.node) if callee_name(c) == "PDDLFunction"]
    finit = repo.find_method("PDDLFunction", "__init__")
    if not ctor or "const" not in Gh.atoms_seen:
        raise AnalysisError("ground_numeric_calculation_tree: construction of the grounded function / constant test not recognised")
    sg = L.arg_of(ctor[0], finit, "signature")
    for const in (True, False):
        r.site(f"{h.qn} [constant: {const}]")
        under = Gh.under({"const": const})
        ents = L.map_entries(ph.trace(sg, keys=True, under=under)) if sg is not None else set()
        keys = [e for k, e in ents if k == "key" and "askey" not in e]
        kkeys = [e for k, e in ents if k == "key" and "askey" in e]
        vals = [e for k, e in ents if k == "value" and "askey" not in e]
        typ_ok = bool(vals) and all("attr:signature" in x for x in vals)
        via_map = any(x[0] == "param:parameters_map" for x in keys)
        if const:
            ok = typ_ok and bool(keys) and not via_map
        else:
            ok = typ_ok and via_map and any("attr:signature" in x for x in kkeys)
        if ok:
            r.ok({"numeric_leaf_constant": const, "key": "the constant's name" if const else "parameters_map[parameter]"})
        else:
            r.fail(Finding("C20.constants", h, f"leaf:const={const}", f"numeric leaf grounding is wrong when the argument is{'' if const else ' not'} a constant"))
    # the typing is applied to the literal that is reported: the signature handed to the GroundedPredicate construction receives, per
    # argument, the constant's own type / the type of the action parameter (the public typing pass is read in place)
    lit = L.fn(repo, f"{GU}::ground_predicate", also={TYPING_PASS})
    pl = L.prov(repo, lit)
    Gl = L.Guards(lit, _const_matcher(pl))
    lctor = [c for c in L.calls_in(lit.node) if callee_name(c) == "GroundedPredicate"]
    linit = repo.find_method("GroundedPredicate", "__init__")
    lsg = L.arg_of(lctor[0], linit, "signature") if lctor else None
    if lsg is None:
        raise AnalysisError("ground_predicate: GroundedPredicate construction / its signature argument not found")
    for const in (True, False):
        r.site(f"{lit.qn} [typed literal, constant: {const}]")
        if "const" not in Gl.atoms_seen:
            r.fail(Finding("C20.constants", lit, f"literal-typed:const={const}", "grounding a literal never tests whether an argument is a domain constant: "
                           "the typed form cannot give a constant its own type", node=lsg))
            continue
        vals = {e for k, e in L.map_entries(pl.trace(lsg, keys=True, under=Gl.under({"const": const}))) if k in ("value", "whole") and "askey" not in e}
        own = [x for x in vals if x[0] == "param:domain" and "attr:constants" in x and x[-1] == "attr:type"] if const else \
            [x for x in vals if x[:2] == ("param:action", "attr:signature") and "attr:constants" not in x]
        if own:
            r.ok({"literal_signature": "typed in ground_predicate", "constant": const, "type_from": "domain.constants[name].type" if const else "action.signature[name]"})
        else:
            r.fail(Finding("C20.constants", lit, f"literal-typed:const={const}", f"the signature of the grounded literal never receives the type of "
                           f"{'the constant' if const else 'the action parameter'}: the typed form keeps the types of the predicate's declaration "
                           f"(values come from {sorted(' . '.join(x[:4]) for x in vals)[:2]})", node=lsg))
    r.require_sites(8)
    return r


# the public pass that re-types a grounded literal's signature (property anchor); read in place inside ground_predicate
TYPING_PASS = "fix_grounded_predicate_types"


def rule_complete(repo: Repo) -> RuleResult:
    r = RuleResult("C20.complete", "an effect group grounds all of its discrete and numeric effects; the operator builds one group per effect group of the schema",
                   "nothing is added or omitted")
    f = L.fn(repo, "GroundedEffect.ground_conditional_effect")
    p = L.prov(repo, f)
    pm = L.parents_of(f)
    for lifted, grounded, fn in (("_lifted_discrete_effects", "grounded_discrete_effects", "ground_predicate"),
                                 ("_lifted_numeric_effects", "grounded_numeric_effects", "ground_numeric_calculation_tree")):
        r.site(f"{f.qn} [{lifted}]")

        def is_target(e, grounded=grounded):
            if isinstance(e, ast.Attribute) and isinstance(e.ctx, ast.Store):
                return e.attr == grounded and isinstance(e.value, ast.Name) and e.value.id == f.self_name
            try:
                tr = p.trace(e)
            except KeyError:
                return False
            return bool(tr) and all(x == ("self", f"attr:{grounded}") for x in tr)

        adds = L.container_additions(f, is_target)
        good = 0
        why = "no statement adds the grounded elements"
        for elt, conds, site, comp in adds:
            if isinstance(site, ast.Assign) and isinstance(site.value, ast.Call) and callee_name(site.value) in ("set", "list") and not site.value.args:
                continue   # (re-)initialisation to an empty container in the same function is not a pruning by itself
            if conds is None:
                why = f"{unparse(site, 60)} is not an element-wise construction"
                continue
            if not (isinstance(elt, ast.Call) and callee_name(elt) == fn and elt.args):
                why = f"the added element {unparse(elt, 50)} is not {fn}(<lifted effect>, ...)"
                continue
            src = p.trace(elt.args[0])
            if not (src and all(x == ("self", f"attr:{lifted}", "elem") for x in src)):
                why = f"the grounded element derives from {sorted(src)[:2]}"
                continue
            if conds:
                why = "the elements are filtered"
                continue
            # loop form: no branching inside the loop(s) that enclose the site
            loops = [x for x in _ancestors(pm, site) if isinstance(x, (ast.For, ast.While))]
            if comp is None and (not loops or any(isinstance(s_, (ast.If, ast.Continue, ast.Break)) for lp in loops for s_ in C.stmts_in(lp.body))):
                why = "the grounding loop is filtered / not a loop over the lifted effects"
                continue
            if any(isinstance(x, ast.If) for x in _ancestors(pm, site)):
                why = "the grounding statement is conditional"
                continue
            good += 1
        if good == 1:
            r.ok({"grounds": f"every element of self.{lifted} -> self.{grounded} via {fn}", "filter": None})
        else:
            r.fail(Finding("C20.complete", f, f"effects-loop:{lifted}", f"not every element of {lifted} is grounded into {grounded}: {why}"))
    # nothing is removed from / re-filtered in the grounded collections afterwards
    r.site(f"{f.qn} [no pruning]")
    pruned = []
    for n in ast.walk(f.node):
        if isinstance(n, ast.Assign) and any(isinstance(t, ast.Attribute) and t.attr in ("grounded_discrete_effects", "grounded_numeric_effects") for t in n.targets):
            v = n.value
            elementwise = isinstance(v, (ast.SetComp, ast.ListComp)) and not any(g_.ifs for g_ in v.generators) and \
                all(x[:2] in (("self", "attr:_lifted_discrete_effects"), ("self", "attr:_lifted_numeric_effects")) for x in p.trace(v.generators[0].iter))
            if not elementwise:
                pruned.append(n)
        if isinstance(n, ast.Call) and isinstance(n.func, ast.Attribute) and n.func.attr in ("discard", "remove", "pop", "clear", "difference_update", "intersection_update") \
                and any(x[:2] in (("self", "attr:grounded_discrete_effects"), ("self", "attr:grounded_numeric_effects")) for x in p.trace(n.func.value)):
            pruned.append(n)
    if pruned:
        r.fail(Finding("C20.complete", f, "effects-pruned", f"{unparse(pruned[0], 70)} removes / re-filters grounded effects after grounding: the reported literals are no "
                       f"longer the substituted schema (e.g. a delete effect that is also added disappears for ?from == ?to)", node=pruned[0]))
    else:
        r.ok({"grounded_effects": "only added to"})
    # antecedents grounded with the same map
    r.site(f"{f.qn} [antecedents]")
    ac = [c for c in L.calls_in(f.node) if callee_name(c) == "ground_preconditions"]
    if ac and ac[0].args and all(x == ("param:parameters_map",) for x in p.trace(ac[0].args[0])):
        r.ok({"antecedents": "ground_preconditions(parameters_map)"})
    else:
        r.fail(Finding("C20.complete", f, "antecedents", "the antecedents are not grounded with the same parameter map"))
    # operator: one group for simple effects + one per conditional effect
    o = L.fn(repo, "Operator.ground")
    po = L.prov(repo, o)
    go = C.cfg_of(o.node)
    pmo = L.parents_of(o)
    init = repo.find_method("GroundedEffect", "__init__")
    ctors = [c for c in L.calls_in(o.node) if callee_name(c) == "GroundedEffect" and isinstance(c.func, ast.Name)]
    if not ctors:
        raise AnalysisError("Operator.ground: no GroundedEffect construction found")

    def null_elem(e):
        """`<a conditional effect of the schema> is None`: an element of the schema's collection is an object"""
        if isinstance(e, ast.Compare) and len(e.ops) == 1 and isinstance(e.ops[0], (ast.Is, ast.IsNot, ast.Eq, ast.NotEq)) and \
                isinstance(e.comparators[0], ast.Constant) and e.comparators[0].value is None:
            try:
                tr = po.trace(e.left)
            except KeyError:
                return None
            if tr and all(x[:4] == ("self", "attr:action", "attr:conditional_effects", "elem") for x in tr):
                return "nullelem" if isinstance(e.ops[0], (ast.Is, ast.Eq)) else "!nullelem"
        return None

    under = L.Guards(o, null_elem).under({"nullelem": False})
    _plain_trace = po.trace
    po = _Under(po, under)
    simple, conds, other = [], [], []
    for c in ctors:
        d = L.arg_of(c, init, "lifted_discrete_effects")
        td = po.trace(d) if d is not None else set()
        if td and all(x == ("self", "attr:action", "attr:discrete_effects") for x in td):
            simple.append(c)
        elif td and all(x[:4] == ("self", "attr:action", "attr:conditional_effects", "elem") for x in td):
            conds.append(c)
        else:
            other.append(c)

    def handled(c) -> bool:
        """the constructed group is grounded and collected (plain copies of the variable are followed)"""
        par = pmo.get(c)
        if not (isinstance(par, (ast.Assign, ast.AnnAssign)) and par.value is c):
            return False
        grounded = collected = False
        todo, seen_defs = [par], set()
        while todo:
            st = todo.pop()
            if id(st) in seen_defs:
                continue
            seen_defs.add(id(st))
            tgt = st.targets[0] if isinstance(st, ast.Assign) else st.target
            if not isinstance(tgt, ast.Name):
                continue
            d = go.node_of(st)
            for u in [n for n in ast.walk(o.node) if isinstance(n, ast.Name) and n.id == tgt.id and isinstance(n.ctx, ast.Load)]:
                try:
                    if d not in po.rd.defs_reaching(po.node_of(u), u.id):
                        continue
                except KeyError:
                    continue
                pu = pmo.get(u)
                if isinstance(pu, ast.Attribute) and pu.attr == "ground_conditional_effect":
                    grounded = True
                elif isinstance(pu, ast.Call) and isinstance(pu.func, ast.Attribute) and pu.func.attr in ("add", "append") and u in pu.args:
                    collected = True
                elif isinstance(pu, (ast.Set, ast.List, ast.Tuple)):
                    collected = True
                elif isinstance(pu, (ast.Assign, ast.AnnAssign)) and pu.value is u:
                    todo.append(pu)
        return grounded and collected

    r.site(o.qn + " [simple group]")
    ok = False
    if len(simple) == 1 and not other:
        c = simple[0]
        a, n = (L.arg_of(c, init, k) for k in ("lifted_antecedents", "lifted_numeric_effects"))
        ta = po.trace(a) if a is not None else set()
        ok = bool(ta) and all(x == ("const:None",) for x in ta) and n is not None and all(x == ("self", "attr:action", "attr:numeric_effects") for x in po.trace(n)) \
            and go.loop_of.get(go.node_containing(c)) is None and handled(c)
    if ok:
        r.ok({"simple_group": "GroundedEffect(None, action.discrete_effects, action.numeric_effects)"})
    else:
        r.fail(Finding("C20.complete", o, "simple-group", "the unconditional effects are not grounded as one group without antecedents"))
    r.site(o.qn + " [conditional groups]")
    ok = False
    if len(conds) == 1 and not other:
        c = conds[0]
        a, d, n = (L.arg_of(c, init, k) for k in ("lifted_antecedents", "lifted_discrete_effects", "lifted_numeric_effects"))
        same = lambda e, fld: e is not None and all(x == ("self", "attr:action", "attr:conditional_effects", "elem", f"attr:{fld}") for x in po.trace(e)) and po.trace(e)
        lp = [x for x in _ancestors(pmo, c) if isinstance(x, ast.For)]
        unfiltered = bool(lp) and not any(isinstance(s_, (ast.Continue, ast.Break)) for s_ in C.stmts_in(lp[0].body)) and \
            not any(isinstance(x, ast.If) and not getattr(x, "_inline_block", False) for x in _ancestors(pmo, c)) and \
            all(x == ("self", "attr:action", "attr:conditional_effects") for x in po.trace(lp[0].iter))
        ok = same(a, "antecedents") and same(d, "discrete_effects") and same(n, "numeric_effects") and unfiltered and handled(c)
    if ok:
        r.ok({"conditional_groups": "one GroundedEffect per conditional effect with its own antecedents / effects; every group grounded and collected"})
    else:
        r.fail(Finding("C20.complete", o, "conditional-groups", "conditional effects are not grounded one group each (antecedents, discrete, numeric of the same effect)"))
    r.require_sites(6)
    return r


class _Under:
    """a Prov view whose traces are taken under a fixed valuation"""

    def __init__(self, p, under):
        self._p, self._u = p, under
        self.rd, self.g = p.rd, p.g

    def trace(self, e, **kw):
        return self._p.trace(e, under=self._u, **kw)

    def node_of(self, e):
        return self._p.node_of(e)


def _ancestors(pm, n):
    cur = n
    while cur in pm:
        cur = pm[cur]
        yield cur


def rule_freshleaf(repo: Repo, rid: str = "C20.freshleaf") -> RuleResult:
    """grounding a numeric expression builds NEW fluent objects: the grounded tree is later filled with the values of a state
    (set_expression_value -> set_value), so a leaf that is still the schema's PDDLFunction object makes every evaluation write into the
    action schema / the domain, and all operators of that action share the value"""
    r = RuleResult(rid, "every fluent leaf of a grounded numeric tree is a PDDLFunction constructed during grounding, never the lifted tree's own object",
                   "grounding is substitution into a copy: evaluating a grounded operator never writes into the schema")
    from ..inline import flatten
    h = L.fn(repo, f"{GU}::ground_numeric_calculation_tree")
    funcs = [h]
    for c in L.calls_in(h.node):        # the recursive worker stays a call in the flattened entry point: it is read on its own as well
        _cat, tg = repo.resolve_call(h, c)
        for _k, t, _c in tg:
            if t is not None and t.mod is h.mod and t.name.startswith("_") and all(t.qn != x.qn for x in funcs):
                funcs.append(flatten(repo, t))
    n = 0
    for f in funcs:
        if n:
            break       # the entry point already shows the worker's body (inlined once)
        p = L.prov(repo, f)

        def is_fn(e, p=p):
            if isinstance(e, ast.Call) and callee_name(e) == "isinstance" and len(e.args) == 2 and "PDDLFunction" in ast.unparse(e.args[1]):
                return "isfn"
            return None
        G = L.Guards(f, is_fn)
        if "isfn" not in G.atoms_seen:
            continue
        seen = G.reach({"isfn": True})
        under = G.under({"isfn": True}, seen)
        params = {x for x in f.params}
        for c in L.calls_in(f.node):
            if callee_name(c) != "AnyNode" or not G.reaches_expr({"isfn": True}, c, seen=seen):
                continue
            v = next((k.value for k in c.keywords if k.arg == "value"), None)
            if v is None:
                continue
            # only leaves: a node built with children is an operator node (its value is the operator string)
            if any(k.arg == "children" for k in c.keywords):
                continue
            n += 1
            r.site(L.site(f, c, "grounded leaf"))
            try:
                tr = p.trace(v, under=under)
            except KeyError:
                tr = set()
            shared = sorted(x for x in tr if x[0].startswith("param:") and x[0][6:] in params and x[-1] == "attr:value" and "call:PDDLFunction" not in x)
            if shared:
                r.fail(Finding(rid, f, "leaf-shared", f"{unparse(c, 60)}: when the lifted leaf holds a PDDLFunction, the grounded leaf can hold that same object "
                               f"({' . '.join(shared[0][:4])}): values of a state are then written into the schema", node=c))
            else:
                r.ok({"leaf": unparse(c, 60)})
    if n == 0:
        raise AnalysisError("ground_numeric_calculation_tree: no AnyNode leaf construction under 'the lifted leaf is a PDDLFunction' found")
    return r


# The three kinds of node of a (binary) calculation tree; atoms: 'leaf' = the lifted node has no operands, 'isfn' = it holds a fluent.
# (an operator node holds the operator's name, so 'isfn' is false there)
NUMTREE_CASES = (
    ("operator", {"leaf": False, "isfn": False}),
    ("number-leaf", {"leaf": True, "isfn": False}),
    ("fluent-leaf", {"leaf": True, "isfn": True}),
)
# operand i of the grounded operator node is the grounding of operand i of the lifted node: `(- a b)` is not `(- b a)` / `(- b b)`
OPERAND_POSITIONS = (0, 1)
# the steps by which a value becomes the operands of a constructed tree node (AnyNode(parent=None, children=None, **fields))
CHILDREN_STEPS = ("kw:children:AnyNode", "arg1:AnyNode")
VALUE_STEP = "kw:value:AnyNode"


def _numtree_function(repo: Repo, h: FuncInfo):
    """(function, node paths, Guards) to read the node-by-node grounding from: the public entry point with the recursive worker inlined
    once, else the worker on its own.  Node paths = provenance of 'the lifted node that is being grounded'."""
    from ..inline import flatten
    funcs = [(h, {(f"param:{x}", "attr:root") for x in h.params})]
    for c in L.calls_in(h.node):
        _cat, tg = repo.resolve_call(h, c)
        for _k, t, _c in tg:
            if t is not None and t.mod is h.mod and t.name.startswith("_") and all(t.qn != x.qn for x, _n in funcs):
                w = flatten(repo, t)
                funcs.append((w, {(f"param:{x}",) for x in w.params}))
    for f, nodes in funcs:
        p = L.prov(repo, f)
        pm = L.parents_of(f)
        explicit: Set[str] = set()
        uninterpreted: List[ast.AST] = []

        def sub(e, suffix=(), p=p, nodes=nodes):
            """e is (a field of) the lifted node"""
            try:
                tr = p.trace(e)
            except (KeyError, RecursionError):
                return False
            return bool(tr) and all(x[:len(x) - len(suffix)] in nodes and x[len(x) - len(suffix):] == suffix for x in tr)

        def in_test(e, pm=pm):
            par = pm.get(e)
            return (isinstance(par, (ast.If, ast.IfExp, ast.While)) and par.test is e) or isinstance(par, ast.BoolOp) or \
                (isinstance(par, ast.UnaryOp) and isinstance(par.op, ast.Not))

        def matcher(e, sub=sub, in_test=in_test, explicit=explicit, uninterpreted=uninterpreted):
            if isinstance(e, ast.Attribute) and isinstance(e.ctx, ast.Load) and e.attr == "is_leaf" and sub(e.value):
                explicit.add("leaf")
                return "leaf"
            if isinstance(e, ast.Attribute) and isinstance(e.ctx, ast.Load) and e.attr == "children" and in_test(e) and sub(e.value):
                explicit.add("leaf")
                return "!leaf"      # truth value of the operands
            if isinstance(e, ast.Compare) and len(e.ops) == 1:
                l, r_, op = e.left, e.comparators[0], type(e.ops[0])
                if isinstance(l, ast.Call) and isinstance(l.func, ast.Name) and l.func.id == "len" and len(l.args) == 1 and \
                        isinstance(r_, ast.Constant) and isinstance(r_.value, int) and sub(l.args[0], ("attr:children",)):
                    if (op, r_.value) in ((ast.Eq, 0), (ast.Lt, 1), (ast.LtE, 0)):
                        explicit.add("leaf")
                        return "leaf"
                    if (op, r_.value) in ((ast.NotEq, 0), (ast.Gt, 0), (ast.GtE, 1)):
                        explicit.add("leaf")
                        return "!leaf"
            if isinstance(e, ast.Call) and callee_name(e) == "isinstance" and len(e.args) == 2 and sub(e.args[0], ("attr:value",)):
                t = e.args[1]
                names = [x.id if isinstance(x, ast.Name) else None for x in (t.elts if isinstance(t, ast.Tuple) else [t])]
                if names == ["PDDLFunction"]:
                    explicit.add("isfn")
                    return "isfn"
                uninterpreted.append(e)
            return None

        G = L.Guards(f, matcher)
        if {"leaf", "isfn"} <= explicit and any(callee_name(c) == "AnyNode" for c in L.calls_in(f.node)):
            if uninterpreted:
                raise AnalysisError(f"{f.qn}: the test {unparse(uninterpreted[0], 60)} on the value of a tree node is not interpreted")
            return f, p, nodes, G
    raise AnalysisError("ground_numeric_calculation_tree: the node-by-node grounding (tests `is a leaf` / `holds a PDDLFunction`, AnyNode "
                        "constructions) was not recognised")


def rule_numtree(repo: Repo, rid: str = "C20.numtree") -> RuleResult:
    """the grounded numeric expression is the schema's expression node by node: an operator node keeps its operator and has the grounded
    operands in their positions, a number leaf is copied as a leaf, a fluent leaf holds the grounded function; every kind of node yields a
    node.  Decided by the provenance of the returned node under the three valuations of (is a leaf, holds a fluent)."""
    r = RuleResult(rid, "numeric trees are grounded node by node: operator nodes keep operator and operand positions (each operand grounded "
                   "recursively), number leaves are copied, fluent leaves hold the grounded function; every case returns a constructed node",
                   "grounded numeric expressions are exactly the schema's expressions with each parameter replaced; nothing is added or omitted")
    h = L.fn(repo, f"{GU}::ground_numeric_calculation_tree")
    f, p, nodes, G = _numtree_function(repo, h)
    g = C.cfg_of(f.node)
    # the recursive worker: calls that were left as calls because their target is the function being read
    rec_names = set()
    for c in L.calls_in(f.node):
        _cat, tg = repo.resolve_call(f, c)
        for _k, t, _c in tg:
            if t is not None and (t.qn == f.qn or t.qn in set(getattr(f, "inlined", ()))):
                rec_names.add(callee_name(c))
    returns = [n for n in g.nodes() if g.kind[n] == "return" and isinstance(g.stmt[n], ast.Return) and g.stmt[n].value is not None]

    def node_prefix(x):
        for n_ in nodes:
            if x[:len(n_)] == n_:
                return len(n_)
        return None

    for case, valuation in NUMTREE_CASES:
        r.site(f"{f.qn} [{case}]")
        seen = G.reach(valuation)
        under = G.under(valuation, seen)
        live = [n for n in returns if n in seen]
        if not live:
            raise AnalysisError(f"{f.qn}: no return is reachable for the case {case} ({valuation})")
        R = set()
        for n in live:
            for x in p.trace(g.stmt[n].value, under=under):
                # the entry point wraps the grounded root into the expression tree: what is wrapped is the result
                cut = next((i for i, s_ in enumerate(x) if s_.endswith(":NumericalExpressionTree")), None)
                if cut is not None:
                    x = x[:cut]
                elif x[0] in ("fresh:NumericalExpressionTree", "ext:NumericalExpressionTree"):
                    continue
                if x:
                    R.add(x)
        built = ("ext:AnyNode",) in R or ("fresh:AnyNode",) in R
        stray = sorted(x for x in R if x not in (("ext:AnyNode",), ("fresh:AnyNode",)) and not x[-1].endswith(":AnyNode"))
        values = {x[:-1] for x in R if x[-1] == VALUE_STEP}
        operands = {x[:-1] for x in R if x[-1] in CHILDREN_STEPS}
        problems = []
        if not built or stray:
            what = "nothing / None" if any(x[0] == "const:None" for x in stray) else (" . ".join(stray[0][:4]) if stray else "no constructed node")
            problems.append(("result", f"the result can be {what} instead of a newly constructed tree node: the expression (or this part of it) is "
                             f"omitted / still the schema's own node"))
        elif case == "fluent-leaf":
            ok = ("fresh:PDDLFunction",) in values and all(x == ("fresh:PDDLFunction",) or x[-1].endswith(":PDDLFunction") for x in values)
            if not ok:
                bad = sorted(x for x in values if not (x == ("fresh:PDDLFunction",) or x[-1].endswith(":PDDLFunction")))
                problems.append(("value", f"the node's value is not the PDDLFunction constructed by the grounding "
                                 f"({' . '.join((bad[0] if bad else ('no value',))[-3:])}): the fluent is not substituted / not a fluent any more"))
        else:
            ok = bool(values) and all(node_prefix(x) is not None and x[node_prefix(x):] == ("attr:value",) for x in values)
            if not ok:
                bad = sorted(x for x in values if not (node_prefix(x) is not None and x[node_prefix(x):] == ("attr:value",)))
                problems.append(("value", f"the node's value is not the value of the lifted node ({' . '.join((bad[0] if bad else ('no value',))[-3:])}): "
                                 f"{'the operator' if case == 'operator' else 'the number'} is not kept"))
        if built and not stray:
            if case != "operator":
                if operands:
                    problems.append(("operands", "a leaf of the lifted tree is grounded to a node with operands (read from a node that has none)"))
            else:
                pairs, direct, odd = set(), [], []
                for x in operands:
                    k = node_prefix(x)
                    if k is None or len(x) < k + 2 or x[k] != "attr:children":
                        continue
                    rest = x[k + 1:]
                    src = rest[0]
                    if src.startswith(("item:", "unpack:")) and src.split(":", 1)[1].lstrip("-").isdigit():
                        spos = int(src.split(":", 1)[1])
                    elif src == "elem":
                        spos = "each"
                    else:
                        odd.append(x)
                        continue
                    if len(rest) < 3 or not (rest[1].split(":")[-1] in rec_names and rest[1].startswith(("arg", "kw:"))):
                        if len(rest) == 2 or not any(s_.split(":")[-1] in rec_names for s_ in rest):
                            direct.append(x)
                        else:
                            odd.append(x)
                        continue
                    dst = rest[2]
                    if dst.startswith("in:") and dst[3:].isdigit() and len(rest) == 3:
                        pairs.add((spos, int(dst[3:])))
                    elif (dst == "in:elt" or dst.startswith(("in:append@", "in:add@"))) and len(rest) == 3:
                        pairs.add((spos, "each"))
                    else:
                        odd.append(x)
                want = {(i, i) for i in OPERAND_POSITIONS}
                if not operands or (not pairs and not direct and not odd):
                    problems.append(("operands", "the grounded operator node gets no grounded operands: the operands of the expression are omitted"))
                elif direct:
                    problems.append(("operands", f"an operand of the lifted node is attached without being grounded ({' . '.join(direct[0][-4:])})"))
                elif odd:
                    raise AnalysisError(f"{f.qn}: the construction of the operands is not interpreted ({' . '.join(odd[0][-5:])})")
                elif pairs != want and pairs != {("each", "each")}:
                    problems.append(("operands", f"(lifted operand, grounded position) pairs are {sorted(pairs, key=str)}; expected {sorted(want)}: "
                                     f"an operand is dropped / duplicated / moved"))
        if problems:
            for what, text in problems:
                r.fail(Finding(rid, f, f"numeric-node:{case}:{what}", f"{case} {valuation}: {text}"))
        else:
            r.ok({"case": case, "valuation": dict(valuation), "value": "fresh PDDLFunction" if case == "fluent-leaf" else "lifted node's value",
                  "operands": "grounded recursively, position by position" if case == "operator" else None})
    r.require_sites(3)
    return r


def rules(repo: Repo, tier: str) -> List[RuleResult]:
    from . import c07
    grounding = lambda f: f.mod.short in ("models.grounding_utils", "models.grounded_precondition", "models.grounded_effect", "models.pddl_operator")
    return [rule_zip(repo), rule_positional(repo), rule_constants(repo), rule_complete(repo), c02.rule_translate(repo, "C20.translate"),
            # a grounded literal carries ITS argument types: it must not share (and overwrite) the domain's declaration or the action schema
            c07.rule_write(repo, "C20.purity", floor=10, only=grounding),
            c01.rule_dupkeys(repo, "C20.dupkeys", [f"{GU}::ground_numeric_calculation_tree"]), rule_freshleaf(repo), rule_numtree(repo)]
