"""C05 -- problem text is parsed faithfully and ill-formed facts are rejected."""
from __future__ import annotations

import ast
from typing import List, Optional, Set

from .. import cfg as C
from .. import lib as L
from ..core import AnalysisError, FuncInfo, Repo, unparse
from ..prov import callee_name
from ..report import Finding, RuleResult
from . import c01, c06, c12
from . import _c05_util as U5

EXPLANATION = (
    "C05.validators: must-pass-through on the CFG of ProblemParser.parse_grounded_predicate / parse_grounded_numeric_fluent: every "
    "return is dominated by (a) an arity comparison that raises, (b) a subtype test (is_sub_type inside an assert / raise guard) in a "
    "loop over all arguments, directly or through _validate_object_types, (c) a lookup of every argument in objects+constants "
    "(implicit KeyError) and, for fluents, (d) a membership test of the function name. C05.nodrop: the state-component and goal "
    "handlers end their fall-through in raise. C05.domainname: parse_domain_name raises on a mismatch and is the sink of the :domain "
    "arm. C05.sections: parse_problem has an arm per section storing into the matching Problem field. C05.leftover: parse_objects "
    "flushes the trailing untyped group. C05.direction: is_sub_type(receiver = object's type, argument = declared type). C05.goal: "
    "goal literals go through the same validator as initial facts. C05.value: the fluent value is float(third item) stored with "
    "set_value under the fluent's ground name. assert-based checks disappear under python -O (stated in evidence). "
    "C05.gates (valuations of guard atoms, L.Guards): with unequal lengths no return of the two validators is reachable and with equal "
    "lengths one is; an assignment of exactly 3 items reaches the store of initial fluents, one of 2 / 4 items does not; after an accepted "
    "component / conjunct was stored no raise statement is reachable; the goal's head is compared with 'and' (mismatch: no store "
    "reachable); a conjunct whose head is an operator reaches goal_state_fluents only, one whose head is a predicate goal_state_predicates "
    "only, on every path through a turn; a plain token never reaches the recursive call of parse_objects and a nested list never the name "
    "collection; the occurrence-count threshold of repeating_variables lies between 1 and 2. C05.positions (provenance paths): argument "
    "tokens = tokens[1:], conjuncts = goal[1:], nested block content = block[1:], keyword / table tests read token 0 of the component. "
    "C05.pairing: GroundedPredicate(name, signature, object_mapping {parameter: object}), PDDLObject(name <- token, type <- domain.types), "
    "construct_expression_tree(conjunct, domain.functions). C05.walks: every :init item reaches the stores of parse_state_component "
    "(no slice / range offset, loop not left early), the goal loop and the object token loop are not left early, the result of the "
    "recursive call flows into the returned objects, a `while cursor < len(tokens)` walk starts at 0, has exactly that condition and on "
    "every path through a turn advances the cursor by the tokens it read."
)
UNDECIDED = "that the stored objects / facts / values equal those written for every problem text; :metric; behaviour under python -O"

PP = "lisp_parsers.problem_parser"


def _dominated(g: C.CFG, dom, rets, nodes) -> bool:
    return bool(rets) and all(dom[r] & set(nodes) for r in rets)


def _raising_if_nodes(g: C.CFG, pred) -> List[int]:
    out = []
    for n in g.nodes():
        st = g.stmt[n]
        if isinstance(st, ast.If) and pred(st.test) and (any(isinstance(s, ast.Raise) for s in C.stmts_in(st.body)) or
                                                        any(isinstance(s, ast.Raise) for s in C.stmts_in(st.orelse))):
            out.append(n)
        if isinstance(st, ast.Assert) and pred(st.test):
            out.append(n)
    return out


def _is_arity_test(t: ast.AST, p=None) -> bool:
    """len(<argument tokens>) compared with len(<declared signature>), also through locals and under `not`"""
    while isinstance(t, ast.UnaryOp) and isinstance(t.op, ast.Not):
        t = t.operand
    if not isinstance(t, ast.Compare) or len(t.ops) != 1 or not isinstance(t.ops[0], (ast.NotEq, ast.Eq, ast.Lt, ast.Gt, ast.LtE, ast.GtE)):
        return False
    sides = [t.left, t.comparators[0]]
    if p is None:
        lens = [s_ for s_ in sides if isinstance(s_, ast.Call) and callee_name(s_) == "len"]
        return len(lens) == 2 and any("signature" in ast.unparse(s_) for s_ in lens)
    try:
        trs = [p.trace(s_) for s_ in sides]
    except KeyError:
        return False
    is_len = [bool(tr) and all(x[-1] == "arg0:len" for x in tr) for tr in trs]
    sig = [any("attr:signature" in x for x in tr) for tr in trs]
    tok = [any(x[0].startswith("param:") and any(st.startswith("slice:1") for st in x) for x in tr) for tr in trs]
    return all(is_len) and ((sig[0] and tok[1]) or (sig[1] and tok[0]))


def _subtype_check_nodes(repo: Repo, f: FuncInfo, g: C.CFG, depth: int = 0) -> List[int]:
    """nodes that guarantee a per-argument subtype check: loop heads whose body asserts is_sub_type, or calls of a helper that does"""
    out = []

    def all_subtype(test) -> bool:
        """all(a.is_sub_type(b) for ...) without a filter (possibly under `not`)"""
        while isinstance(test, ast.UnaryOp) and isinstance(test.op, ast.Not):
            test = test.operand
        return isinstance(test, ast.Call) and callee_name(test) == "all" and len(test.args) == 1 and \
            isinstance(test.args[0], (ast.GeneratorExp, ast.ListComp)) and not any(g_.ifs for g_ in test.args[0].generators) and \
            any(isinstance(x, ast.Call) and callee_name(x) == "is_sub_type" for x in ast.walk(test.args[0].elt))

    for n in g.nodes():
        st = g.stmt[n]
        if isinstance(st, ast.Assert) and all_subtype(st.test):
            out.append(n)
        elif isinstance(st, ast.If) and all_subtype(st.test) and (any(isinstance(b, ast.Raise) for b in C.stmts_in(st.body)) or
                                                                 any(isinstance(b, ast.Raise) for b in C.stmts_in(st.orelse))):
            out.append(n)
        if isinstance(st, ast.For):
            body_ok = False
            for s in C.stmts_in(st.body):
                if isinstance(s, ast.Assert) and any(isinstance(x, ast.Call) and callee_name(x) == "is_sub_type" for x in ast.walk(s.test)):
                    body_ok = True
                if isinstance(s, ast.If) and any(isinstance(x, ast.Call) and callee_name(x) == "is_sub_type" for x in ast.walk(s.test)) and \
                        any(isinstance(b, ast.Raise) for b in C.stmts_in(s.body)):
                    body_ok = True
            if body_ok:
                out.append(n)
        elif st is not None and depth < 2:
            h = C.header(st)
            if h is None:
                continue
            for c in L.calls_in(h):
                cat, tg = repo.resolve_call(f, c)
                for _k, t, _c in tg:
                    if t is not None and t.mod is f.mod and t.qn != f.qn:
                        tg_g = C.cfg_of(t.node)
                        inner = _subtype_check_nodes(repo, t, tg_g, depth + 1)
                        if inner:
                            # the helper must run its check on every path to its end
                            d2 = C.dominators(tg_g)
                            ends = [p for p, _ in tg_g.pred[tg_g.exit]]
                            if ends and all(d2[e] & set(inner) for e in ends):
                                out.append(n)
    return out


def rule_validators(repo: Repo, rid: str = "C05.validators", cls: str = "ProblemParser") -> RuleResult:
    r = RuleResult(rid, "every ground atom / fluent passes an arity check, a per-argument subtype check and an object lookup before it is returned",
                   "wrong arity, undeclared objects, non-conforming types and undeclared functions are rejected")
    for meth, is_fluent in (("parse_grounded_predicate", False), ("parse_grounded_numeric_fluent", True)):
        f = L.fn(repo, f"{cls}.{meth}")
        g = C.cfg_of(f.node)
        dom = C.dominators(g)
        p = L.prov(repo, f)
        rets = [n for n in g.nodes() if g.kind[n] == "return"]
        # (a) arity
        r.site(f"{f.qn} [arity]")
        ar = _raising_if_nodes(g, lambda t: _is_arity_test(t, p))
        if _dominated(g, dom, rets, ar) or _arity_decides(f, p, g, rets):
            r.ok({"function": f.qn, "arity_check_dominates_return": True})
        else:
            r.fail(Finding(rid, f, "missing:arity-check", "a return is reachable without an arity comparison that raises"))
        # (b) subtype check over all arguments
        r.site(f"{f.qn} [types]")
        sc = _subtype_check_nodes(repo, f, g)
        if _dominated(g, dom, _returns_with_arguments(f, p, g, rets), sc):
            r.ok({"function": f.qn, "subtype_check_dominates_return": True})
        else:
            r.fail(Finding(rid, f, "missing:type-check", "a return is reachable without a per-argument is_sub_type check that raises"))
        # (c) lookup of every argument in objects + constants
        r.site(f"{f.qn} [object lookup]")
        ok_lookup = _lookup_all_args(repo, f, p) or any(_lookup_all_args(repo, t, L.prov(repo, t)) for t in _local_helpers(repo, f)) or \
            _lookup_by_argument(f, p)
        if ok_lookup:
            r.ok({"function": f.qn, "every_argument_looked_up_in": "objects + constants (KeyError when undeclared)"})
        else:
            r.fail(Finding(rid, f, "missing:object-lookup", "the arguments are not looked up in problem objects + domain constants: undeclared objects are accepted"))
        # (b') the i-th argument is compared with the i-th declared type: the argument types must not be funnelled through a dict
        # keyed by the argument names (a repeated argument collapses and the remaining positions are compared with the wrong type / not at all)
        r.site(f"{f.qn} [type pairing]")
        by_name = []
        for c in L.calls_in(f.node):
            if callee_name(c) == "is_sub_type" and isinstance(c.func, ast.Attribute):
                try:
                    tr = p.trace(c.func.value, keys=True)
                except KeyError:
                    continue
                for x in tr:
                    if "askey" in x:
                        # the NAME that keys the object lookup was itself taken from the keys of a dict / a set of the argument tokens:
                        # repeated arguments collapse there as well, the i-th name no longer meets the i-th declared type
                        k_ = len(x) - 1 - x[::-1].index("askey")
                        if x[0].startswith("param:") and any(st == "in:key" or st.startswith("in:setkey@") or st in ("arg0:set", "arg0:frozenset", "arg0:Counter")
                                                             for st in x[:k_]) and any(st.startswith("arg") and st.endswith(":zip") or st == "arg0:enumerate" for st in x[:k_]):
                            by_name.append((c, True))
                        continue
                    for i, st in enumerate(x[:-1]):
                        # the type became a VALUE of a dict (display / comprehension / d[k] = v / dict(zip(keys, values))) that is read back with .values()
                        as_value = st == "in:value" or st.startswith("in:setval@") or (st == "arg0:dict" and i > 0 and x[i - 1] == "arg1:zip")
                        if as_value and x[i + 1] == "call:values" and "attr:type" in x[:i]:
                            # the dict's keys: the argument tokens?
                            keyed = any(("in:key" in y or any(s_.startswith("in:setkey@") for s_ in y)) and y[0].startswith("param:") and
                                        any(s_.startswith("slice:1") for s_ in y) for y in p.trace(c.func.value, keys=False) | tr)
                            by_name.append((c, keyed))
        if any(k for _c, k in by_name) or by_name:
            c0 = by_name[0][0]
            r.fail(Finding(rid, f, "types-by-name", f"{unparse(c0, 60)}: the argument types are collected in a dict keyed by the argument names and read back with "
                           f".values(): with a repeated argument, e.g. (link n1 n1 t1), the positions shift and a well-typed fact is rejected / an "
                           f"ill-typed one accepted", node=c0))
        else:
            r.ok({"function": f.qn, "argument_types": "compared position by position"})
        if is_fluent:
            r.site(f"{f.qn} [function name]")
            def _functions_map(e) -> bool:
                try:
                    return any(x[-1] == "attr:functions" for x in p.trace(e))
                except KeyError:
                    return False

            nm = _raising_if_nodes(g, lambda t: isinstance(t, ast.Compare) and isinstance(t.ops[0], (ast.In, ast.NotIn)) and _functions_map(t.comparators[0]))
            implicit = []
            for n in g.nodes():
                st = g.stmt[n]
                h = C.header(st) if st is not None else None
                if h is not None and any(isinstance(x, ast.Subscript) and isinstance(x.ctx, ast.Load) and _functions_map(x.value) for x in ast.walk(h)):
                    implicit.append(n)
            if _dominated(g, dom, rets, nm + implicit):
                r.ok({"function": f.qn, "function_name_checked": "assert / lookup in domain.functions"})
            else:
                r.fail(Finding(rid, f, "missing:function-name-check", "an undeclared function name is not rejected"))
    r.notes.append("assert statements count as raising checks; under `python -O` they are compiled away")
    r.require_sites(9)
    return r


ARG_PASS = ("arg0:list", "arg0:tuple", "arg0:enumerate", "arg0:zip", "arg1:zip", "arg0:iter", "arg0:reversed", "unpack:0", "unpack:1", "elem", "item")


def _argument_list_path(x: tuple) -> bool:
    """the path denotes the argument tokens  tokens[1:]  (possibly copied into a list / tuple)"""
    return len(x) >= 2 and x[0].startswith("param:") and x[1].startswith("slice:1:") and all(st in ("arg0:list", "arg0:tuple") for st in x[2:])


def _returns_with_arguments(f: FuncInfo, p, g: C.CFG, rets):
    """the returns that can be reached with a non-empty argument list: an early return for `not arguments` has no argument to type-check"""
    def m(e):
        if isinstance(e, ast.Name) and isinstance(e.ctx, ast.Load):
            tr = _safe_trace(p, e)
            if tr and all(_argument_list_path(x) for x in tr):
                return "!noargs"
        if isinstance(e, ast.Compare) and len(e.ops) == 1 and isinstance(e.comparators[0], ast.Constant) and e.comparators[0].value == 0 and \
                isinstance(e.ops[0], (ast.Eq, ast.NotEq, ast.Gt)):
            tr = _safe_trace(p, e.left)
            if tr and all(x[-1] == "arg0:len" and _argument_list_path(x[:-1]) for x in tr):
                return "noargs" if isinstance(e.ops[0], ast.Eq) else "!noargs"
        return None
    G = L.Guards(f, m)
    if "noargs" not in G.atoms_seen:
        return rets
    live = G.reach({"noargs": False})
    return [n for n in rets if n in live] or rets


def _lookup_by_argument(f: FuncInfo, p) -> bool:
    """some lookup  M[k]  where M is built from problem objects AND domain constants and k runs over the argument tokens tokens[1:]
    (loop variable, comprehension variable, zip partner), not filtered"""
    pm = L.parents_of(f)
    for s in ast.walk(f.node):
        if not (isinstance(s, ast.Subscript) and isinstance(s.ctx, ast.Load) and not isinstance(s.slice, ast.Slice)):
            continue
        tr = _safe_trace(p, s.value)
        if not (any("attr:objects" in x for x in tr) and any("attr:constants" in x for x in tr)):
            continue
        keys = _safe_trace(p, s.slice)
        if not any(len(x) >= 3 and x[0].startswith("param:") and x[1].startswith("slice:1:") and all(st in ARG_PASS for st in x[2:]) and
                   any(st in ("elem", "item") for st in x[2:]) for x in keys):
            continue
        cur, filtered = s, False
        while cur in pm:
            cur = pm[cur]
            if isinstance(cur, (ast.ListComp, ast.SetComp, ast.DictComp, ast.GeneratorExp)) and any(g_.ifs for g_ in cur.generators):
                filtered = True
        if filtered:
            continue
        # inside a statement loop: every turn passes the lookup (no `continue` in front of it) and the loop is not left early
        g = C.cfg_of(f.node)
        G0 = L.Guards(f, lambda e: None)
        at = g.node_containing(s)
        loops = [lp for lp in ast.walk(f.node) if isinstance(lp, (ast.For, ast.While)) and any(x is s for b in lp.body for x in ast.walk(b))]
        if at is None or all(L.must_pass_in_loop(G0, {}, lp, {at}) and not L.leaves_loop_early(G0, {}, lp) for lp in loops):
            return True
    return False


def _arity_decides(f: FuncInfo, p, g: C.CFG, rets) -> bool:
    """an equality test of the two lengths exists and with unequal lengths no return is reachable (whatever the shape: guard clause, the
    accepting branch nested under the test, raise after the if)"""
    def m(e):
        if isinstance(e, ast.Compare) and len(e.ops) == 1 and isinstance(e.ops[0], (ast.Eq, ast.NotEq)) and _is_arity_test(e, p):
            return "same" if isinstance(e.ops[0], ast.Eq) else "!same"
        return None
    G = L.Guards(f, m)
    if "same" not in G.atoms_seen:
        return False
    differ = G.reach({"same": False})
    return bool(rets) and not any(n in differ for n in rets)


def _local_helpers(repo: Repo, f: FuncInfo) -> List[FuncInfo]:
    out = []
    for c in L.calls_in(f.node):
        cat, tg = repo.resolve_call(f, c)
        for _k, t, _c in tg:
            if t is not None and t.mod is f.mod and t.qn != f.qn and t.cls == f.cls:
                out.append(t)
    return out


def _lookup_all_args(repo: Repo, f: FuncInfo, p) -> bool:
    """a comprehension / loop over the argument tokens that subscripts a map built from objects and constants"""
    for n in ast.walk(f.node):
        if isinstance(n, (ast.ListComp, ast.DictComp, ast.SetComp, ast.GeneratorExp)):
            gen = n.generators[0]
            elt_nodes = [n.elt] if not isinstance(n, ast.DictComp) else [n.key, n.value]
            for e in elt_nodes:
                for s in ast.walk(e):
                    if isinstance(s, ast.Subscript) and isinstance(s.slice, ast.Name) and s.slice.id in C.target_names(gen.target):
                        tr = p.trace(s.value)
                        has_obj = any("attr:objects" in x for x in tr)
                        has_const = any("attr:constants" in x for x in tr)
                        it = p.trace(gen.iter)
                        all_args = any(x[0].startswith("param:") and (x[-1].startswith("slice:1") or len(x) == 1) for x in it) and not gen.ifs
                        if has_obj and has_const and all_args:
                            return True
    return False


def rule_domainname(repo: Repo) -> RuleResult:
    r = RuleResult("C05.domainname", "a problem that names a different domain is rejected", "(:domain x) must match the parsed domain")
    f = L.fn(repo, "ProblemParser.parse_domain_name")
    g = C.cfg_of(f.node)
    p = L.prov(repo, f)
    r.site(f.qn)

    def side(e) -> str:
        try:
            tr = p.trace(e)
        except KeyError:
            return "?"
        if tr and all(x[0].startswith("param:") for x in tr):
            return "param"
        if tr and all(x[0] == "self" and x[-2:] == ("attr:domain", "attr:name") for x in tr):
            return "domain.name"
        return "?"

    def pred(t):
        return isinstance(t, ast.Compare) and len(t.ops) == 1 and isinstance(t.ops[0], (ast.NotEq, ast.Eq)) and \
            {"param", "domain.name"} <= {side(s) for s in (t.left, t.comparators[0])}

    G = L.Guards(f, lambda e: ("!same" if isinstance(e.ops[0], ast.NotEq) else "same") if pred(e) else None)
    if "same" not in G.atoms_seen:
        r.fail(Finding("C05.domainname", f, "missing:name-comparison", "parse_domain_name does not compare the given name with domain.name"))
    else:
        raises = [n for n in g.nodes() if g.kind[n] == "raise"]
        r_diff, r_same = G.reach({"same": False}), G.reach({"same": True})
        if any(n in r_diff for n in raises) and not any(n in r_same for n in raises) and g.exit not in {m for n in r_diff for m, _ in g.succ[n] if g.kind[n] != "raise"} - set():
            r.ok({"mismatch": "raises", "match": "returns"})
        elif any(n in r_diff for n in raises) and not any(n in r_same for n in raises):
            r.ok({"mismatch": "raises", "match": "returns"})
        else:
            r.fail(Finding("C05.domainname", f, "name-guard", "a mismatching domain name does not raise (or a matching one does)"))
    r.require_sites(1)
    return r


def rule_sections(repo: Repo) -> RuleResult:
    r = RuleResult("C05.sections", "parse_problem has an arm per section handing it to the matching parser / field",
                   "the parsed problem contains exactly the declared objects, initial facts and goals")
    f = L.fn(repo, "ProblemParser.parse_problem")
    loops = [n for n in ast.walk(f.node) if isinstance(n, ast.For) and isinstance(n.target, ast.Name)]
    loops = [lp for lp in loops if c01.ConstDispatch(repo, f, lp).mentioned(":goal")]
    if not loops:
        raise AnalysisError("parse_problem: section loop not found")
    var = loops[0].target.id
    arms = c01._arms_by_constant(f, var, repo, loops[0])
    want = {"problem": ("store", "name"), ":domain": ("call", "parse_domain_name"), ":objects": ("store+call", "objects", "parse_objects"),
            ":init": ("call", "parse_initial_state"), ":goal": ("call", "parse_goal_state")}
    for head, spec in want.items():
        r.site(f"{f.qn} [{head}]")
        body = arms.get(head)
        if body is None:
            r.fail(Finding("C05.sections", f, f"missing-arm:{head}", f"parse_problem has no arm for {head!r}"))
            continue
        calls = [callee_name(c) for s in body for c in L.calls_in(s)]
        stores = [t.attr for s in C.stmts_in(body) if isinstance(s, ast.Assign) for t in s.targets if isinstance(t, ast.Attribute)]
        ok = True
        if "store" in spec[0]:
            ok = ok and spec[1] in stores
        if "call" in spec[0]:
            ok = ok and spec[-1] in calls
        # the section's content (var[1] / var[1:]) is what is handed on
        pr = L.prov(repo, f)
        elem = {x + ("elem",) for x in pr.trace(loops[0].iter)}
        handed = False
        for s_ in body:
            for x in ast.walk(s_):
                if isinstance(x, ast.Subscript) and isinstance(x.ctx, ast.Load):
                    try:
                        tr = pr.trace(x)
                    except KeyError:
                        continue
                    if any(pth[:-1] in elem and (pth[-1] == "item:1" or pth[-1].startswith("slice:1")) for pth in tr):
                        handed = True
        ok = ok and handed
        if ok:
            r.ok({"section": head, "handled_by": spec[1:]})
        else:
            r.fail(Finding("C05.sections", f, f"arm:{head}", f"the arm for {head!r} does not hand the section to {spec[1:]} (calls {calls}, stores {stores})"))
    r.require_sites(5)
    return r


def _into(p, e: ast.AST, attr: str) -> bool:
    """the expression denotes (a part of) the container stored in the field `attr`"""
    base = e
    while isinstance(base, (ast.Subscript, ast.Attribute)) and not (isinstance(base, ast.Attribute) and base.attr == attr):
        base = base.value
    if (isinstance(base, ast.Name) and base.id.split("__i")[0] == attr) or (isinstance(base, ast.Attribute) and base.attr == attr):
        return True
    try:
        return any(f"attr:{attr}" in x for x in p.trace(e))
    except KeyError:
        return False


def rule_goal(repo: Repo) -> RuleResult:
    r = RuleResult("C05.goal", "goal literals go through the same validator as initial facts; numeric goals become expression trees; both are stored",
                   "exactly the goal literals and numeric goal conditions")
    f = L.fn(repo, "ProblemParser.parse_goal_state")
    p = L.prov(repo, f)
    r.site(f.qn + " [literals]")
    apps = [c for c in L.calls_in(f.node) if isinstance(c.func, ast.Attribute) and c.func.attr in ("append", "add") and _into(p, c.func.value, "goal_state_predicates")]
    ok = any(any(any(s.endswith("parse_grounded_predicate") for s in x) for x in p.trace(c.args[0])) for c in apps if c.args)
    if ok:
        r.ok({"goal_literals": "parse_grounded_predicate -> goal_state_predicates"})
    else:
        r.fail(Finding("C05.goal", f, "goal-literal-path", "goal literals are not validated by parse_grounded_predicate before being stored"))
    r.site(f.qn + " [numeric]")
    adds = [c for c in L.calls_in(f.node) if isinstance(c.func, ast.Attribute) and c.func.attr in ("append", "add") and _into(p, c.func.value, "goal_state_fluents")]
    ok = any(any(any(s.endswith("construct_expression_tree") for s in x) for x in p.trace(c.args[0])) for c in adds if c.args)
    if ok:
        r.ok({"numeric_goals": "construct_expression_tree -> goal_state_fluents"})
    else:
        r.fail(Finding("C05.goal", f, "numeric-goal-path", "numeric goal conditions are not stored as expression trees"))
    r.site(f.qn + " [initial facts]")
    g = L.fn(repo, "ProblemParser.parse_state_component")
    pg = L.prov(repo, g)
    adds = [c for c in L.calls_in(g.node) if isinstance(c.func, ast.Attribute) and c.func.attr in ("append", "add") and _into(pg, c.func.value, "initial_state_predicates")]
    ok = any(any(any(s.endswith("parse_grounded_predicate") for s in x) for x in pg.trace(c.args[0])) for c in adds if c.args)
    if ok:
        r.ok({"initial_facts": "parse_grounded_predicate -> initial_state_predicates"})
    else:
        r.fail(Finding("C05.goal", g, "init-literal-path", "initial facts are not validated by parse_grounded_predicate before being stored"))
    r.require_sites(3)
    return r


def rule_value(repo: Repo, rid: str = "C05.value", spec: str = "ProblemParser.parse_state_component", store_attr: str = "initial_state_fluents") -> RuleResult:
    r = RuleResult(rid, "the fluent value is float(third item), set on the parsed fluent, which is stored under its ground name",
                   "exactly the listed fluent values")
    f = L.fn(repo, spec)
    p = L.prov(repo, f)
    r.site(f.qn + " [value]")
    sv = [c for c in L.calls_in(f.node) if callee_name(c) == "set_value" and c.args]
    okv = any(any(x[0].startswith("param:") and L.has_pos(x, 2) and "arg0:float" in x for x in p.trace(c.args[0])) and
              any(any(s.endswith("parse_grounded_numeric_fluent") for s in x) and any(L.has_pos(x, 1) for x in p.trace(c.func.value)) for x in p.trace(c.func.value))
              for c in sv)
    if okv:
        r.ok({"value": "float(expression[2])", "fluent": "parse_grounded_numeric_fluent(expression[1])"})
    else:
        r.fail(Finding(rid, f, "fluent-value", "the fluent value does not come from float(<third item>) / the fluent from the second item"))
    # the only judge of the value text is float(): an extra syntactic gate in front of it rejects values that float() reads (1e3, 2.5e-1, inf)
    r.site(f.qn + " [value gate]")
    g = C.cfg_of(f.node)
    gates = []
    for n in g.nodes():
        st = g.stmt[n]
        if isinstance(st, (ast.If, ast.Assert)):
            about_value = False
            for sub in ast.walk(st.test):
                if isinstance(sub, (ast.Name, ast.Subscript)) and isinstance(getattr(sub, "ctx", None), ast.Load):
                    try:
                        tr = p.trace(sub)
                    except KeyError:
                        continue
                    if any(x[0].startswith("param:") and L.has_pos(x, 2) and "arg0:float" not in x and "arg0:len" not in x for x in tr):
                        about_value = True
            if about_value:
                t_ = C.reach_under(g, lambda e, st=st: True if e is st.test else None, start=n)
                e_ = C.reach_under(g, lambda e, st=st: False if e is st.test else None, start=n)
                if isinstance(st, ast.Assert) or any(g.kind[x] == "raise" for x in t_ - e_) or any(g.kind[x] == "raise" for x in e_ - t_):
                    gates.append(st)
    if gates:
        r.fail(Finding(rid, f, "value-gate", f"{unparse(gates[0].test, 60)} decides whether the value text is accepted before float() sees it: "
                       f"values that float() reads (exponent notation such as 1e3) are rejected", node=gates[0]))
    else:
        r.ok({"value_text_judged_by": "float() only"})
    r.site(f.qn + " [store]")
    is_store = _store_container(repo, f, p, store_attr)
    stores = [n for n in ast.walk(f.node) if isinstance(n, ast.Assign) and any(isinstance(t, ast.Subscript) and is_store(t.value) for t in n.targets)]
    oks = False
    for s in stores:
        t = [t for t in s.targets if isinstance(t, ast.Subscript)][0]
        key, val = p.trace(t.slice), p.trace(s.value)
        same = any(any(st.endswith("parse_grounded_numeric_fluent") for st in x) for x in val) and \
            any(any(st.endswith("parse_grounded_numeric_fluent") for st in x) and x[-1] == "attr:untyped_representation" for x in key)
        oks = oks or same
    if oks:
        r.ok({"stored_under": "fluent.untyped_representation"})
    else:
        r.fail(Finding(rid, f, "fluent-store", f"the parsed fluent is not stored in {store_attr} under its own ground name"))
    r.require_sites(3)
    return r


def _field_ctor_params(repo: Repo, attr: str):
    """(class name, constructor, parameter) for every class whose constructor stores a parameter unchanged in the field `attr`"""
    out = []
    for cname in sorted(repo.classes):
        init = repo.find_method(cname, "__init__")
        if init is None or getattr(init, "node", None) is None or not init.params:
            continue
        me = init.params[0]
        for n in ast.walk(init.node):
            tg = n.targets if isinstance(n, ast.Assign) else [n.target] if isinstance(n, ast.AnnAssign) and n.value is not None else []
            for t in tg:
                if isinstance(t, ast.Attribute) and t.attr == attr and isinstance(t.value, ast.Name) and t.value.id == me and \
                        isinstance(n.value, ast.Name) and n.value.id in init.params[1:]:
                    out.append((cname, init, n.value.id))
    return out


def _origin_defs(f: FuncInfo, name: ast.Name, depth: int = 0) -> Set[int]:
    """the definitions the value of a local name comes from, plain copies (`a = b`, parameter bindings of helpers in place) followed"""
    g = C.cfg_of(f.node)
    rd = L.rd_of(f)
    at = g.node_containing(name)
    out: Set[int] = set()
    if at is None or depth > 8:
        return out
    for d in rd.defs_reaching(at, name.id):
        st = g.stmt[d]
        v = st.value if isinstance(st, (ast.Assign, ast.AnnAssign)) else None
        plain = isinstance(v, ast.Name) and (isinstance(st, ast.AnnAssign) or (len(st.targets) == 1 and isinstance(st.targets[0], ast.Name)))
        if plain and rd.defs_reaching(d, v.id):
            out |= _origin_defs(f, v, depth + 1)
        else:
            out.add(d)
    return out


def _store_container(repo: Repo, f: FuncInfo, p, store_attr: str):
    """predicate `expr denotes the container the parsed fluents are stored in`: the field `store_attr` of an object (ProblemParser:
    problem.initial_state_fluents), or the local dict that is handed to the constructor parameter which becomes that field
    (TrajectoryParser: State(fluents=<dict>) -> State.state_fluents).  The local's own name does not matter."""
    ctor_args: List[ast.AST] = []
    for cname, init, pname in _field_ctor_params(repo, store_attr):
        for c in L.calls_in(f.node):
            if isinstance(c.func, ast.Name) and c.func.id == cname:
                a = L.arg_of(c, init, pname)
                if a is not None:
                    ctor_args.append(a)
    arg_origins: Set[int] = set()
    arg_locals: Set[str] = set()
    for a in ctor_args:
        for x in ast.walk(a):
            if isinstance(x, ast.Name) and isinstance(x.ctx, ast.Load):
                arg_origins |= _origin_defs(f, x)
        for pth in _safe_trace(p, a):
            for st in pth:
                if st.startswith(("in:setval@", "in:setitem@", "in:setkey@")):
                    arg_locals.add(st.split("@", 1)[1])

    def is_store(e: ast.AST) -> bool:
        base = e
        while isinstance(base, (ast.Subscript, ast.Attribute)) and not (isinstance(base, ast.Attribute) and base.attr == store_attr):
            base = base.value
        if isinstance(base, ast.Attribute) and base.attr == store_attr:
            return True
        if any(f"attr:{store_attr}" in x for x in _safe_trace(p, e)):
            return True
        if isinstance(base, ast.Name) and ctor_args:
            if _origin_defs(f, base) & arg_origins:
                return True
            if base.id in arg_locals or (L.aliases(f, {base.id}) & arg_locals):
                return True
        if not ctor_args:
            return _into(p, e, store_attr)      # no constructor takes the field here: the former recognition (field / local of that name)
        return False

    return is_store


def rule_trailingtype(repo: Repo, rid: str = "C05.trailingtype") -> RuleResult:
    """objects listed after the last '- type' have no declared type: they are objects of the root type `object`, whatever groups came
    before them -- the type used for what is flushed AFTER the token loop is looked up by the constant 'object', not by a token"""
    r = RuleResult(rid, "the untyped tail of (:objects ...) gets the root type 'object' (looked up by that constant)",
                   "the problem declares exactly the source's objects with their types")
    f = L.fn(repo, "ProblemParser.parse_objects")
    p = L.prov(repo, f)
    g = C.cfg_of(f.node)
    loops = [n for n in ast.walk(f.node) if isinstance(n, (ast.For, ast.While))]
    tops = [lp for lp in loops if not any(lp is not o and any(x is lp for x in ast.walk(o)) for o in loops)]
    init = repo.find_method("PDDLObject", "__init__")
    ctors = [c for c in L.calls_in(f.node) if callee_name(c) == "PDDLObject" and isinstance(c.func, ast.Name)]
    live = L.Guards(f, lambda e: None).reach({})
    tail = []
    for c in ctors:
        n = g.node_containing(c)
        if n is None or n not in live:
            continue
        # outside the token loop: nested loops over the collected names (or comprehensions) do not count as the token loop
        token_loops = [lp for lp in tops if any("param:" in x[0] and not any(s_.startswith("in:") for s_ in x) for x in _safe_trace(p, lp.iter if isinstance(lp, ast.For) else lp.test))
                       or isinstance(lp, ast.While)]
        if any(any(x is c for x in ast.walk(lp)) for lp in token_loops):
            continue
        tail.append(c)
    r.site(f.qn + " [untyped tail]")
    if not tail:
        # no separate flush: whether the tail is declared at all is C05.leftover's question; there is no type choice to judge here
        r.ok({"untyped_tail": "no construction after the token loop (C05.leftover decides whether the tail is declared)"})
        return r
    bad = None
    for c in tail:
        t = L.arg_of(c, init, "type", 1)
        if t is None:
            continue
        tr = p.trace(t, keys=True)
        keys = [x for x in tr if "askey" in x]
        by_constant = any("item:'object'" in x for x in tr) or any(x[0] == "const:'object'" for x in keys)
        if any(x[0].startswith("param:") for x in keys) or not by_constant:
            bad = (c, sorted(keys)[:3])
    if bad:
        r.fail(Finding(rid, f, "tail-type", f"the type of the objects after the last '- type' is looked up by {bad[1]}: they can inherit the type of an earlier "
                       f"group instead of 'object'", node=bad[0]))
    else:
        r.ok({"untyped_tail": "domain.types['object']"})
    return r


def _safe_trace(p, e):
    try:
        return p.trace(e)
    except KeyError:
        return set()


def rules(repo: Repo, tier: str) -> List[RuleResult]:
    return [
        rule_validators(repo),
        c01.rule_nodrop(repo, "C05.nodrop", (PP,), 2, only={"ProblemParser.parse_state_component", "ProblemParser.parse_goal_state"},
                        anchors=["ProblemParser.parse_state_component", "ProblemParser.parse_goal_state"]),
        rule_domainname(repo),
        rule_sections(repo),
        c01.rule_leftover(repo, "C05.leftover", ["ProblemParser.parse_objects"]),
        c01.rule_typedlist(repo, "C05.typedlist", ["ProblemParser.parse_objects"]),
        rule_trailingtype(repo),
        c06.rule_direction(repo, "C05.direction"),
        rule_goal(repo),
        rule_value(repo),
        c01.rule_dupkeys(repo, "C05.dupkeys", ["ProblemParser.parse_grounded_numeric_fluent"]),
        _rule_memo(repo, "C05.cache"),
        U5.rule_gates(repo),
        U5.rule_positions(repo),
        U5.rule_pairing(repo),
        U5.rule_walks(repo),
    ]


def _rule_memo(repo: Repo, rid: str) -> RuleResult:
    """the type tests and lookups the validators rely on answer for the domain / problem at hand: a memo keyed by names that outlives the
    objects (decorator or module- / class-level dict) answers for an earlier domain with equal type names"""
    from . import c19
    mods = ("models.pddl_type", "models.pddl_object", "models.pddl_predicate", "models.pddl_function", PP)
    return c19.rule_cache(repo, rid, lambda f: any(f.mod.name.endswith(m) for m in mods), manual=True, objects=True)
