"""C04 -- a plan is turned into the trajectory that the transition function dictates."""
from __future__ import annotations

import ast
import itertools
from typing import List, Optional, Set

from .. import cfg as C
from .. import fields as F
from .. import lib as L
from ..core import AnalysisError, FuncInfo, Repo, unparse
from ..prov import callee_name
from ..report import Finding, RuleResult

EXPLANATION = (
    "C04.thread: def-use chains over the CFG of TrajectoryExporter.parse_plan show that the state handed to each step is defined "
    "only by the initial state (built from the problem's initial facts and fluents with is_init=True) and by the next_state of the "
    "previous step's triplet, that the plan sequence reaches the loop unsorted / unfiltered, and that every path through the loop "
    "body appends exactly one triplet. C04.refuse: finite valuation of Operator.apply over (skip_validation, is_applicable, "
    "allow_inapplicable_actions): the ValueError is reachable exactly for not skip, not applicable, not allowed. C04.except: "
    "create_single_triplet catches ValueError around apply and rebuilds the successor from the pre-state's facts and fluents; the "
    "triplet is wired (pre-state parameter, operator, successor). C04.flag: the allow flag handed to apply derives from the "
    "exporter's constructor argument whose default is False. C04.call: the plan line is lower-cased and split on parentheses / "
    "whitespace; name = first token, arguments = the rest in order."
)
UNDECIDED = "per-step conformance of the successor (that is C03); behaviour for plan lines that are not a single (name args...) form"


def _initial_state_ok(repo: Repo, f: FuncInfo, call: ast.Call, p, problem_param: str):
    """State(predicates=problem.initial_state_predicates, fluents=problem.initial_state_fluents, is_init=True)"""
    st = repo.find_method("State", "__init__")
    preds = L.arg_of(call, st, "predicates")
    flu = L.arg_of(call, st, "fluents")
    init = L.arg_of(call, st, "is_init")
    ok_p = preds is not None and (f"param:{problem_param}", "attr:initial_state_predicates") in p.trace(preds)
    ok_f = flu is not None and (f"param:{problem_param}", "attr:initial_state_fluents") in p.trace(flu)
    ok_i = isinstance(init, ast.Constant) and init.value is True
    return ok_p, ok_f, ok_i


def _is_last_next_state(pth, step_fn: str) -> bool:
    """<result of the step function> [appended to the list, last element taken] .next_state"""
    if pth[-1] != "attr:next_state":
        return False
    i = max(k for k, s_ in enumerate(pth) if s_.endswith(":" + step_fn))
    mid = pth[i + 1:-1]
    return all(s_.startswith("in:append@") or s_ == "item:-1" for s_ in mid) and (not mid or mid[-1] == "item:-1")


def _state_ctors_reaching(p, e) -> List[ast.Call]:
    """State(...) constructor calls among the definitions of the expression (def-use closure over plain name copies)"""
    out, seen, todo = [], set(), [e]
    while todo:
        x = todo.pop()
        if id(x) in seen:
            continue
        seen.add(id(x))
        if isinstance(x, ast.Call) and callee_name(x) == "State":
            out.append(x)
        elif isinstance(x, ast.Name):
            try:
                at = p.node_of(x)
            except KeyError:
                continue
            for d in p.rd.defs_reaching(at, x.id):
                st = p.g.stmt[d]
                if isinstance(st, (ast.Assign, ast.AnnAssign)) and st.value is not None:
                    todo.append(st.value)
        elif isinstance(x, ast.IfExp):
            todo += [x.body, x.orelse]
    return out


def rule_thread(repo: Repo, rid: str, fname: str, step_fn: str, init_fn: Optional[str] = None) -> RuleResult:
    r = RuleResult(rid, f"{fname}: states are threaded (first = initial state, next pre-state = previous post-state), one triplet per plan line, plan order kept",
                   "every pre-state equals the preceding post-state; one step per plan line, in plan order")
    f = L.fn(repo, fname, also={init_fn.split("::")[-1].split(".")[-1]} if init_fn else None)
    p = L.prov(repo, f)
    g = C.cfg_of(f.node)
    loops = [n for n in ast.walk(f.node) if isinstance(n, ast.For) and any(callee_name(c) == step_fn for c in L.calls_in(n))]
    if len(loops) != 1:
        raise AnalysisError(f"{fname}: expected one loop calling {step_fn}, found {len(loops)}")
    loop = loops[0]
    steps = [c for c in L.calls_in(loop) if callee_name(c) == step_fn]
    # (1) the plan sequence is iterated directly
    r.site(L.site(f, loop.iter, "plan sequence"))
    tr = p.trace(loop.iter)
    bad_steps = {s for pth in tr for s in pth if any(s.startswith(x) for x in ("arg0:sorted", "arg0:reversed", "arg0:set", "arg0:filter", "slice:", "call:sort", "arg0:frozenset"))}
    roots = {pth[0] for pth in tr}
    if bad_steps:
        r.fail(Finding(rid, f, "plan-order", f"the plan sequence reaches the loop through {sorted(bad_steps)}", node=loop))
    elif not ({"param:action_sequence"} & roots):
        r.fail(Finding(rid, f, "plan-source", f"the loop does not iterate the given action sequence (roots {sorted(roots)})", node=loop))
    else:
        r.ok({"iterates": sorted(roots)})
    # (2) the action of each step is the loop element
    for c in steps:
        sm = repo.func_opt(f"{f.cls}.{step_fn}")
        act = L.arg_of(c, sm, "action_call", 1)
        st = L.arg_of(c, sm, "previous_state", 0)
        r.site(L.site(f, c, "step"))
        atr = p.trace(act) if act is not None else set()
        if act is not None and all(pth[-1] == "elem" for pth in atr) and atr:
            r.ok({"step_action": "the loop element"})
        else:
            r.fail(Finding(rid, f, "step-action", f"the action of the step is {sorted(atr)[:2]}, not the current plan line", node=c))
        # (3) state threading
        str_ = p.trace(st) if st is not None else set()
        init_paths = [pth for pth in str_ if not any(s.endswith(":" + step_fn) for s in pth)]
        carried = [pth for pth in str_ if any(s.endswith(":" + step_fn) for s in pth)]
        ok_carried = bool(carried) and all(_is_last_next_state(pth, step_fn) for pth in carried)
        sample = {"state_argument_defined_by": sorted({"/".join(x[-2:]) for x in carried} | {x[0] for x in init_paths})}
        if not ok_carried:
            r.fail(Finding(rid, f, "thread:carried", f"the state handed to the next step is not <previous triplet>.next_state: {sorted(carried)[:3]}", node=c), sample)
        else:
            r.ok(sample)
        # initial state
        r.site(L.site(f, c, "initial state"))
        init_ok = False
        detail = {}
        ctor = [x for x in L.calls_in(f.node) if callee_name(x) == "State"]
        for ct in ctor:
            a, b, c3 = _initial_state_ok(repo, f, ct, p, "problem")
            if a and b and c3 and init_paths and all(pth[0] == "fresh:State" or any(s_.endswith(":State") for s_ in pth) for pth in init_paths) and \
                    (any(ct is x for x in _state_ctors_reaching(p, st)) or set(init_paths) <= set(p.trace(ct))):
                # (the constructed state may travel to the loop through records / tuples: then its provenance is what identifies it)
                init_ok = True
                detail = {"predicates": a, "fluents": b, "is_init": c3}
        if not init_ok and any(pth[0].startswith(("ext:", "unknown:")) or any(s.startswith("arg") and not s.endswith(":" + step_fn) for s in pth) for pth in init_paths) \
                and not ctor:
            raise AnalysisError(f"{fname}: the construction of the first pre-state is not visible ({sorted(init_paths)[:2]})")
        if init_ok:
            r.ok({"initial_state": detail})
        else:
            r.fail(Finding(rid, f, "thread:initial", f"the first pre-state is not State(problem's initial facts, initial fluents, is_init=True): {sorted(init_paths)[:3]}", node=c))
    # (4) exactly one append per iteration; the appended list is returned
    r.site(L.site(f, loop, "one triplet per line"))
    appends = [c for c in L.calls_in(loop) if isinstance(c.func, ast.Attribute) and c.func.attr == "append"]
    head = g.node_of(loop)
    paths = C.acyclic_paths(g, head, lambda n: False)
    body_paths = [pt for pt in paths if len(pt) > 1 and pt[0][1] == "iter"]
    app_nodes = {g.node_containing(a) for a in appends}
    counts = set()
    for pt in body_paths:
        counts.add(sum(1 for n, _ in pt[1:] if n in app_nodes))
    ret_names = {x.value.id for x in L.func_returns(f) if isinstance(x.value, ast.Name)}
    app_targets = {a.func.value.id for a in appends if isinstance(a.func.value, ast.Name)}
    appended_is_triplet = all(any(any(s.endswith(":" + step_fn) for s in pth) for pth in p.trace(a.args[0])) for a in appends if a.args)
    if counts == {1} and ret_names and ret_names <= app_targets and appended_is_triplet:
        r.ok({"appends_per_iteration": sorted(counts), "returned": sorted(ret_names)})
    else:
        r.fail(Finding(rid, f, "one-append", f"appends per loop iteration: {sorted(counts)}; returned {sorted(ret_names)}; appended targets {sorted(app_targets)}", node=loop))
    r.require_sites(4)
    return r


def _apply_matcher_for(p):
    def m(e):
        return _apply_matcher(e, p)
    return m


def _apply_matcher(e, p=None):
    if isinstance(e, ast.Name) and p is not None:
        if L.is_param(p, e, "skip_validation"):
            return "skip"
        if L.is_param(p, e, "allow_inapplicable_actions"):
            return "allow"
        return None
    if isinstance(e, ast.Name) and e.id == "skip_validation":
        return "skip"
    if isinstance(e, ast.Name) and e.id == "allow_inapplicable_actions":
        return "allow"
    if isinstance(e, ast.Call) and isinstance(e.func, ast.Attribute) and e.func.attr == "is_applicable":
        return "applicable"
    if isinstance(e, ast.Call) and isinstance(e.func, ast.Attribute) and e.func.attr == "antecedents_hold":
        return "hold"
    return None


def rule_refuse(repo: Repo, rid: str = "C04.refuse") -> RuleResult:
    r = RuleResult(rid, "Operator.apply raises exactly when validation is on, the action is inapplicable and inapplicable actions are not allowed",
                   "an inapplicable action is refused unless explicitly allowed")
    f = L.fn(repo, "Operator.apply")
    p = L.prov(repo, f)
    G = L.Guards(f, _apply_matcher_for(p))
    g = G.g
    if not {"applicable", "allow"} <= G.atoms_seen:
        raise AnalysisError(f"Operator.apply: guard atoms not recognised (seen {sorted(G.atoms_seen)})")
    # applicability is asked about the pre-state parameter
    for c in L.calls_in(f.node):
        if callee_name(c) == "is_applicable" and isinstance(c.func, ast.Attribute):
            r.site(L.site(f, c, "applicability test"))
            tr = p.trace(c.args[0]) if c.args else set()
            if tr and all(x == ("param:previous_state",) for x in tr):
                r.ok({"applicability_tested_on": "pre-state parameter"})
            else:
                r.fail(Finding(rid, f, "applicable-state", f"applicability is tested on {sorted(tr)[:2]}", node=c))
    raises = [n for n in g.nodes() if g.kind[n] == "raise"]
    if not raises:
        r.site(f.qn)
        r.fail(Finding(rid, f, "missing:raise", "Operator.apply never raises"))
        return r
    table = {}
    bad = []
    for skip, app, allow in itertools.product([False, True], repeat=3):
        val = {"applicable": app, "allow": allow, "hold": True}
        if "skip" in G.atoms_seen:
            val["skip"] = skip
        seen = G.reach(val)
        raised = any(n in seen for n in raises)
        rets = any(g.kind[n] == "return" and n in seen for n in g.nodes())
        want = (not skip) and (not app) and (not allow)
        table[f"skip={skip},applicable={app},allow={allow}"] = {"raise": raised, "returns": rets}
        if raised != want or rets != (not want):
            bad.append((skip, app, allow))
    r.site(f.qn + " [refusal table]")
    if bad:
        r.fail(Finding(rid, f, "refusal-table", f"refusal differs from (not skip and not applicable and not allow) for (skip, applicable, allow) in {bad}"), table)
    else:
        r.ok(table)
    # the error is a ValueError (what the exporter catches)
    for n in raises:
        st = g.stmt[n]
        r.site(L.site(f, st, "exception type"))
        exc = st.exc
        nm = exc.func.id if isinstance(exc, ast.Call) and isinstance(exc.func, ast.Name) else (exc.id if isinstance(exc, ast.Name) else None)
        if nm == "ValueError":
            r.ok({"raises": nm})
        else:
            r.fail(Finding(rid, f, "exception-type", f"refusal raises {nm}, the exporters catch ValueError", node=st))
    # defaults
    r.site(f.qn + " [defaults]")
    d1, d2 = f.defaults.get("allow_inapplicable_actions"), f.defaults.get("skip_validation")
    if isinstance(d1, ast.Constant) and d1.value is False and isinstance(d2, ast.Constant) and d2.value is False:
        r.ok({"allow_inapplicable_actions": False, "skip_validation": False})
    else:
        r.fail(Finding(rid, f, "defaults", "allow_inapplicable_actions / skip_validation do not default to False"))
    r.require_sites(4)
    return r


def rule_except(repo: Repo) -> RuleResult:
    r = RuleResult("C04.except", "create_single_triplet: ValueError from apply -> successor rebuilt from the pre-state; triplet = (pre-state, operator, successor)",
                   "a refused action leaves the state unchanged in an exported trajectory")
    f = L.fn(repo, "TrajectoryExporter.create_single_triplet")
    p = L.prov(repo, f)
    tries = [n for n in ast.walk(f.node) if isinstance(n, ast.Try)]
    applies = [c for c in L.calls_in(f.node) if callee_name(c) == "apply" and isinstance(c.func, ast.Attribute)]
    if not applies:
        raise AnalysisError("create_single_triplet: no call of Operator.apply found")
    a = applies[0]
    r.site(L.site(f, a, "apply call"))
    tr = p.trace(a.args[0]) if a.args else p.trace(L.arg_of(a, repo.func("Operator.apply"), "previous_state"))
    if tr and all(x == ("param:previous_state",) for x in tr):
        r.ok({"apply_on": "pre-state parameter"})
    else:
        r.fail(Finding("C04.except", f, "apply-state", f"apply is called on {sorted(tr)[:2]}", node=a))
    # operator built from the parsed action call
    ops = [c for c in L.calls_in(f.node) if callee_name(c) == "Operator"]
    r.site(f.qn + " [operator]")
    okop = False
    for c in ops:
        op_init = repo.find_method("Operator", "__init__")
        act = L.arg_of(c, op_init, "action")
        gc = L.arg_of(c, op_init, "grounded_action_call")
        po = L.arg_of(c, op_init, "problem_objects")
        t_act = p.trace(act) if act is not None else set()
        t_gc = p.trace(gc) if gc is not None else set()
        t_po = p.trace(po) if po is not None else set()
        c1 = any("attr:actions" in x and "attr:name" in x and x[0] == "param:action_call" for x in t_act) or \
            (any("attr:actions" in x for x in t_act) and isinstance(act, ast.Subscript) and any(x[0] == "param:action_call" for x in p.trace(act.slice))) or \
            (any("attr:actions" in x for x in t_act) and act is not None and
             any(x[0] == "param:action_call" and "attr:name" in x and "askey" in x for x in p.trace(act, keys=True)))
        c2 = any(x[0] == "param:action_call" and "attr:parameters" in x for x in t_gc)
        c3 = any(x == ("param:problem_objects",) for x in t_po)
        okop = okop or (c1 and c2 and c3)
    if okop:
        r.ok({"operator": "Operator(domain.actions[<name of the call>], domain, <parameters of the call>, problem_objects)"})
    else:
        r.fail(Finding("C04.except", f, "operator-wiring", "the operator is not built from (action named by the call, the call's parameters, problem objects)"))
    r.site(f.qn + " [handler]")
    h_ok = False
    handler_state = None
    for t in tries:
        if not any(a is x for s in t.body for x in ast.walk(s)):
            continue
        for h in t.handlers:
            names = []
            if h.type is None:
                names = ["<bare>"]
            elif isinstance(h.type, ast.Name):
                names = [h.type.id]
            elif isinstance(h.type, ast.Tuple):
                names = [x.id for x in h.type.elts if isinstance(x, ast.Name)]
            if {"ValueError", "Exception", "BaseException", "<bare>"} & set(names):
                h_ok = True
                for c in L.calls_in(h):
                    if callee_name(c) == "State":
                        handler_state = c
    if not h_ok:
        r.fail(Finding("C04.except", f, "missing:except-ValueError", "the refusal of apply (ValueError) is not caught: an invalid step aborts the export"))
    elif handler_state is None:
        # the handler reuses / copies the previous state: the successor of a step is never labelled as the initial state (State.copy and
        # an alias both keep the pre-state's is_init, which is True for the first plan line: the exported text then opens a second (:init)
        inherited = None
        for t in tries:
            for h in t.handlers:
                relabelled = {ast.unparse(s_.targets[0].value) for s_ in ast.walk(h) if isinstance(s_, ast.Assign) and isinstance(s_.targets[0], ast.Attribute)
                              and s_.targets[0].attr == "is_init" and isinstance(s_.value, ast.Constant) and s_.value.value is False}
                for s_ in ast.walk(h):
                    if not (isinstance(s_, ast.Assign) and len(s_.targets) == 1 and isinstance(s_.targets[0], ast.Name)):
                        continue
                    v = s_.value
                    src = v.func.value if isinstance(v, ast.Call) and isinstance(v.func, ast.Attribute) and v.func.attr in ("copy", "__copy__", "__deepcopy__") else \
                        v.args[0] if isinstance(v, ast.Call) and callee_name(v) in ("copy", "deepcopy") and v.args else v if isinstance(v, ast.Name) else None
                    if src is None or s_.targets[0].id in relabelled:
                        continue
                    try:
                        tr_ = p.trace(src)
                    except KeyError:
                        continue
                    if tr_ and all(x == ("param:previous_state",) for x in tr_):
                        inherited = s_
        if inherited is not None:
            r.fail(Finding("C04.except", f, "handler-label", f"after a refused action the successor is {unparse(inherited.value, 50)}: it keeps the pre-state's is_init label, so the "
                           f"state after a refused FIRST step is exported as a second (:init ..) instead of (:state ..)", node=inherited))
        else:
            r.ok({"handler": "catches ValueError"})
    else:
        st = repo.find_method("State", "__init__")
        pr, fl, ii = L.arg_of(handler_state, st, "predicates"), L.arg_of(handler_state, st, "fluents"), L.arg_of(handler_state, st, "is_init")
        okp = pr is not None and any(x[0] == "param:previous_state" and "attr:state_predicates" in x for x in p.trace(pr))
        okf = fl is not None and any(x[0] == "param:previous_state" and "attr:state_fluents" in x for x in p.trace(fl))
        oki = ii is None or (isinstance(ii, ast.Constant) and ii.value is False)
        if okp and okf and oki:
            r.ok({"handler_successor": "State(pre-state facts, pre-state fluents, is_init=False)"})
        else:
            r.fail(Finding("C04.except", f, "handler-state", "after a refused action the successor is not rebuilt from the pre-state's facts and fluents", node=handler_state))
    # triplet wiring
    trip = [c for c in L.calls_in(f.node) if callee_name(c) == "TrajectoryTriplet"]
    r.site(f.qn + " [triplet]")
    okt = False
    for c in trip:
        ti = repo.find_method("TrajectoryTriplet", "__init__")
        a0, a1, a2 = L.arg_of(c, ti, "previous_state"), L.arg_of(c, ti, "op"), L.arg_of(c, ti, "next_state")
        t0 = p.trace(a0) if a0 is not None else set()
        t1 = p.trace(a1) if a1 is not None else set()
        t2 = p.trace(a2) if a2 is not None else set()
        c0 = bool(t0) and all(x == ("param:previous_state",) for x in t0)
        c1 = any(x[0] == "fresh:Operator" for x in t1)
        c2 = any("call:apply" in x for x in t2) and not any(x == ("param:previous_state",) for x in t2)
        okt = okt or (c0 and c1 and c2)
    if okt:
        r.ok({"triplet": "(pre-state parameter, operator, result of apply | handler state)"})
    else:
        r.fail(Finding("C04.except", f, "triplet-wiring", "the returned triplet is not (pre-state parameter, the operator, the successor)"))
    r.require_sites(4)
    return r


def rule_flag(repo: Repo) -> RuleResult:
    r = RuleResult("C04.flag", "the allow flag passed to apply is the exporter's constructor flag, default False",
                   "inapplicable actions are executed only when the caller explicitly allowed them")
    f = L.fn(repo, "TrajectoryExporter.create_single_triplet")
    p = L.prov(repo, f)
    ap = repo.func("Operator.apply")
    for c in L.calls_in(f.node):
        if callee_name(c) == "apply" and isinstance(c.func, ast.Attribute):
            r.site(L.site(f, c, "allow flag"))
            a = L.arg_of(c, ap, "allow_inapplicable_actions")
            sk = L.arg_of(c, ap, "skip_validation")
            if sk is not None and not (isinstance(sk, ast.Constant) and sk.value is False):
                r.fail(Finding("C04.flag", f, "skip-validation", f"the exporter passes skip_validation={unparse(sk)}", node=c))
                continue
            if a is None:
                r.ok({"allow": "default False"})
                continue
            tr = p.trace(a)
            if all(x == ("self", "attr:allow_invalid_actions") for x in tr) and tr:
                r.ok({"allow": "self.allow_invalid_actions"})
            elif isinstance(a, ast.Constant) and a.value is False:
                r.ok({"allow": False})
            else:
                r.fail(Finding("C04.flag", f, "allow-source", f"allow_inapplicable_actions is {unparse(a)}", node=c))
    init = repo.func("TrajectoryExporter.__init__")
    r.site(init.qn)
    d = init.defaults.get("allow_invalid_actions")
    src = F.ctor_param_of_field(repo, "TrajectoryExporter").get("allow_invalid_actions", set())
    if isinstance(d, ast.Constant) and d.value is False and src == {"allow_invalid_actions"}:
        r.ok({"constructor_default": False})
    else:
        r.fail(Finding("C04.flag", init, "ctor-default", "TrajectoryExporter(allow_invalid_actions=...) does not default to False or is not stored unchanged"))
    r.require_sites(2)
    return r


def rule_call(repo: Repo) -> RuleResult:
    r = RuleResult("C04.call", "parse_action_call: lower-case, pad parentheses, split; name = first token inside the parentheses, parameters = the rest",
                   "each plan line denotes one action call with its arguments in order")
    f = L.fn(repo, "exporters.numeric_trajectory_exporter::parse_action_call")
    p = L.prov(repo, f)
    r.site(f.qn)
    ctor = [c for c in L.calls_in(f.node) if callee_name(c) == "ActionCall"]
    if not ctor:
        raise AnalysisError("parse_action_call: ActionCall construction not found")
    init = repo.find_method("ActionCall", "__init__")
    nm, ps = L.arg_of(ctor[0], init, "name"), L.arg_of(ctor[0], init, "grounded_parameters")
    tn, tp = p.trace(nm), p.trace(ps)
    lowered = all("call:lower" in x for x in tn | tp if x[0].startswith("param:"))
    split = all("call:split" in x for x in tn | tp if x[0].startswith("param:"))
    name_first = any(x[-1] == "item:0" for x in tn)
    rest = any(x[-1] == "slice:1:" for x in tp)
    inner = any("slice:1:-1" in x for x in tn) and any("slice:1:-1" in x for x in tp)
    if lowered and split and name_first and rest and inner:
        r.ok({"name": "tokens[1:-1][0]", "parameters": "tokens[1:-1][1:]", "lowered": True})
    else:
        r.fail(Finding("C04.call", f, "call-parsing", f"action call parsing: lowered={lowered} split={split} name_first={name_first} rest={rest} inner={inner}"))
    r.require_sites(1)
    return r


def rules(repo: Repo, tier: str) -> List[RuleResult]:
    from . import c03, c14
    return [rule_thread(repo, "C04.thread", "TrajectoryExporter.parse_plan", "create_single_triplet"),
            rule_refuse(repo), rule_except(repo), rule_flag(repo), rule_call(repo),
            # 'every post-state is the successor of its pre-state under that step's action': the transition clauses of C03
            c03.rule_antecedent(repo).as_rule("C04.step.antecedent"), c03.rule_copy(repo).as_rule("C04.step.copy"),
            c03.rule_universal(repo).as_rule("C04.step.universal"), c03.rule_prestate_rhs(repo).as_rule("C04.step.prestate_rhs"),
            # the recorded states stay what they were: the successor is built on a copy that shares no container with the pre-state
            # (an aliased container is rewritten by the NEXT step, retroactively changing the triplets already produced)
            c14.rule_copy(repo, "C04.copyfresh")]
