"""C04 -- a plan is turned into the trajectory that the transition function dictates."""
from __future__ import annotations

import ast
import itertools
from typing import List, Optional, Set

from .. import cfg as C
from .. import fields as F
from .. import lib as L
from ..core import AnalysisError, FuncInfo, Repo, unparse
from ..prov import callee_name
from ..report import Finding, RuleResult

EXPLANATION = (
    "C04.thread: def-use chains over the CFG of TrajectoryExporter.parse_plan show that the state handed to each step is defined "
    "only by the initial state (built from the problem's initial facts and fluents with is_init=True) and by the next_state of the "
    "previous step's triplet, that the plan sequence reaches the loop unsorted / unfiltered, and that every path through the loop "
    "body appends exactly one triplet. C04.refuse: finite valuation of Operator.apply over (skip_validation, is_applicable, "
    "allow_inapplicable_actions): the ValueError is reachable exactly for not skip, not applicable, not allowed. C04.except: "
    "create_single_triplet catches ValueError around apply and rebuilds the successor from the pre-state's facts and fluents; the "
    "triplet is wired (pre-state parameter, operator, successor). C04.flag: the allow flag handed to apply derives from the "
    "exporter's constructor argument whose default is False. C04.call: the plan line is lower-cased and split on parentheses / "
    "whitespace; name = first token, arguments = the rest in order. C04.except also demands that the successor named in the triplet is bound "
    "on the path through the handler (by the handler or before the try). C04.step.everyeffect: no turn of a loop of Operator.apply that leads "
    "to an effect application can end the walk (guard reachability of one turn: break / return). C04.step.grounded: the field the stored "
    "effect groups are read from is filled in only by the grounding method (the constructor leaves it empty); under 'not grounded' and every "
    "valuation of (skip_validation, applicable, allow) the read is reached only through a call that fills it in on all its paths."
)
UNDECIDED = "per-step conformance of the successor (that is C03); behaviour for plan lines that are not a single (name args...) form"


def _initial_state_ok(repo: Repo, f: FuncInfo, call: ast.Call, p, problem_param: str):
    """State(predicates=problem.initial_state_predicates, fluents=problem.initial_state_fluents, is_init=True)"""
    st = repo.find_method("State", "__init__")
    preds = L.arg_of(call, st, "predicates")
    flu = L.arg_of(call, st, "fluents")
    init = L.arg_of(call, st, "is_init")
    ok_p = preds is not None and (f"param:{problem_param}", "attr:initial_state_predicates") in p.trace(preds)
    ok_f = flu is not None and (f"param:{problem_param}", "attr:initial_state_fluents") in p.trace(flu)
    ok_i = _is_const(p, init, True)
    return ok_p, ok_f, ok_i


def _is_const(p, e, value) -> bool:
    """the expression is the constant `value`, written in place or through locals / helper parameters bound to it"""
    if e is None:
        return False
    if isinstance(e, ast.Constant):
        return e.value is value
    try:
        tr = p.trace(e)
    except (KeyError, RecursionError):
        return False
    return bool(tr) and all(x == (f"const:{value!r}",) for x in tr)


def _is_last_next_state(pth, step_fn: str) -> bool:
    """<result of the step function> [appended to the list, last element taken] .next_state"""
    if pth[-1] != "attr:next_state":
        return False
    i = max(k for k, s_ in enumerate(pth) if s_.endswith(":" + step_fn))
    mid = pth[i + 1:-1]
    return all(s_.startswith("in:append@") or s_ == "item:-1" for s_ in mid) and (not mid or mid[-1] == "item:-1")


def _state_ctors_reaching(p, e) -> List[ast.Call]:
    """State(...) constructor calls among the definitions of the expression (def-use closure over plain name copies)"""
    out, seen, todo = [], set(), [e]
    while todo:
        x = todo.pop()
        if id(x) in seen:
            continue
        seen.add(id(x))
        if isinstance(x, ast.Call) and callee_name(x) == "State":
            out.append(x)
        elif isinstance(x, ast.Name):
            try:
                at = p.node_of(x)
            except KeyError:
                continue
            for d in p.rd.defs_reaching(at, x.id):
                st = p.g.stmt[d]
                if isinstance(st, (ast.Assign, ast.AnnAssign)) and st.value is not None:
                    todo.append(st.value)
        elif isinstance(x, ast.IfExp):
            todo += [x.body, x.orelse]
    return out


def rule_thread(repo: Repo, rid: str, fname: str, step_fn: str, init_fn: Optional[str] = None) -> RuleResult:
    r = RuleResult(rid, f"{fname}: states are threaded (first = initial state, next pre-state = previous post-state), one triplet per plan line, plan order kept",
                   "every pre-state equals the preceding post-state; one step per plan line, in plan order")
    f = L.fn(repo, fname, also={init_fn.split("::")[-1].split(".")[-1]} if init_fn else None)
    p = L.prov(repo, f)
    g = C.cfg_of(f.node)
    loops = [n for n in ast.walk(f.node) if isinstance(n, ast.For) and any(callee_name(c) == step_fn for c in L.calls_in(n))]
    if len(loops) != 1:
        raise AnalysisError(f"{fname}: expected one loop calling {step_fn}, found {len(loops)}")
    loop = loops[0]
    steps = [c for c in L.calls_in(loop) if callee_name(c) == step_fn]
    # (1) the plan sequence is iterated directly
    r.site(L.site(f, loop.iter, "plan sequence"))
    tr = p.trace(loop.iter)
    bad_steps = {s for pth in tr for s in pth if any(s.startswith(x) for x in ("arg0:sorted", "arg0:reversed", "arg0:set", "arg0:filter", "slice:", "call:sort", "arg0:frozenset"))}
    roots = {pth[0] for pth in tr}
    if bad_steps:
        r.fail(Finding(rid, f, "plan-order", f"the plan sequence reaches the loop through {sorted(bad_steps)}", node=loop))
    elif not ({"param:action_sequence"} & roots):
        r.fail(Finding(rid, f, "plan-source", f"the loop does not iterate the given action sequence (roots {sorted(roots)})", node=loop))
    else:
        r.ok({"iterates": sorted(roots)})
    # (2) the action of each step is the loop element
    for c in steps:
        sm = repo.func_opt(f"{f.cls}.{step_fn}")
        act = L.arg_of(c, sm, "action_call", 1)
        st = L.arg_of(c, sm, "previous_state", 0)
        r.site(L.site(f, c, "step"))
        atr = p.trace(act) if act is not None else set()
        if act is not None and all(pth[-1] == "elem" for pth in atr) and atr:
            r.ok({"step_action": "the loop element"})
        else:
            r.fail(Finding(rid, f, "step-action", f"the action of the step is {sorted(atr)[:2]}, not the current plan line", node=c))
        # (3) state threading
        str_ = p.trace(st) if st is not None else set()
        init_paths = [pth for pth in str_ if not any(s.endswith(":" + step_fn) for s in pth)]
        carried = [pth for pth in str_ if any(s.endswith(":" + step_fn) for s in pth)]
        ok_carried = bool(carried) and all(_is_last_next_state(pth, step_fn) for pth in carried)
        sample = {"state_argument_defined_by": sorted({"/".join(x[-2:]) for x in carried} | {x[0] for x in init_paths})}
        if not ok_carried:
            r.fail(Finding(rid, f, "thread:carried", f"the state handed to the next step is not <previous triplet>.next_state: {sorted(carried)[:3]}", node=c), sample)
        else:
            r.ok(sample)
        # initial state
        r.site(L.site(f, c, "initial state"))
        init_ok = False
        detail = {}
        ctor = [x for x in L.calls_in(f.node) if callee_name(x) == "State"]
        for ct in ctor:
            a, b, c3 = _initial_state_ok(repo, f, ct, p, "problem")
            if a and b and c3 and init_paths and all(pth[0] == "fresh:State" or any(s_.endswith(":State") for s_ in pth) for pth in init_paths) and \
                    (any(ct is x for x in _state_ctors_reaching(p, st)) or set(init_paths) <= set(p.trace(ct))):
                # (the constructed state may travel to the loop through records / tuples: then its provenance is what identifies it)
                init_ok = True
                detail = {"predicates": a, "fluents": b, "is_init": c3}
        if not init_ok and any(pth[0].startswith(("ext:", "unknown:")) or any(s.startswith("arg") and not s.endswith(":" + step_fn) for s in pth) for pth in init_paths) \
                and not ctor:
            raise AnalysisError(f"{fname}: the construction of the first pre-state is not visible ({sorted(init_paths)[:2]})")
        if init_ok:
            r.ok({"initial_state": detail})
        else:
            r.fail(Finding(rid, f, "thread:initial", f"the first pre-state is not State(problem's initial facts, initial fluents, is_init=True): {sorted(init_paths)[:3]}", node=c))
    # (4) exactly one append per iteration; the appended list is returned
    r.site(L.site(f, loop, "one triplet per line"))
    appends = [c for c in L.calls_in(loop) if isinstance(c.func, ast.Attribute) and c.func.attr == "append"]
    head = g.node_of(loop)
    paths = C.acyclic_paths(g, head, lambda n: False)
    body_paths = [pt for pt in paths if len(pt) > 1 and pt[0][1] == "iter"]
    app_nodes = {g.node_containing(a) for a in appends}
    counts = set()
    for pt in body_paths:
        counts.add(sum(1 for n, _ in pt[1:] if n in app_nodes))
    ret_names = {x.value.id for x in L.func_returns(f) if isinstance(x.value, ast.Name)}
    app_targets = {a.func.value.id for a in appends if isinstance(a.func.value, ast.Name)}
    appended_is_triplet = all(any(any(s.endswith(":" + step_fn) for s in pth) for pth in p.trace(a.args[0])) for a in appends if a.args)
    if counts == {1} and ret_names and ret_names <= app_targets and appended_is_triplet:
        r.ok({"appends_per_iteration": sorted(counts), "returned": sorted(ret_names)})
    else:
        r.fail(Finding(rid, f, "one-append", f"appends per loop iteration: {sorted(counts)}; returned {sorted(ret_names)}; appended targets {sorted(app_targets)}", node=loop))
    r.require_sites(4)
    return r


def _apply_matcher_for(p):
    def m(e):
        return _apply_matcher(e, p)
    return m


def _apply_matcher(e, p=None):
    if isinstance(e, ast.Name) and p is not None:
        if L.is_param(p, e, "skip_validation"):
            return "skip"
        if L.is_param(p, e, "allow_inapplicable_actions"):
            return "allow"
        return None
    if isinstance(e, ast.Name) and e.id == "skip_validation":
        return "skip"
    if isinstance(e, ast.Name) and e.id == "allow_inapplicable_actions":
        return "allow"
    if isinstance(e, ast.Call) and isinstance(e.func, ast.Attribute) and e.func.attr == "is_applicable":
        return "applicable"
    if isinstance(e, ast.Call) and isinstance(e.func, ast.Attribute) and e.func.attr == "antecedents_hold":
        return "hold"
    return None


def rule_refuse(repo: Repo, rid: str = "C04.refuse") -> RuleResult:
    r = RuleResult(rid, "Operator.apply raises exactly when validation is on, the action is inapplicable and inapplicable actions are not allowed",
                   "an inapplicable action is refused unless explicitly allowed")
    f = L.fn(repo, "Operator.apply")
    p = L.prov(repo, f)
    G = L.Guards(f, _apply_matcher_for(p))
    g = G.g
    if not {"applicable", "allow"} <= G.atoms_seen:
        raise AnalysisError(f"Operator.apply: guard atoms not recognised (seen {sorted(G.atoms_seen)})")
    # applicability is asked about the pre-state parameter
    for c in L.calls_in(f.node):
        if callee_name(c) == "is_applicable" and isinstance(c.func, ast.Attribute):
            r.site(L.site(f, c, "applicability test"))
            tr = p.trace(c.args[0]) if c.args else set()
            if tr and all(x == ("param:previous_state",) for x in tr):
                r.ok({"applicability_tested_on": "pre-state parameter"})
            else:
                r.fail(Finding(rid, f, "applicable-state", f"applicability is tested on {sorted(tr)[:2]}", node=c))
    raises = [n for n in g.nodes() if g.kind[n] == "raise"]
    if not raises:
        r.site(f.qn)
        r.fail(Finding(rid, f, "missing:raise", "Operator.apply never raises"))
        return r
    table = {}
    bad = []
    for skip, app, allow in itertools.product([False, True], repeat=3):
        val = {"applicable": app, "allow": allow, "hold": True}
        if "skip" in G.atoms_seen:
            val["skip"] = skip
        seen = G.reach(val)
        raised = any(n in seen for n in raises)
        rets = any(g.kind[n] == "return" and n in seen for n in g.nodes())
        want = (not skip) and (not app) and (not allow)
        table[f"skip={skip},applicable={app},allow={allow}"] = {"raise": raised, "returns": rets}
        if raised != want or rets != (not want):
            bad.append((skip, app, allow))
    r.site(f.qn + " [refusal table]")
    if bad:
        r.fail(Finding(rid, f, "refusal-table", f"refusal differs from (not skip and not applicable and not allow) for (skip, applicable, allow) in {bad}"), table)
    else:
        r.ok(table)
    # the error is a ValueError (what the exporter catches)
    for n in raises:
        st = g.stmt[n]
        r.site(L.site(f, st, "exception type"))
        exc = st.exc
        nm = exc.func.id if isinstance(exc, ast.Call) and isinstance(exc.func, ast.Name) else (exc.id if isinstance(exc, ast.Name) else None)
        if nm == "ValueError":
            r.ok({"raises": nm})
        else:
            r.fail(Finding(rid, f, "exception-type", f"refusal raises {nm}, the exporters catch ValueError", node=st))
    # defaults
    r.site(f.qn + " [defaults]")
    d1, d2 = f.defaults.get("allow_inapplicable_actions"), f.defaults.get("skip_validation")
    if isinstance(d1, ast.Constant) and d1.value is False and isinstance(d2, ast.Constant) and d2.value is False:
        r.ok({"allow_inapplicable_actions": False, "skip_validation": False})
    else:
        r.fail(Finding(rid, f, "defaults", "allow_inapplicable_actions / skip_validation do not default to False"))
    r.require_sites(4)
    return r


def rule_except(repo: Repo) -> RuleResult:
    r = RuleResult("C04.except", "create_single_triplet: ValueError from apply -> successor rebuilt from the pre-state; triplet = (pre-state, operator, successor)",
                   "a refused action leaves the state unchanged in an exported trajectory")
    f = L.fn(repo, "TrajectoryExporter.create_single_triplet")
    p = L.prov(repo, f)
    tries = [n for n in ast.walk(f.node) if isinstance(n, ast.Try)]
    applies = [c for c in L.calls_in(f.node) if callee_name(c) == "apply" and isinstance(c.func, ast.Attribute)]
    if not applies:
        raise AnalysisError("create_single_triplet: no call of Operator.apply found")
    a = applies[0]
    r.site(L.site(f, a, "apply call"))
    tr = p.trace(a.args[0]) if a.args else p.trace(L.arg_of(a, repo.func("Operator.apply"), "previous_state"))
    if tr and all(x == ("param:previous_state",) for x in tr):
        r.ok({"apply_on": "pre-state parameter"})
    else:
        r.fail(Finding("C04.except", f, "apply-state", f"apply is called on {sorted(tr)[:2]}", node=a))
    # operator built from the parsed action call
    ops = [c for c in L.calls_in(f.node) if callee_name(c) == "Operator"]
    r.site(f.qn + " [operator]")
    okop = False
    for c in ops:
        op_init = repo.find_method("Operator", "__init__")
        act = L.arg_of(c, op_init, "action")
        gc = L.arg_of(c, op_init, "grounded_action_call")
        po = L.arg_of(c, op_init, "problem_objects")
        t_act = p.trace(act) if act is not None else set()
        t_gc = p.trace(gc) if gc is not None else set()
        t_po = p.trace(po) if po is not None else set()
        c1 = any("attr:actions" in x and "attr:name" in x and x[0] == "param:action_call" for x in t_act) or \
            (any("attr:actions" in x for x in t_act) and isinstance(act, ast.Subscript) and any(x[0] == "param:action_call" for x in p.trace(act.slice))) or \
            (any("attr:actions" in x for x in t_act) and act is not None and
             any(x[0] == "param:action_call" and "attr:name" in x and "askey" in x for x in p.trace(act, keys=True)))
        c2 = any(x[0] == "param:action_call" and "attr:parameters" in x for x in t_gc)
        c3 = any(x == ("param:problem_objects",) for x in t_po)
        okop = okop or (c1 and c2 and c3)
    if okop:
        r.ok({"operator": "Operator(domain.actions[<name of the call>], domain, <parameters of the call>, problem_objects)"})
    else:
        r.fail(Finding("C04.except", f, "operator-wiring", "the operator is not built from (action named by the call, the call's parameters, problem objects)"))
    r.site(f.qn + " [handler]")
    h_ok = False
    handler_state = None
    for t in tries:
        if not any(a is x for s in t.body for x in ast.walk(s)):
            continue
        for h in t.handlers:
            names = []
            if h.type is None:
                names = ["<bare>"]
            elif isinstance(h.type, ast.Name):
                names = [h.type.id]
            elif isinstance(h.type, ast.Tuple):
                names = [x.id for x in h.type.elts if isinstance(x, ast.Name)]
            if {"ValueError", "Exception", "BaseException", "<bare>"} & set(names):
                h_ok = True
                for c in L.calls_in(h):
                    if callee_name(c) == "State":
                        handler_state = c
    if not h_ok:
        r.fail(Finding("C04.except", f, "missing:except-ValueError", "the refusal of apply (ValueError) is not caught: an invalid step aborts the export"))
    elif handler_state is None:
        # the handler reuses / copies the previous state: the successor of a step is never labelled as the initial state (State.copy and
        # an alias both keep the pre-state's is_init, which is True for the first plan line: the exported text then opens a second (:init)
        inherited = None
        for t in tries:
            for h in t.handlers:
                relabelled = {ast.unparse(s_.targets[0].value) for s_ in ast.walk(h) if isinstance(s_, ast.Assign) and isinstance(s_.targets[0], ast.Attribute)
                              and s_.targets[0].attr == "is_init" and isinstance(s_.value, ast.Constant) and s_.value.value is False}
                for s_ in ast.walk(h):
                    if not (isinstance(s_, ast.Assign) and len(s_.targets) == 1 and isinstance(s_.targets[0], ast.Name)):
                        continue
                    v = s_.value
                    src = v.func.value if isinstance(v, ast.Call) and isinstance(v.func, ast.Attribute) and v.func.attr in ("copy", "__copy__", "__deepcopy__") else \
                        v.args[0] if isinstance(v, ast.Call) and callee_name(v) in ("copy", "deepcopy") and v.args else v if isinstance(v, ast.Name) else None
                    if src is None or s_.targets[0].id in relabelled:
                        continue
                    try:
                        tr_ = p.trace(src)
                    except KeyError:
                        continue
                    if tr_ and all(x == ("param:previous_state",) for x in tr_):
                        inherited = s_
        if inherited is not None:
            r.fail(Finding("C04.except", f, "handler-label", f"after a refused action the successor is {unparse(inherited.value, 50)}: it keeps the pre-state's is_init label, so the "
                           f"state after a refused FIRST step is exported as a second (:init ..) instead of (:state ..)", node=inherited))
        else:
            r.ok({"handler": "catches ValueError"})
    else:
        st = repo.find_method("State", "__init__")
        pr, fl, ii = L.arg_of(handler_state, st, "predicates"), L.arg_of(handler_state, st, "fluents"), L.arg_of(handler_state, st, "is_init")
        okp = pr is not None and any(x[0] == "param:previous_state" and "attr:state_predicates" in x for x in p.trace(pr))
        okf = fl is not None and any(x[0] == "param:previous_state" and "attr:state_fluents" in x for x in p.trace(fl))
        oki = ii is None or _is_const(p, ii, False)
        if okp and okf and oki:
            r.ok({"handler_successor": "State(pre-state facts, pre-state fluents, is_init=False)"})
        else:
            r.fail(Finding("C04.except", f, "handler-state", "after a refused action the successor is not rebuilt from the pre-state's facts and fluents", node=handler_state))
    # triplet wiring
    trip = [c for c in L.calls_in(f.node) if callee_name(c) == "TrajectoryTriplet"]
    # on the path through the handler the successor that the triplet names is bound: by the handler itself or before the `try` (the
    # assignment whose right-hand side raised did not happen)
    g = C.cfg_of(f.node)
    ti_ = repo.find_method("TrajectoryTriplet", "__init__")
    for t in tries:
        if not any(a is x for s_ in t.body for x in ast.walk(s_)):
            continue
        for h in t.handlers:
            hn = g.node_of(h)
            if hn is None:
                continue
            for c in trip:
                succ = L.arg_of(c, ti_, "next_state")
                tn = g.node_containing(c)
                if succ is None or tn is None:
                    continue
                for nm in sorted({x.id for x in ast.walk(succ) if isinstance(x, ast.Name) and isinstance(x.ctx, ast.Load)}):
                    defs = {n for n in g.nodes() if g.stmt[n] is not None and nm in C.defs_of(g.stmt[n])}
                    if not defs or nm in f.params:
                        continue            # not a local of this function
                    if tn in C.reachable_from(g, hn, avoid=defs) and not p.rd.defs_reaching(hn, nm):
                        r.site(L.site(f, h, "successor after a refusal"))
                        r.fail(Finding("C04.except", f, "handler-successor-unbound", "after a refused action the handler leaves the successor unbound: building the triplet "
                                       "raises UnboundLocalError, an invalid step aborts the export instead of leaving the state unchanged", node=h))
    r.site(f.qn + " [triplet]")
    okt = False
    for c in trip:
        ti = repo.find_method("TrajectoryTriplet", "__init__")
        a0, a1, a2 = L.arg_of(c, ti, "previous_state"), L.arg_of(c, ti, "op"), L.arg_of(c, ti, "next_state")
        t0 = p.trace(a0) if a0 is not None else set()
        t1 = p.trace(a1) if a1 is not None else set()
        t2 = p.trace(a2) if a2 is not None else set()
        c0 = bool(t0) and all(x == ("param:previous_state",) for x in t0)
        c1 = any(x[0] == "fresh:Operator" for x in t1)
        c2 = any("call:apply" in x for x in t2) and not any(x == ("param:previous_state",) for x in t2)
        okt = okt or (c0 and c1 and c2)
    if okt:
        r.ok({"triplet": "(pre-state parameter, operator, result of apply | handler state)"})
    else:
        r.fail(Finding("C04.except", f, "triplet-wiring", "the returned triplet is not (pre-state parameter, the operator, the successor)"))
    r.require_sites(4)
    return r


def rule_flag(repo: Repo) -> RuleResult:
    r = RuleResult("C04.flag", "the allow flag passed to apply is the exporter's constructor flag, default False",
                   "inapplicable actions are executed only when the caller explicitly allowed them")
    f = L.fn(repo, "TrajectoryExporter.create_single_triplet")
    p = L.prov(repo, f)
    ap = repo.func("Operator.apply")
    for c in L.calls_in(f.node):
        if callee_name(c) == "apply" and isinstance(c.func, ast.Attribute):
            r.site(L.site(f, c, "allow flag"))
            a = L.arg_of(c, ap, "allow_inapplicable_actions")
            sk = L.arg_of(c, ap, "skip_validation")
            if sk is not None and not (isinstance(sk, ast.Constant) and sk.value is False):
                r.fail(Finding("C04.flag", f, "skip-validation", f"the exporter passes skip_validation={unparse(sk)}", node=c))
                continue
            if a is None:
                r.ok({"allow": "default False"})
                continue
            tr = p.trace(a)
            if all(x == ("self", "attr:allow_invalid_actions") for x in tr) and tr:
                r.ok({"allow": "self.allow_invalid_actions"})
            elif isinstance(a, ast.Constant) and a.value is False:
                r.ok({"allow": False})
            else:
                r.fail(Finding("C04.flag", f, "allow-source", f"allow_inapplicable_actions is {unparse(a)}", node=c))
    init = repo.func("TrajectoryExporter.__init__")
    r.site(init.qn)
    d = init.defaults.get("allow_invalid_actions")
    src = F.ctor_param_of_field(repo, "TrajectoryExporter").get("allow_invalid_actions", set())
    if isinstance(d, ast.Constant) and d.value is False and src == {"allow_invalid_actions"}:
        r.ok({"constructor_default": False})
    else:
        r.fail(Finding("C04.flag", init, "ctor-default", "TrajectoryExporter(allow_invalid_actions=...) does not default to False or is not stored unchanged"))
    r.require_sites(2)
    return r


def rule_call(repo: Repo) -> RuleResult:
    r = RuleResult("C04.call", "parse_action_call: lower-case, pad parentheses, split; name = first token inside the parentheses, parameters = the rest",
                   "each plan line denotes one action call with its arguments in order")
    f = L.fn(repo, "exporters.numeric_trajectory_exporter::parse_action_call")
    p = L.prov(repo, f)
    r.site(f.qn)
    ctor = [c for c in L.calls_in(f.node) if callee_name(c) == "ActionCall"]
    if not ctor:
        raise AnalysisError("parse_action_call: ActionCall construction not found")
    init = repo.find_method("ActionCall", "__init__")
    nm, ps = L.arg_of(ctor[0], init, "name"), L.arg_of(ctor[0], init, "grounded_parameters")
    tn, tp = p.trace(nm), p.trace(ps)
    lowered = all("call:lower" in x for x in tn | tp if x[0].startswith("param:"))
    split = all("call:split" in x for x in tn | tp if x[0].startswith("param:"))
    name_first = any(x[-1] == "item:0" for x in tn)
    rest = any(x[-1] == "slice:1:" for x in tp)
    inner = any("slice:1:-1" in x for x in tn) and any("slice:1:-1" in x for x in tp)
    if lowered and split and name_first and rest and inner:
        r.ok({"name": "tokens[1:-1][0]", "parameters": "tokens[1:-1][1:]", "lowered": True})
    else:
        r.fail(Finding("C04.call", f, "call-parsing", f"action call parsing: lowered={lowered} split={split} name_first={name_first} rest={rest} inner={inner}"))
    r.require_sites(1)
    return r


# --- 'every post-state is the successor of its pre-state under that step's action': completeness of the effect walk ------------------

APPLY = "Operator.apply"
GROUNDED_FLAG = "grounded"      # reason: public attribute of Operator ("grounded: bool") that says whether the grounded_* fields are filled in;
                                # used only when the flag cannot be read off the grounding method (the attribute it sets to True)


def _effect_applications(repo: Repo, f: FuncInfo) -> List[ast.Call]:
    """calls X.apply(...) that resolve to GroundedEffect.apply"""
    out = []
    for c in L.calls_in(f.node):
        if isinstance(c.func, ast.Attribute) and c.func.attr == "apply":
            _cat, tg = repo.resolve_call(f, c)
            if any(t is not None and t.cls == "GroundedEffect" for _k, t, _c in tg):
                out.append(c)
    return out


def _application_kind(p, a: ast.Call) -> str:
    """'universal' when the applied effect object is built inside apply (the forall pass), else 'group' (a stored grounded effect)"""
    return "universal" if any(x[0].startswith("fresh:") for x in p.trace(a.func.value)) else "group"


def rule_everyeffect(repo: Repo, rid: str = "C04.step.everyeffect") -> RuleResult:
    """the successor is the result of ALL effects of the action whose antecedents hold: no turn of a loop that leads to an effect
    application may end the walk (an effect whose antecedent is false is skipped, the ones after it are still applied)"""
    r = RuleResult(rid, "Operator.apply visits every effect group / object / universal effect: no turn of the walk ends it early",
                   "every post-state is the successor of its pre-state under that step's action")
    f = L.fn(repo, APPLY)
    p = L.prov(repo, f)
    G = L.Guards(f, _apply_matcher_for(p))
    pm = L.parents_of(f)
    applies = _effect_applications(repo, f)
    if not applies:
        raise AnalysisError(f"{APPLY}: no call of GroundedEffect.apply found")
    done = set()
    for a in applies:
        kind = _application_kind(p, a)
        loops, cur = [], a
        while cur in pm:
            cur = pm[cur]
            if isinstance(cur, (ast.For, ast.While)):
                loops.append(cur)
        if not loops:
            r.site(L.site(f, a, f"{kind} effect application (no statement loop)"))
            r.ok({"application": kind, "walk": "not a statement loop"})
            continue
        for lp in loops:
            if id(lp) in done:
                continue
            done.add(id(lp))
            r.site(L.site(f, lp, f"walk leading to a {kind} effect application"))
            if L.leaves_loop_early(G, {}, lp):
                r.fail(Finding(rid, f, f"effect-walk-left-early:{kind}", f"one turn of the loop over {unparse(lp.iter, 40) if isinstance(lp, ast.For) else 'the effects'} can end the "
                               f"walk (break / return): the remaining effects are not applied, the post-state is not the successor", node=lp))
            else:
                r.ok({"application": kind, "walk": "never left early"})
    r.require_sites(2)
    return r


def _grounding_facts(repo: Repo, cls: str, fields: Set[str], depth: int = 3):
    """which methods of the class fill in the given fields on every normal path (-> set of method names), and the boolean attributes
    such a method sets to True (-> the 'is grounded' flags)"""
    memo, flags = {}, set()
    use_flags = []

    def fills(st: ast.AST, self_name: str) -> bool:
        if isinstance(st, (ast.Assign, ast.AnnAssign)) and st.value is not None:
            tg = st.targets if isinstance(st, ast.Assign) else [st.target]
            if any(isinstance(t, ast.Attribute) and isinstance(t.value, ast.Name) and t.value.id == self_name and t.attr in fields for t in tg):
                v = st.value
                empty = (isinstance(v, (ast.List, ast.Set, ast.Tuple)) and not v.elts) or (isinstance(v, ast.Dict) and not v.keys) or \
                    (isinstance(v, ast.Call) and isinstance(v.func, ast.Name) and v.func.id in ("set", "list", "dict", "tuple", "frozenset") and not v.args and not v.keywords) or \
                    (isinstance(v, ast.Constant) and v.value is None)
                return not empty
        return False

    def establishes(name: str, d: int) -> bool:
        if name in memo:
            return memo[name]
        memo[name] = False
        m = repo.func_opt(f"{cls}.{name}")
        if m is None or d < 0:
            return False
        try:
            fm = L.fn(repo, f"{cls}.{name}")
        except Exception:
            return False
        g = C.cfg_of(fm.node)
        est = set()
        for n in g.nodes():
            st = g.stmt[n]
            if st is None:
                continue
            if fills(st, fm.self_name or "self"):
                est.add(n)
                continue
            h = C.header(st)
            for c in L.calls_in(h) if h is not None else ():
                if isinstance(c.func, ast.Attribute) and isinstance(c.func.value, ast.Name) and c.func.value.id == fm.self_name and c.func.attr != name \
                        and establishes(c.func.attr, d - 1) and g.kind[n] == "stmt":
                    est.add(n)
        if not est:
            return False
        if use_flags and flags:
            # second pass: a method that grounds only `if not self.<flag>` does fill the fields in whenever the operator is not grounded yet
            def flag_atom(e, _self=fm.self_name):
                return "grounded" if isinstance(e, ast.Attribute) and isinstance(e.value, ast.Name) and e.value.id == _self and e.attr in flags else None
            seen = L.Guards(fm, flag_atom).reach({"grounded": False}, avoid=est)
        else:
            seen = C.reachable_from(g, g.entry, avoid=est)
        ok = g.exit not in seen and not any(g.kind[n] == "return" for n in seen)
        memo[name] = ok
        if ok:
            for st in ast.walk(fm.node):
                if isinstance(st, ast.Assign) and isinstance(st.value, ast.Constant) and st.value.value is True:
                    flags.update(t.attr for t in st.targets if isinstance(t, ast.Attribute) and isinstance(t.value, ast.Name) and t.value.id == fm.self_name)
        return ok

    def second_pass():
        use_flags.append(True)
        for k in [k for k, v in memo.items() if not v]:
            del memo[k]

    return establishes, flags, second_pass


def rule_grounded(repo: Repo, rid: str = "C04.step.grounded") -> RuleResult:
    """the effect groups that apply walks over are a field that only the grounding step fills in (the constructor leaves it empty): on every
    path on which the operator is not known to be grounded, the walk must come after a grounding call -- also when validation is skipped"""
    r = RuleResult(rid, "Operator.apply grounds the operator before it walks over the grounded effects, on every path (also with skip_validation)",
                   "every post-state is the successor of its pre-state under that step's action")
    f = L.fn(repo, APPLY)
    p = L.prov(repo, f)
    group = [a for a in _effect_applications(repo, f) if _application_kind(p, a) == "group"]
    if not group:
        raise AnalysisError(f"{APPLY}: no application of a stored grounded effect found")
    fields = {x[1][len("attr:"):] for a in group for x in p.trace(a.func.value) if len(x) >= 2 and x[0] == "self" and x[1].startswith("attr:")}
    r.site(f.qn + " [grounded before the effect walk]")
    if not fields:
        r.ok({"effects": "not read from a field of the operator"})
        return r
    establishes, flags, second_pass = _grounding_facts(repo, f.cls, fields)
    if establishes("__init__", 2):
        r.ok({"effects": "filled in by the constructor"})
        return r
    names = {c.func.attr for c in L.calls_in(f.node) if isinstance(c.func, ast.Attribute) and isinstance(c.func.value, ast.Name) and c.func.value.id == f.self_name}
    grounding = {n for n in names if establishes(n, 3)}
    second_pass()
    grounding |= {n for n in names if establishes(n, 3)}
    flag_names = flags or {GROUNDED_FLAG}
    base = _apply_matcher_for(p)

    def matcher(e):
        if isinstance(e, ast.Attribute) and isinstance(e.value, ast.Name) and e.value.id == f.self_name and e.attr in flag_names and isinstance(e.ctx, ast.Load):
            return "grounded"
        return base(e)

    G = L.Guards(f, matcher)
    g = G.g

    def fills_here(st) -> bool:
        tg = st.targets if isinstance(st, ast.Assign) else [st.target] if isinstance(st, ast.AnnAssign) and st.value is not None else []
        return any(isinstance(t, ast.Attribute) and isinstance(t.value, ast.Name) and t.value.id == f.self_name and t.attr in fields for t in tg)

    reads = {g.node_containing(n) for n in ast.walk(f.node) if isinstance(n, ast.Attribute) and isinstance(n.ctx, ast.Load) and isinstance(n.value, ast.Name)
             and n.value.id == f.self_name and n.attr in fields}
    reads.discard(None)
    if not reads:
        raise AnalysisError(f"{APPLY}: the read of {sorted(fields)} is not found")
    bad = []
    atoms = [a for a in ("skip", "applicable", "allow") if a in G.atoms_seen]
    for combo in itertools.product([False, True], repeat=len(atoms)):
        val = dict(zip(atoms, combo))
        val["grounded"] = False
        seen0 = G.reach(val)
        est = {g.node_containing(c) for c in L.calls_in(f.node) if isinstance(c.func, ast.Attribute) and isinstance(c.func.value, ast.Name)
               and c.func.value.id == f.self_name and c.func.attr in grounding and G.reaches_expr(val, c, seen=seen0)}
        est |= {n for n in g.nodes() if g.stmt[n] is not None and isinstance(g.stmt[n], (ast.Assign, ast.AnnAssign)) and fills_here(g.stmt[n])}
        est.discard(None)
        seen = G.reach(val, avoid=est)
        if reads & seen:
            bad.append({k: v for k, v in val.items() if k != "grounded"})
    if bad:
        r.fail(Finding(rid, f, "effect-walk-before-grounding", f"for an operator that is not grounded yet the walk over {sorted(fields)} is reached without a grounding call "
                       f"(for {bad[:2]}): the constructor leaves that field empty, so no effect is applied and the post-state equals the pre-state"))
    else:
        r.ok({"grounding_calls": sorted(grounding), "flag": sorted(flag_names), "fields": sorted(fields)})
    return r


def rules(repo: Repo, tier: str) -> List[RuleResult]:
    from . import c03, c14
    return [rule_thread(repo, "C04.thread", "TrajectoryExporter.parse_plan", "create_single_triplet"),
            rule_refuse(repo), rule_except(repo), rule_flag(repo), rule_call(repo),
            # 'every post-state is the successor of its pre-state under that step's action': the transition clauses of C03
            c03.rule_antecedent(repo).as_rule("C04.step.antecedent"), c03.rule_copy(repo).as_rule("C04.step.copy"),
            c03.rule_universal(repo).as_rule("C04.step.universal"), c03.rule_prestate_rhs(repo).as_rule("C04.step.prestate_rhs"),
            # the recorded states stay what they were: the successor is built on a copy that shares no container with the pre-state
            # (an aliased container is rewritten by the NEXT step, retroactively changing the triplets already produced)
            c14.rule_copy(repo, "C04.copyfresh"),
            # ... and of ALL its effects: the walk over the effects is complete and happens on a grounded operator
            rule_everyeffect(repo), rule_grounded(repo)]
