"""C02 -- an action is reported applicable exactly when its precondition is true."""
from __future__ import annotations

import ast
import itertools
from typing import Dict, List, Optional, Set, Tuple

from .. import absval as A
from .. import cfg as C
from .. import lib as L
from ..core import AnalysisError, FuncInfo, Repo, parent_map, unparse
from ..prov import callee_name
from ..report import Finding, RuleResult
from . import c06, c12

GP = "models.grounded_precondition"

EXPLANATION = (
    "C02.tables: truth tables of BinaryOperator['and'/'or'] and (via C12.compare) of the comparison table. C02.translate: the "
    "isinstance dispatches that translate lifted operands into grounded ones (_ground, _ground_universal_condition) are checked arm by "
    "arm: for each operand class of the data model (Predicate, NumericalExpressionTree, Precondition, UniversalPrecondition) the first "
    "matching arm must attach its result to the output condition (add_condition on the output) or raise. C02.literal: abstract "
    "evaluation of the literal evaluator over (is_positive, fact in state): the value fed to the fold is member for positive and "
    "not member for negative literals, the membership test reads the state parameter, the negative branch tests the positive text. "
    "C02.foldid: a fold acc = TABLE[op](acc, x) whose operator is chosen at run time must start from a value that depends on the "
    "operator (identity of and / or). C02.foldarms: every evaluator arm folds its result into the accumulator with the current "
    "node's operator. C02.equality: equalities are compared with ==, inequalities with !=, all of them, conjoined. C02.range: the "
    "quantifier range is a subtype test. C02.passthrough: Operator.is_applicable grounds first and returns the grounded "
    "precondition's answer for (state, problem objects) un-negated. C02.keyerror: an evaluation failure yields False; at every place where "
    "a numeric condition is evaluated the tree that is loaded from the state and the tree that is evaluated is the operand's own root. "
    "Completeness clauses (mutation campaign): C02.translate also demands that no class of the supported fragment is refused "
    "(arm-rejects), that no operand class ends the loop over the operands (walk-stops) and that every class test has the operand as "
    "its first argument (dispatch-test; also C02.foldarms for the evaluator); C02.equality judges EVERY pair built from an "
    "(in)equality set (root and nested conditions); C02.groundall: the parameter map the quantified evaluation reads from the object "
    "is stored when a quantified operand is met (or always), and a nested and / or re-enters the translation with the operand, a fresh "
    "Precondition carrying the operand's operator and the map of the call. C02.branch (= C12.branch): a comparison root takes the "
    "comparing branch of evaluate_expression."
)
UNDECIDED = ("truth of arbitrary formulas in arbitrary states (the fold over run-time operand sets); collisions of the substring-based "
             "membership test on the serialised state; numeric evaluation beyond C12")

MODEL_CLASSES = ["Predicate", "NumericalExpressionTree", "Precondition", "UniversalPrecondition"]


def rule_tables(repo: Repo) -> RuleResult:
    r = RuleResult("C02.tables", "BinaryOperator['and'] is conjunction, ['or'] is disjunction", "and / or compositionally")
    tab = L.table(repo, GP, "BinaryOperator")
    m = repo.module(GP)
    want = {"and": lambda a, b: a and b, "or": lambda a, b: a or b}
    for k, fn in want.items():
        r.site(f"{GP}.BinaryOperator[{k!r}]")
        if k not in tab:
            r.fail(Finding("C02.tables", (m.short, "BinaryOperator", str(m.path)), f"table-key:{k}", f"{k!r} missing from BinaryOperator"))
            continue
        try:
            t = A.bool_table(c12.as_lambda(repo, m, tab[k]) or tab[k])      # named one-expression functions / factories are written out
        except A.Uninterpretable as e:
            raise AnalysisError(f"C02.tables: {e}")
        exp = {(a, b): fn(a, b) for a in (False, True) for b in (False, True)}
        if t == exp:
            r.ok({"key": k, "table": {f"{a},{b}": v for (a, b), v in t.items()}})
        else:
            r.fail(Finding("C02.tables", (m.short, "BinaryOperator", str(m.path)), f"table-value:{k}", f"BinaryOperator[{k!r}] has truth table {t}", node=tab[k]))
    r.require_sites(2)
    return r


# --------------------------------------------------------------------------- syntactic isinstance arms (used by C08)
class Arm:
    def __init__(self, classes: List[str], body: List[ast.stmt], test: Optional[ast.AST], node: Optional[ast.AST]):
        self.classes = classes
        self.body = body
        self.test = test
        self.node = node


def isinstance_arms(loop_body: List[ast.stmt], var: str) -> Tuple[List[Arm], Optional[Arm]]:
    """the if/elif chain(s) in a loop body that test isinstance(<var>, C); returns (arms in order, else-arm or None)"""
    arms: List[Arm] = []
    else_arm: Optional[Arm] = None

    def classes_of(test):
        if isinstance(test, ast.Call) and isinstance(test.func, ast.Name) and test.func.id == "isinstance" and len(test.args) == 2 \
                and isinstance(test.args[0], ast.Name) and test.args[0].id == var:
            c = test.args[1]
            return [c.id] if isinstance(c, ast.Name) else [x.id for x in getattr(c, "elts", []) if isinstance(x, ast.Name)]
        return None

    def walk_chain(ifnode: ast.If):
        nonlocal else_arm
        cs = classes_of(ifnode.test)
        if cs is None:
            return False
        arms.append(Arm(cs, ifnode.body, ifnode.test, ifnode))
        if len(ifnode.orelse) == 1 and isinstance(ifnode.orelse[0], ast.If) and classes_of(ifnode.orelse[0].test) is not None:
            walk_chain(ifnode.orelse[0])
        elif ifnode.orelse:
            else_arm = Arm([], ifnode.orelse, None, ifnode.orelse[0])
        return True

    for s in loop_body:
        if isinstance(s, ast.If):
            walk_chain(s)
    return arms, else_arm


def first_matching_arm(repo: Repo, arms: List[Arm], cls: str) -> Optional[Arm]:
    mro = repo.mro(cls)
    for a in arms:
        if any(c in mro for c in a.classes):
            return a
    return None


def shadowed(repo: Repo, arms: List[Arm], arm: Arm) -> bool:
    """an arm is dead when every class it names is a subclass of a class named by an earlier arm"""
    idx = arms.index(arm)
    for c in arm.classes:
        if not any(any(e in repo.mro(c) for e in prev.classes) for prev in arms[:idx]):
            return False
    return True



# --------------------------------------------------------------------------- anchors and class valuations
EVAL = "GroundedPrecondition.is_applicable"            # the evaluator with its private helpers in place
GROUND = "GroundedPrecondition.ground_preconditions"   # the translation lifted -> grounded condition
EVAL_CLASSES = ["GroundedPredicate", "NumericalExpressionTree", "Precondition", "UniversalPrecondition"]


def _operand_loops(f: FuncInfo, p) -> List[ast.For]:
    return [n for n in ast.walk(f.node) if isinstance(n, ast.For) and any(x and x[-1] == "attr:operands" for x in p.trace(n.iter))]


def _classes_of(repo: Repo, f: FuncInfo, e: ast.AST) -> Optional[List[str]]:
    """class names of the second argument of isinstance (a name, a tuple, or a module constant holding a tuple)"""
    if isinstance(e, ast.Name):
        if e.id in repo.classes:
            return [e.id]
        node = repo.const_node(f.mod.name, e.id)
        if node is not None and isinstance(node, (ast.Tuple, ast.List)):
            return [x.id for x in node.elts if isinstance(x, ast.Name)]
        return [e.id]
    if isinstance(e, ast.Attribute):
        return [e.attr]
    if isinstance(e, (ast.Tuple, ast.List)):
        out = []
        for x in e.elts:
            out += _classes_of(repo, f, x) or []
        return out
    return None


class ClassDispatch:
    """isinstance tests on the element of one loop, decided together for a given class of the element (class valuation):
    whatever shape the dispatch has (if/elif chain, separate ifs, a helper function, a tuple-of-types pre-test), the statements
    executed for an element of class K are the nodes reachable when every test isinstance(elem, C) has the value `C in mro(K)`."""

    def __init__(self, repo: Repo, f: FuncInfo, p, loop: ast.For):
        self.repo, self.f, self.p, self.loop = repo, f, p, loop
        elem = {x + ("elem",) for x in p.trace(loop.iter)}
        self.tests: Dict[int, List[str]] = {}
        self.malformed: List[ast.Call] = []      # isinstance(<class>, <operand>): the operand stands where the class belongs
        for n in ast.walk(loop):
            if isinstance(n, ast.Call) and isinstance(n.func, ast.Name) and n.func.id == "isinstance" and len(n.args) == 2:
                try:
                    tr = p.trace(n.args[0])
                except KeyError:
                    continue
                tr1 = _safe_trace(p, n.args[1])
                if tr1 and tr1 <= elem and not (tr and tr <= elem):
                    self.malformed.append(n)
                    continue
                if tr and tr <= elem:
                    cs = _classes_of(repo, f, n.args[1])
                    if cs:
                        self.tests[id(n)] = cs
        self.G = L.Guards(f, lambda e: f"isa{id(e)}" if id(e) in self.tests else None)
        self.g = self.G.g
        self.inside = {self.g.node_containing(x) if not isinstance(x, ast.stmt) else self.g.node_of(x) for x in ast.walk(loop) if isinstance(x, ast.stmt)}
        self.inside.discard(None)

    def valuation(self, cls: str) -> Dict[str, bool]:
        mro = self.repo.mro(cls)
        return {f"isa{i}": any(c in mro for c in cs) for i, cs in self.tests.items()}

    def reach(self, cls: str) -> Set[int]:
        """nodes of the loop body executed for an element of class `cls`"""
        return self.G.reach(self.valuation(cls)) & self.inside

    def under(self, cls: str, extra: Optional[Dict[str, bool]] = None):
        v = self.valuation(cls)
        v.update(extra or {})
        return self.G.under(v)

    def matches_any(self, cls: str) -> bool:
        return any(self.valuation(cls).values())


def _inner_loops(loop: ast.For) -> List[ast.For]:
    return [n for n in ast.walk(loop) if isinstance(n, ast.For) and n is not loop]


def _dispatch_wellformed(r: RuleResult, rid: str, f: FuncInfo, D: "ClassDispatch", tag: str = "", latent: bool = False) -> None:
    """a dispatch on the class of the operand asks `isinstance(<operand>, <class>)`: with the operand in the place of the class the test
    raises TypeError for every operand that gets as far as this test (all classes that are not accepted by an earlier arm)"""
    if D.malformed:
        c = D.malformed[0]
        r.fail(Finding(rid, f, f"{tag}dispatch-test:operand-as-class", f"the class test {unparse(c, 70)} has the operand where the class belongs: it raises "
                       f"TypeError for every operand that reaches it", node=c, latent=latent))
    else:
        r.ok({"function": f.qn, "class_tests": len(D.tests), "operand_is_first_argument": True})


def rule_translate(repo: Repo, rid: str = "C02.translate") -> RuleResult:
    r = RuleResult(rid, "each operand class of the data model is translated into the grounded condition (attached with add_condition) or is rejected",
                   "literals, numeric conditions, nested and quantified conditions all take part in the instantiated precondition")
    for spec, tag in ((GROUND, ""), (EVAL, "forall-")):
        f = L.fn(repo, spec)
        p = L.prov(repo, f)
        g = C.cfg_of(f.node)
        loops = [lp for lp in _operand_loops(f, p) if any(callee_name(c) == "add_condition" for c in L.calls_in(lp))]
        # the innermost translation loops only
        loops = [lp for lp in loops if not any(x in loops for x in _inner_loops(lp))]
        if len(loops) != 1:
            raise AnalysisError(f"{spec}: the loop that translates the lifted operands (add_condition inside a loop over .operands) was not found "
                                f"({len(loops)} candidates)")
        loop = loops[0]
        D = ClassDispatch(repo, f, p, loop)
        if not D.tests:
            raise AnalysisError(f"{spec}: isinstance dispatch on the operand not recognised")
        elem = {x + ("elem",) for x in p.trace(loop.iter)}
        latent = False
        if tag:
            # is the forall translation reachable at all from the evaluator's own dispatch?
            outer = [lp for lp in _operand_loops(f, p) if any(x is loop for x in ast.walk(lp)) and lp is not loop]
            if outer:
                OD = ClassDispatch(repo, f, p, outer[0])
                head = g.node_of(loop)
                latent = not any(head in OD.G.reach(OD.valuation(k)) for k in EVAL_CLASSES)
        for cls in MODEL_CLASSES:
            r.site(f"{f.qn} [{tag}{cls}]")
            seen = D.reach(cls)
            attach = reject = False
            for n in seen:
                st = g.stmt[n]
                if g.kind[n] == "raise":
                    reject = True
                hdr = C.header(st) if st is not None else None
                if hdr is None:
                    continue
                for c in L.calls_in(hdr):
                    if callee_name(c) == "add_condition" and isinstance(c.func, ast.Attribute) and c.args:
                        recv, arg = p.trace(c.func.value), p.trace(c.args[0])
                        to_out = bool(recv) and not any(x[:len(e)] == e for x in recv for e in elem)
                        from_operand = any(any(x[:len(e)] == e for e in elem) for x in arg)
                        if to_out and from_operand:
                            attach = True
            sample = {"function": f.qn, "class": cls, "attached": attach, "rejected": reject}
            if attach:
                r.ok(sample)
            elif reject:
                # every class of MODEL_CLASSES is part of the supported fragment: an operand of that class must take part in the
                # instantiated precondition, refusing it makes every action that contains one unusable
                r.fail(Finding(rid, f, f"{tag}arm-rejects:{cls}", f"an operand of class {cls} (a condition of the supported fragment) is never attached to the "
                               f"grounded condition: the dispatch raises for it", node=loop, latent=latent), sample)
            elif D.matches_any(cls):
                r.fail(Finding(rid, f, f"{tag}arm:{cls}", f"an operand of class {cls} is handled by the dispatch but no translated condition is attached to the "
                               f"grounded condition (no add_condition on the output) and nothing is raised: the condition is ignored", node=loop, latent=latent), sample)
            else:
                r.fail(Finding(rid, f, f"{tag}arm:else:{cls}", f"an operand of class {cls} matches no arm and there is no rejecting else: it is silently left out "
                               f"of the grounded condition", node=loop, latent=latent), sample)
        # completeness of the walk: whatever the class of an operand, handling it cannot end the translation of the remaining operands
        r.site(f"{f.qn} [{tag}every operand is visited]")
        stops = [cls for cls in MODEL_CLASSES if L.leaves_loop_early(D.G, D.valuation(cls), loop)]
        if stops:
            r.fail(Finding(rid, f, f"{tag}walk-stops:{stops[0]}", f"after an operand of class {', '.join(stops)} the loop over the operands is left (break / return): the "
                           f"operands that follow it are missing from the grounded condition", node=loop, latent=latent))
        else:
            r.ok({"function": f.qn, "walk": "no operand class ends the loop over the operands"})
        _dispatch_wellformed(r, rid, f, D, tag, latent)
    r.require_sites(10)
    return r


# --------------------------------------------------------------------------- the evaluator's folds
class Fold:
    def __init__(self, stmt: ast.Assign, acc: str, call: ast.Call):
        self.stmt, self.acc, self.call = stmt, acc, call


def _is_table_call(p, call: ast.Call) -> bool:
    """BinaryOperator[k](a, b), also through a local alias `combine = BinaryOperator[k]`"""
    try:
        tr = p.trace(call.func)
    except KeyError:
        return False
    return bool(tr) and all(x[0] == "global:BinaryOperator" and x[1:] in (("item",), ("call:get",), ("call:__getitem__",)) for x in tr if "askey" not in x)


def _table_key(p, call: ast.Call):
    """provenance of the key the operator table is indexed with"""
    return {x[:-1] for x in p.trace(call.func, keys=True) if x and x[-1] == "askey"} | \
           {x[:-2] for x in p.trace(call.func, keys=True) if len(x) > 1 and x[-2].startswith("arg0:")}


def _evaluation_loops(repo: Repo, f: FuncInfo, p):
    """[(loop, accumulator name, [folds], context)]: loops over .operands that fold into an accumulator"""
    pm = L.parents_of(f)
    ops = _operand_loops(f, p)
    out = []
    g = C.cfg_of(f.node)

    def resolve_all(e, depth=0):
        """the defining expressions of a local name (followed through copies and results of helpers analysed in place)"""
        if isinstance(e, ast.Name) and depth < 8:
            try:
                at = p.node_of(e)
            except KeyError:
                return [e]
            defs = [d for d in p.rd.defs_reaching(at, e.id) if d != g.entry]
            out = []
            for d in defs:
                st = g.stmt[d]
                if isinstance(st, (ast.Assign, ast.AnnAssign)) and st.value is not None and \
                        (isinstance(st, ast.AnnAssign) or (len(st.targets) == 1 and isinstance(st.targets[0], ast.Name))):
                    out += resolve_all(st.value, depth + 1)
                else:
                    out.append(e)
            return out or [e]
        return [e]

    def resolve(e):
        """the table call among the definitions (a sentinel / default among them is filtered by a test the fold does not depend on)"""
        cands = [c for c in resolve_all(e) if isinstance(c, ast.Call) and len(c.args) == 2 and _is_table_call(p, c)]
        return cands or [e]

    for lp in ops:
        folds = []
        for n in ast.walk(lp):
            if isinstance(n, ast.Assign) and len(n.targets) == 1 and isinstance(n.targets[0], ast.Name):
                calls = [c for c in resolve(n.value) if isinstance(c, ast.Call) and len(c.args) == 2 and _is_table_call(p, c)]
                if not calls:
                    continue
                # nearest enclosing operand loop must be lp
                cur, near = n, None
                while cur in pm:
                    cur = pm[cur]
                    if cur in ops:
                        near = cur
                        break
                if near is not lp:
                    continue
                acc_name = n.targets[0].id
                for call in calls:
                    if _resolves_to(p, g, call.args[0], acc_name):
                        folds.append(Fold(n, acc_name, call))
        if folds:
            accs = {x.acc for x in folds}
            if len(accs) != 1:
                raise AnalysisError(f"{f.qn}: several accumulators {sorted(accs)} in one evaluation loop")
            ctx = "forall" if any(isinstance(x, ast.For) and any("problem_objects" in s_ for t in p.trace(x.iter) for s_ in t) for x in _anc(pm, lp)) else "compound"
            out.append((lp, accs.pop(), folds, ctx))
    return out


def _anc(pm, n):
    cur = n
    while cur in pm:
        cur = pm[cur]
        yield cur


def _evaluator(repo: Repo):
    f = L.fn(repo, EVAL)
    p = L.prov(repo, f)
    loops = _evaluation_loops(repo, f, p)
    if not any(ctx == "compound" for _l, _a, _f, ctx in loops):
        raise AnalysisError(f"{EVAL}: accumulator fold over the operands (acc = BinaryOperator[op](acc, value)) not recognised")
    return f, p, loops


def rule_literal(repo: Repo) -> RuleResult:
    r = RuleResult("C02.literal", "a positive literal holds iff its ground text is in the state, a negative one iff the positive text is not",
                   "positive and negative literals by (non-)membership")
    f, p, loops = _evaluator(repo)
    g = C.cfg_of(f.node)
    if "state" not in f.params:
        raise AnalysisError(f"{EVAL}: parameter 'state' not found")
    members: Dict[int, Tuple[str, ast.AST]] = {}

    def lit_matcher(e):
        if isinstance(e, ast.Attribute) and e.attr == "is_positive" and isinstance(e.ctx, ast.Load):
            return "pos"
        if isinstance(e, ast.Compare) and len(e.ops) == 1 and isinstance(e.ops[0], (ast.In, ast.NotIn)):
            try:
                rhs = p.trace(e.comparators[0])
            except KeyError:
                return None
            if any(x[0] == "param:state" for x in rhs):
                members[id(e)] = ("in" if isinstance(e.ops[0], ast.In) else "not in", e)
                return "member" if isinstance(e.ops[0], ast.In) else "!member"
        return None

    done = False
    for loop, acc, folds, ctx in loops:
        if ctx != "compound":
            continue
        D = ClassDispatch(repo, f, p, loop)
        both = lambda e, D=D: (f"isa{id(e)}" if id(e) in D.tests else lit_matcher(e))
        G = L.Guards(f, both)
        cv = D.valuation("GroundedPredicate")
        # the literal's value: second argument of the innermost table call executed for a GroundedPredicate operand
        seen0 = G.reach(cv)
        cands = [c for c in L.calls_in(loop) if len(c.args) == 2 and _is_table_call(p, c) and g.node_containing(c) in seen0]
        inner = []
        for c in cands:
            v = G.value(cv, c.args[1], seen0)
            if not (isinstance(v, ast.Call) and _is_table_call(p, v)):
                inner.append(c)
        if len(inner) != 1:
            raise AnalysisError(f"{EVAL}: the fold of a literal's truth value was not recognised ({len(inner)} candidates)")
        call = inner[0]
        lit = call.args[1]
        r.site(f.qn + " [truth value]")
        table, bad = {}, []
        for pos, mem in itertools.product([False, True], repeat=2):
            val = dict(cv)
            val.update({"pos": pos, "member": mem})
            v = G.value(val, lit)
            table[f"is_positive={pos},fact_in_state={mem}"] = v if isinstance(v, bool) else None
            if v is not (mem if pos else (not mem)):
                bad.append((pos, mem, v if isinstance(v, bool) else "undecided"))
        if bad and all(v is None for v in table.values()):
            raise AnalysisError(f"{EVAL}: the truth value of a literal ({unparse(lit, 60)}) is not built from is_positive / membership tests that the analysis can read")
        if bad:
            r.fail(Finding("C02.literal", f, "literal-truth", f"literal value differs from (is_positive ? member : not member): {table}", node=lit), table)
        else:
            r.ok(table)
        # which texts are tested
        r.site(f.qn + " [tested text]")
        elem = {x + ("elem",) for x in p.trace(loop.iter)}
        okpos = okneg = False
        forced = []
        for n in ast.walk(f.node):
            if isinstance(n, ast.Assign) and any(isinstance(t, ast.Attribute) and t.attr == "is_positive" for t in n.targets) and \
                    isinstance(n.value, ast.Constant) and n.value.value is True:
                for t in n.targets:
                    forced.append(frozenset(p.trace(t.value)))
        # the text that is looked up in the state, per polarity of the literal (whatever the spelling of the test: `t in s`, `t not in s`,
        # `(t in s) is expected` with t chosen by the polarity)
        n_live = 0
        for pos in (False, True):
            val = dict(cv)
            val["pos"] = pos
            sn = G.reach(val)
            under = G.under(val, sn)
            oks = []
            for kind, e in members.values():
                if not (G.reaches_expr(val, e, seen=sn) and any(e is x for x in ast.walk(loop))):
                    continue
                n_live += 1
                left = p.trace(e.left, under=under)
                recv = {x[:-1] for x in left if x and x[-1] == "attr:untyped_representation"}
                if pos:
                    oks.append(bool(recv) and recv <= elem)
                else:
                    oks.append(bool(recv) and all("call:copy" in x for x in recv) and any(frozenset(recv) == fz for fz in forced))
            if pos:
                okpos = bool(oks) and all(oks)
            else:
                okneg = bool(oks) and all(oks)
        if not n_live:
            raise AnalysisError(f"{EVAL}: no membership test on the state is visible for a literal operand")
        if okpos and okneg:
            r.ok({"positive_branch_tests": "operand.untyped_representation", "negative_branch_tests": "text of the copy forced to is_positive=True"})
        else:
            r.fail(Finding("C02.literal", f, "literal-text", f"tested texts: positive branch ok={okpos}, negative branch tests the positive text={okneg}"))
        # the operator of the fold is the enclosing node's operator and the accumulator is the incoming one
        r.site(f.qn + " [fold]")
        key = _table_key(p, call)
        node_src = {x[:-1] for x in p.trace(loop.iter) if x[-1] == "attr:operands"}
        acc_tr = p.trace(call.args[0])
        acc_ok = bool(acc_tr) and all(any(s_.startswith("arg") or s_ in ("call:all",) or s_.startswith("const:") or True for s_ in x) for x in acc_tr)
        acc_def = _resolves_to(p, g, call.args[0], acc)
        if key and all(x[-1] == "attr:binary_operator" and x[:-1] in node_src for x in key) and acc_def:
            r.ok({"fold": "BinaryOperator[<this node>.binary_operator](<accumulator>, literal)"})
        else:
            r.fail(Finding("C02.literal", f, "literal-fold", f"fold uses operator {sorted(key)[:2]} and accumulator {unparse(call.args[0])}"))
        done = True
        break
    if not done:
        raise AnalysisError(f"{EVAL}: compound evaluation loop not found")
    r.require_sites(3)
    return r


def _resolves_to(p, g, e: ast.AST, name: str, depth: int = 0) -> bool:
    """the expression is the variable `name` or a chain of plain copies of it"""
    if not isinstance(e, ast.Name) or depth > 6:
        return False
    if e.id == name:
        return True
    try:
        at = p.node_of(e)
    except KeyError:
        return False
    defs = p.rd.defs_reaching(at, e.id)
    if not defs:
        return False
    for d in defs:
        st = g.stmt[d] if d != g.entry else None
        if not (isinstance(st, (ast.Assign, ast.AnnAssign)) and st.value is not None and _resolves_to(p, g, st.value, name, depth + 1)):
            return False
    return True


def rule_foldid(repo: Repo) -> RuleResult:
    r = RuleResult("C02.foldid", "a fold whose operator is chosen at run time from {and, or} starts from that operator's identity",
                   "or is true only if some disjunct is; an empty and is true")
    f, p, loops = _evaluator(repo)
    g = C.cfg_of(f.node)
    dead_forall = _forall_dead(repo, f, p, loops)
    for loop, acc, folds, ctx in loops:
        r.site(f"{f.qn} [{ctx}: initial value of the accumulator]")
        head = g.node_of(loop)
        keyp = _table_key(p, folds[0].call)
        dynamic = any("attr:binary_operator" in x for x in keyp)
        inits = _initial_values(p, g, loop, head, acc)
        if not inits:
            raise AnalysisError(f"{EVAL}: initialisation of the accumulator of the {ctx} evaluation loop not found")
        depends = True
        for init in inits:
            tr = p.trace(init.value)
            d = any("attr:binary_operator" in x for x in tr) or any(
                isinstance(c, ast.Compare) and any("attr:binary_operator" in x for sub in (c.left, *c.comparators) for x in _safe_trace(p, sub)) for c in ast.walk(init.value))
            # the initial value may itself be assigned under a test on the operator
            d = d or any(isinstance(a, ast.If) and any("attr:binary_operator" in x for sub in ast.walk(a.test) if isinstance(sub, ast.Attribute) for x in _safe_trace(p, sub))
                         for a in _anc(L.parents_of(f), init))
            depends = depends and d
        if not dynamic:
            r.ok({"context": ctx, "operator": "fixed"})
        elif depends:
            r.ok({"context": ctx, "initial_value": unparse(inits[0].value), "depends_on_operator": True})
        else:
            r.fail(Finding("C02.foldid", f, f"fold-init:or:{ctx}", f"the accumulator of the {ctx} evaluation starts from {unparse(inits[0].value, 60)} whatever the operator is: "
                           f"for 'or' the start value must be False, here a disjunction is true as soon as the (in)equalities hold", node=inits[0],
                           latent=(ctx == "forall" and dead_forall)))
    if not any(ctx == "forall" for _l, _a, _f, ctx in loops):
        # the quantified evaluation has no fold of its own that can be read here (it re-enters the shared step function recursively)
        r.site(f"{f.qn} [forall: evaluated by re-entering the fold of the compound evaluation]")
        r.ok({"context": "forall", "fold": "shared (recursive)"})
    r.require_sites(2)
    return r


def _initial_values(p, g, loop, head: int, acc: str) -> list:
    """the statements that give the accumulator its value before the first fold: definitions reaching the loop from outside it, followed
    through plain copies (a helper's parameter bound to the caller's accumulator, the helper's result copied back); what the folds
    themselves produce (definitions inside the loop, reached again around an enclosing loop) is not an initial value"""
    inside = {id(x) for x in ast.walk(loop)}
    out, done = [], set()
    work = [(acc, head)]
    while work:
        nm, at = work.pop()
        for d in p.rd.defs_reaching(at, nm):
            if d == g.entry or (nm, d) in done:
                continue
            done.add((nm, d))
            st = g.stmt[d]
            if id(st) in inside:
                continue
            if not (isinstance(st, (ast.Assign, ast.AnnAssign)) and st.value is not None):
                continue
            if isinstance(st, ast.Assign) and not (len(st.targets) == 1 and isinstance(st.targets[0], ast.Name)):
                continue
            v = st.value
            if isinstance(v, ast.Name) and [x for x in p.rd.defs_reaching(d, v.id) if x != g.entry]:
                work.append((v.id, d))
            else:
                out.append(st)
    return out


def _safe_trace(p, e):
    try:
        return p.trace(e)
    except KeyError:
        return set()


def _forall_dead(repo: Repo, f: FuncInfo, p, loops) -> bool:
    """is the forall evaluation unreachable from the compound dispatch (shadowed by a superclass test)?"""
    g = C.cfg_of(f.node)
    comp = [lp for lp, _a, _f, ctx in loops if ctx == "compound"]
    fa = [lp for lp, _a, _f, ctx in loops if ctx == "forall"]
    if not comp or not fa:
        return False
    D = ClassDispatch(repo, f, p, comp[0])
    head = g.node_of(fa[0])
    return not any(head in D.G.reach(D.valuation(k)) for k in EVAL_CLASSES)


def universal_path_dead(repo: Repo) -> bool:
    f, p, loops = _evaluator(repo)
    return _forall_dead(repo, f, p, loops)


def rule_foldarms(repo: Repo) -> RuleResult:
    r = RuleResult("C02.foldarms", "for every operand class the evaluator folds the operand's value into the accumulator with the current node's operator",
                   "and / or compositionally over all operands")
    f, p, loops = _evaluator(repo)
    g = C.cfg_of(f.node)
    loop, acc, folds, _ctx = [x for x in loops if x[3] == "compound"][0]
    D = ClassDispatch(repo, f, p, loop)
    if not D.tests:
        raise AnalysisError(f"{EVAL}: isinstance dispatch of the evaluator not recognised")
    fold_ids = {id(x.stmt) for x in folds}
    folds_of: Dict[int, list] = {}
    for x in folds:
        folds_of.setdefault(id(x.stmt), []).append(x)
    node_src = {x[:-1] for x in p.trace(loop.iter) if x[-1] == "attr:operands"}
    elem = {x + ("elem",) for x in p.trace(loop.iter)}
    pm = L.parents_of(f)
    ops = _operand_loops(f, p)

    def nearest_is_loop(n) -> bool:
        for a in _anc(pm, n):
            if a in ops:
                return a is loop
        return False

    for cls in EVAL_CLASSES:
        r.site(f"{f.qn} [operand class {cls}]")
        seen = D.reach(cls)
        assigns = [g.stmt[n] for n in seen if isinstance(g.stmt[n], ast.Assign) and any(isinstance(t, ast.Name) and t.id == acc for t in g.stmt[n].targets)
                   and nearest_is_loop(g.stmt[n])]
        raises = any(g.kind[n] == "raise" for n in seen)
        if not assigns:
            if raises and not D.matches_any(cls):
                r.ok({"class": cls, "rejected": True})
            else:
                r.fail(Finding("C02.foldarms", f, f"arm-no-fold:{cls}", f"an operand of class {cls} does not update the accumulator", node=loop))
            continue
        bad = [s_ for s_ in assigns if id(s_) not in fold_ids]
        # the fold calls that are executed for this class (one accumulator assignment may take its value from several arms)
        live = [x for s_ in assigns for x in folds_of.get(id(s_), []) if g.node_containing(x.call) in seen]
        if not bad and not live:
            bad = assigns[:1]
        key_ok = all(all(x[-1] == "attr:binary_operator" and x[:-1] in node_src for x in _table_key(p, x_.call)) and _table_key(p, x_.call) for x_ in live)
        if bad:
            r.fail(Finding("C02.foldarms", f, f"arm-overwrites:{cls}", f"for an operand of class {cls} the accumulator is overwritten "
                           f"({unparse(bad[0], 70)}) instead of folded: the value of earlier operands is lost", node=bad[0]))
        elif not key_ok:
            r.fail(Finding("C02.foldarms", f, f"arm-operator:{cls}", "the fold does not use the current node's operator", node=assigns[0]))
        else:
            wrong = [x_ for x_ in live if not any(any(x[:len(e)] == e for e in elem) for x in p.trace(x_.call.args[1]))]
            if not wrong:
                r.ok({"class": cls, "folds": unparse(live[0].call.args[1], 60)})
            else:
                r.fail(Finding("C02.foldarms", f, f"arm-value:{cls}", "the folded value does not derive from the operand", node=wrong[0].stmt))
    r.site(f"{f.qn} [else]")
    # an element of a class that no test accepts must be rejected
    none = {a: False for a in D.valuation("object")}
    seen = D.G.reach(none) & D.inside
    if any(g.kind[n] == "raise" for n in seen):
        r.ok({"else": "raise"})
    else:
        r.fail(Finding("C02.foldarms", f, "else-not-rejecting", "an operand of an unknown class is skipped silently by the evaluator"))
    # the class tests of every evaluation loop (compound and quantified) are asked of the operand
    r.site(f"{f.qn} [class tests]")
    bad_tests = [(lp, D_) for lp, _a, _f, _c in loops for D_ in [D if lp is loop else ClassDispatch(repo, f, p, lp)] if D_.malformed]
    if bad_tests:
        _dispatch_wellformed(r, "C02.foldarms", f, bad_tests[0][1], "" if bad_tests[0][0] is loop else "forall-",
                             latent=bad_tests[0][0] is not loop and _forall_dead(repo, f, p, loops))
    else:
        _dispatch_wellformed(r, "C02.foldarms", f, D)
    # result is the accumulator
    r.site(f"{f.qn} [result]")
    rets = L.func_returns(f)
    if rets and all(x.value is not None and _resolves_to(p, g, x.value, acc) for x in rets):
        r.ok({"returns": acc})
    else:
        r.fail(Finding("C02.foldarms", f, "result", "the evaluator does not return the accumulator"))
    r.require_sites(5)
    return r


def _pair_compare(p, e: ast.AST):
    """('eq'|'ne', field) when e compares the two components of an element of <x>.equality_preconditions / inequality_preconditions"""
    neg = False
    while isinstance(e, ast.UnaryOp) and isinstance(e.op, ast.Not):
        e, neg = e.operand, not neg
    if not (isinstance(e, ast.Compare) and len(e.ops) == 1 and isinstance(e.ops[0], (ast.Eq, ast.NotEq))):
        return None
    a, b = _safe_trace(p, e.left), _safe_trace(p, e.comparators[0])
    for fld in ("inequality_preconditions", "equality_preconditions"):
        fa = [x for x in a if f"attr:{fld}" in x and x[-2:] in (("elem", "unpack:0"), ("elem", "unpack:1"))]
        fb = [x for x in b if f"attr:{fld}" in x and x[-2:] in (("elem", "unpack:0"), ("elem", "unpack:1"))]
        if fa and fb and len(fa) == len(a) and len(fb) == len(b) and {x[-1] for x in fa} != {x[-1] for x in fb}:
            eq = isinstance(e.ops[0], ast.Eq) != neg
            return ("eq" if eq else "ne", fld)
    return None


def rule_equality(repo: Repo) -> RuleResult:
    r = RuleResult("C02.equality", "all equality pairs compared with ==, all inequality pairs with !=, conjoined", "(in)equality by object identity")
    f, p, loops = _evaluator(repo)
    g = C.cfg_of(f.node)
    r.site(f.qn + " [pair tests]")
    atoms: Dict[int, str] = {}
    wrong = []
    for c in L.calls_in(f.node):
        if callee_name(c) in ("all", "any") and len(c.args) == 1:
            comp = _single_origin(p, g, c.args[0])        # `checks = [a == b for ..]; all(checks)`
            if not isinstance(comp, (ast.ListComp, ast.GeneratorExp, ast.SetComp)):
                continue
            pc = _pair_compare(p, comp.elt)
            if pc is None:
                continue
            kind, fld = pc
            want = "eq" if fld == "equality_preconditions" else "ne"
            atom = "E" if fld == "equality_preconditions" else "I"
            if any(g_.ifs for g_ in comp.generators):
                wrong.append((c, callee_name(c), kind, fld))
            elif callee_name(c) == "all" and kind == want:
                atoms[id(c)] = atom
            elif callee_name(c) == "any" and kind != want:
                atoms[id(c)] = "!" + atom            # some pair violates the constraint
            else:
                wrong.append((c, callee_name(c), kind, fld))
    found = {a.lstrip("!") for a in atoms.values()}
    if not wrong and not found:
        raise AnalysisError(f"{EVAL}: the tests of the (in)equality pairs (all / any over equality_preconditions, inequality_preconditions) were not recognised")
    if wrong or found != {"E", "I"}:
        r.fail(Finding("C02.equality", f, "equality-semantics", f"(in)equality evaluation is not all(==) over the equalities and all(!=) over the inequalities: "
                       f"recognised {sorted(found)}, other tests {[(w[1], w[2], w[3]) for w in wrong][:2]}", node=wrong[0][0] if wrong else None))
    else:
        r.ok({"equalities": "all(a == b)", "inequalities": "all(a != b)"})
    # the accumulator of the compound evaluation starts from (E and I)
    r.site(f.qn + " [conjoined]")
    loop, acc, folds, _ctx = [x for x in loops if x[3] == "compound"][0]
    head = g.node_of(loop)
    inits = [g.stmt[d] for d in p.rd.defs_reaching(head, acc) if d != g.entry and not any(g.stmt[d] is x for x in ast.walk(loop))]
    G = L.Guards(f, lambda e: atoms.get(id(e)))
    bad = []
    if found == {"E", "I"} and not wrong:
        for E, I in itertools.product([False, True], repeat=2):
            seen = G.reach({"E": E, "I": I})
            vals = set()
            for st in inits:
                if g.node_of(st) in seen and isinstance(st, (ast.Assign, ast.AnnAssign)) and st.value is not None:
                    vals.add(_as_bool(G.value({"E": E, "I": I}, st.value, seen)))
            if vals != {E and I}:
                bad.append((E, I, sorted(map(str, vals))))
        if bad:
            r.fail(Finding("C02.equality", f, "equality-semantics", f"the evaluation does not start from (all equalities hold) and (all inequalities hold): "
                           f"(E, I, start value) = {bad[:2]}"))
        else:
            r.ok({"combined_by": "and", "start_value_of_the_fold": "E and I"})
    # grounding of the pairs maps both components
    k = L.fn(repo, GROUND)
    pk = L.prov(repo, k)
    r.site(k.qn + " [pair grounding]")
    okf = {}
    filtered: list = []
    misgrounded: list = []
    for n in ast.walk(k.node):
        if isinstance(n, ast.Tuple) and len(n.elts) == 2 and isinstance(n.ctx, ast.Load):
            try:
                t0, t1 = [pk.trace(x, keys=True) for x in n.elts]
            except KeyError:
                continue
            for fld in ("equality_preconditions", "inequality_preconditions"):
                via0 = any(x[0] == "param:parameters_map" and "item" in x and "askey" not in x for x in t0)
                via1 = any(x[0] == "param:parameters_map" and "item" in x and "askey" not in x for x in t1)
                # the component of the pair that is looked up: by unpacking (`a, b = pair`) or by index (`pair[0]`)
                k0 = {x[-2].split(":", 1)[1] for x in t0 if "askey" in x and f"attr:{fld}" in x and len(x) > 2 and x[-1] == "askey" and x[-2].startswith(("unpack:", "item:"))}
                k1 = {x[-2].split(":", 1)[1] for x in t1 if "askey" in x and f"attr:{fld}" in x and len(x) > 2 and x[-1] == "askey" and x[-2].startswith(("unpack:", "item:"))}
                if via0 and via1 and k0 == {"0"} and k1 == {"1"}:
                    okf[fld] = True
                elif any(f"attr:{fld}" in x and len(x) > x.index(f"attr:{fld}") + 1 for x in t0 | t1):
                    # a pair built from the elements of this pair set (root or nested condition, each copy of a shared helper) in any
                    # other way: wrong component order, or the pair set and the parameter map in each other's place
                    misgrounded.append((fld, n))
    # every pair must be grounded: no test on the pairs (or their grounded images) may decide whether one is kept
    for fld in ("equality_preconditions", "inequality_preconditions"):
        tests = [(t, n) for n in ast.walk(k.node) if isinstance(n, (ast.SetComp, ast.ListComp, ast.GeneratorExp, ast.DictComp)) for g_ in n.generators for t in g_.ifs]
        tests += [(n.test, n) for n in ast.walk(k.node) if isinstance(n, (ast.If, ast.IfExp)) and not getattr(n, "_inline_block", False)]
        for t, owner_ in tests:
            hit = False
            for sub in ast.walk(t):
                if isinstance(sub, (ast.Name, ast.Subscript, ast.Attribute)) and isinstance(getattr(sub, "ctx", None), ast.Load):
                    try:
                        trk = pk.trace(sub, keys=True)
                    except KeyError:
                        trk = set()
                    if any(f"attr:{fld}" in x and "elem" in x for x in trk):
                        hit = True
            if hit:
                filtered.append((fld, owner_))
    if filtered:
        r.fail(Finding("C02.equality", k, "pair-filtered", f"some (in)equality pairs are dropped while grounding ({unparse(filtered[0][1], 70)}): a constraint such as "
                       f"(not (= ?x ?y)) called with the same object twice disappears", node=filtered[0][1]))
    elif misgrounded:
        r.fail(Finding("C02.equality", k, "pair-grounding", f"{unparse(misgrounded[0][1], 70)}: a pair taken from {misgrounded[0][0]} is not grounded as "
                       f"(map[first], map[second]) (recognised elsewhere for {sorted(okf)})", node=misgrounded[0][1]))
    elif okf.get("equality_preconditions") and okf.get("inequality_preconditions"):
        r.ok({"grounding": "(map[a], map[b]) for (a, b) in pairs"})
    else:
        r.fail(Finding("C02.equality", k, "pair-grounding", f"(in)equality pairs are not grounded component-wise in order (recognised for {sorted(okf)})"))
    r.require_sites(3)
    return r


def _single_origin(p, g, e: ast.AST, depth: int = 0) -> ast.AST:
    """the expression a plain local name stands for when exactly one plain assignment reaches its use (copies followed)"""
    if not isinstance(e, ast.Name) or depth > 4:
        return e
    try:
        at = p.node_of(e)
    except KeyError:
        return e
    defs = [d for d in p.rd.defs_reaching(at, e.id)]
    if len(defs) != 1 or defs[0] == g.entry:
        return e
    st = g.stmt[defs[0]]
    if isinstance(st, ast.Assign) and len(st.targets) == 1 and isinstance(st.targets[0], ast.Name) or (isinstance(st, ast.AnnAssign) and st.value is not None):
        return _single_origin(p, g, st.value, depth + 1)
    return e


def _as_bool(v):
    return v if isinstance(v, bool) else None


def rule_passthrough(repo: Repo) -> RuleResult:
    r = RuleResult("C02.passthrough", "Operator.is_applicable grounds first and returns the grounded precondition's answer for (state, problem objects)",
                   "applicable exactly when the instantiated precondition is true")
    f = L.fn(repo, "Operator.is_applicable")
    p = L.prov(repo, f)
    g = C.cfg_of(f.node)
    r.site(f.qn + " [result]")
    # what is returned is judged by its origins (`answer = <call>; return answer` returns the call)
    rets = [(ret, v) for ret, origins in L.returned_exprs(f) for v in (origins or [None])]
    ok = bool(rets)
    for ret, v in rets:
        if not (isinstance(v, ast.Call) and callee_name(v) == "is_applicable" and isinstance(v.func, ast.Attribute)
                and any(x == ("self", "attr:grounded_preconditions") for x in _safe_trace(p, v.func.value))):
            ok = False
            continue
        gp = repo.func("GroundedPrecondition.is_applicable")
        a0, a1 = L.arg_of(v, gp, "state"), L.arg_of(v, gp, "problem_objects")
        if not (a0 is not None and all(x == ("param:state",) for x in p.trace(a0)) and a1 is not None and
                all(x == ("self", "attr:problem_objects") for x in p.trace(a1))):
            ok = False
    if ok:
        r.ok({"returns": "self.grounded_preconditions.is_applicable(state, self.problem_objects)"})
    else:
        r.fail(Finding("C02.passthrough", f, "result", "is_applicable does not return grounded_preconditions.is_applicable(state, problem_objects) unchanged"))
    r.site(f.qn + " [grounds first]")
    G = L.Guards(f, lambda e: "grounded" if isinstance(e, ast.Attribute) and e.attr == "grounded" else None)
    gcalls = {g.node_containing(c) for c in L.calls_in(f.node) if callee_name(c) == "ground"}
    seen = G.reach({"grounded": False}, avoid=gcalls)
    if gcalls and not any(g.kind[n] == "return" for n in seen):
        r.ok({"ungrounded_operator": "ground() precedes the answer"})
    else:
        r.fail(Finding("C02.passthrough", f, "ground-first", "an operator that is not grounded yet can answer without grounding"))
    h, ph, loops = _evaluator(repo)
    r.site(h.qn)
    comp = [lp for lp, _a, _f, ctx in loops if ctx == "compound"]
    fa_obj = [n for n in ast.walk(h.node) if isinstance(n, ast.For) and any(x[0] == "param:problem_objects" for x in ph.trace(n.iter))]
    root_ok = bool(comp) and all(x == ("self", "attr:_grounded_precondition", "attr:root", "attr:operands") for x in ph.trace(comp[0].iter))
    states = [c for c in L.calls_in(h.node) if callee_name(c) in ("serialize", "set_expression_value")]
    state_ok = bool(states) and all(any(x[0] == "param:state" for x in ph.trace(c.func.value if callee_name(c) == "serialize" else c.args[1])) for c in states
                                    if callee_name(c) == "serialize" or len(c.args) > 1)
    if not states:
        raise AnalysisError(f"{EVAL}: no evaluation against the state (serialize / set_expression_value) is visible")
    if root_ok and state_ok and fa_obj:
        r.ok({"evaluates": "the grounded root on (state, problem_objects)"})
    else:
        r.fail(Finding("C02.passthrough", h, "result", f"GroundedPrecondition.is_applicable does not evaluate its grounded root on (state, problem_objects) "
                       f"(root={root_ok}, state={state_ok}, objects={bool(fa_obj)})"))
    # ground(): parameter map = zip(signature, call objects); preconditions grounded from the action's preconditions
    k = L.fn(repo, "Operator.ground")
    pk = L.prov(repo, k)
    r.site(k.qn)
    gp_ctor = [c for c in L.calls_in(k.node) if callee_name(c) == "GroundedPrecondition"]
    gcall = [c for c in L.calls_in(k.node) if callee_name(c) == "ground_preconditions"]
    ok = bool(gp_ctor) and bool(gcall)
    if ok:
        init = repo.find_method("GroundedPrecondition", "__init__")
        lp = L.arg_of(gp_ctor[0], init, "lifted_precondition")
        ok = lp is not None and any(x == ("self", "attr:action", "attr:preconditions") for x in pk.trace(lp))
    if ok:
        r.ok({"grounded_from": "self.action.preconditions"})
    else:
        r.fail(Finding("C02.passthrough", k, "ground-source", "the grounded precondition is not built from the action's precondition"))
    r.require_sites(4)
    return r


def rule_groundall(repo: Repo) -> RuleResult:
    r = RuleResult("C02.groundall", "ground_preconditions grounds the equality pairs, the inequality pairs and the operands on every path",
                   "(in)equality by object identity is part of every instantiated precondition")
    f = L.fn(repo, GROUND)
    g = C.cfg_of(f.node)
    p = L.prov(repo, f)
    dom = C.dominators(g)
    exits = [n for n, _ in g.pred[g.exit]]
    need = {}
    for fld in ("equality_preconditions", "inequality_preconditions"):
        nodes = []
        for n in g.nodes():
            st = g.stmt[n]
            if isinstance(st, ast.Assign) and any(isinstance(t, ast.Attribute) and t.attr == fld and
                                                  any(x[:3] == ("self", "attr:_grounded_precondition", "attr:root") for x in p.trace(t.value)) for t in st.targets):
                tr = p.trace(st.value, keys=True)
                if any(x[:3] == ("self", "attr:_lifted_precondition", "attr:root") and f"attr:{fld}" in x for x in tr) and \
                        any(x[0] == "param:parameters_map" for x in tr):
                    nodes.append(n)
        need[fld] = nodes
    loops = [lp for lp in _operand_loops(f, p) if all(x == ("self", "attr:_lifted_precondition", "attr:root", "attr:operands") for x in p.trace(lp.iter))]
    need["operands (_ground)"] = [g.node_of(lp) for lp in loops]
    for what, nodes in need.items():
        r.site(f"{f.qn} [{what}]")
        if nodes and exits and all(dom[e] & set(nodes) for e in exits):
            r.ok({"grounded_on_every_path": what})
        elif not nodes:
            r.fail(Finding("C02.groundall", f, f"never-grounded:{what}", f"{what} of the lifted precondition are never grounded into the grounded precondition"))
        else:
            r.fail(Finding("C02.groundall", f, f"path-skips:{what}", f"a path through ground_preconditions ends without grounding the {what} "
                           f"(e.g. an early return): constraints such as (not (= ?x ?y)) are then vacuously true"))
    # wiring of the translation: operands of the lifted root are attached to the grounded root, with the given parameter map
    r.site(f"{f.qn} [_ground arguments]")
    ok = False
    for lp in loops:
        adds = [c for c in L.calls_in(lp) if callee_name(c) == "add_condition" and isinstance(c.func, ast.Attribute)]
        to_root = any(all(x == ("self", "attr:_grounded_precondition", "attr:root") for x in p.trace(c.func.value)) and p.trace(c.func.value) for c in adds)
        gcalls = [c for c in L.calls_in(lp) if callee_name(c) in ("ground_predicate", "ground_numeric_calculation_tree") and len(c.args) > 1]
        with_map = bool(gcalls) and all(all(x == ("param:parameters_map",) for x in p.trace(c.args[1])) for c in gcalls)
        ok = ok or (to_root and with_map)
    if ok:
        r.ok({"_ground": "(lifted root, grounded root, parameters_map)"})
    else:
        r.fail(Finding("C02.groundall", f, "ground-arguments", "the operands of the lifted root are not translated into the grounded root with the given parameter map"))
    _forall_map_stored(repo, r, f, p, g, loops)
    _nested_translation(repo, r, f, p, g, loops)
    r.require_sites(6)
    return r


def _forall_map_stored(repo: Repo, r: RuleResult, f: FuncInfo, p, g, loops: List[ast.For]) -> None:
    """the quantified evaluation instantiates the body of a forall with a map that it reads from the object (self.<X> extended by the
    quantified variable): grounding must have stored the map of THIS call there -- on every path, or at the latest when it meets a
    quantified operand"""
    h = L.fn(repo, EVAL)
    ph = L.prov(repo, h)
    r.site(f"{f.qn} [map of the call kept for the quantified evaluation]")
    read: Set[str] = set()
    for c in L.calls_in(h.node):
        if callee_name(c) in ("ground_predicate", "ground_numeric_calculation_tree") and len(c.args) > 1:
            read |= {x[1][len("attr:"):] for x in _safe_trace(ph, c.args[1]) if len(x) >= 2 and x[0] == "self" and x[1].startswith("attr:")}
    if f.cls is None:
        raise AnalysisError(f"{f.qn}: not a method")
    # attributes that are given their value elsewhere (constructor, another method) are not this function's duty
    elsewhere = set()
    for m in repo.all_funcs():
        if m.cls == f.cls and m.mod is f.mod and m.name != f.name and not (m.name.startswith("_") and not m.name.startswith("__")):
            for n in ast.walk(m.node):
                if isinstance(n, (ast.Assign, ast.AnnAssign, ast.AugAssign)):
                    for t in (n.targets if isinstance(n, ast.Assign) else [n.target]):
                        if isinstance(t, ast.Attribute) and isinstance(t.value, ast.Name) and t.value.id == m.self_name and not (isinstance(n, ast.AnnAssign) and n.value is None):
                            elsewhere.add(t.attr)
    read -= elsewhere
    if not read:
        r.ok({"quantified_evaluation_reads": "no map stored by grounding"})
        return
    exits = [n for n, _ in g.pred[g.exit]]
    dom = C.dominators(g)
    for attr in sorted(read):
        stores = []
        for n in g.nodes():
            st = g.stmt[n]
            if isinstance(st, (ast.Assign, ast.AnnAssign)) and st.value is not None:
                for t in (st.targets if isinstance(st, ast.Assign) else [st.target]):
                    if isinstance(t, ast.Attribute) and t.attr == attr and _safe_trace(p, t.value) == {("self",)}:
                        tr = _safe_trace(p, st.value)
                        if tr and any(x[0] == "param:parameters_map" for x in tr) and all(x[0] == "param:parameters_map" or x[0].startswith("fresh:") for x in tr):
                            stores.append(n)
        always = bool(stores) and bool(exits) and all(dom[e] & set(stores) for e in exits)
        at_forall = bool(stores) and bool(loops)
        for lp in loops:
            D = ClassDispatch(repo, f, p, lp)
            # (decided as reachability under the class valuation: tests the valuation leaves open must not turn into an alarm)
            at_forall = at_forall and bool(D.reach("UniversalPrecondition") & set(stores))
        if always or at_forall:
            r.ok({"stored": f"self.{attr} = parameters_map", "when": "always" if always else "at a quantified operand"})
        else:
            r.fail(Finding("C02.groundall", f, "forall-map-not-stored", f"the quantified evaluation reads self.{attr}, but grounding an action whose precondition contains a "
                           f"forall does not store the parameter map of the call there: the body of the forall is instantiated with no / another call's arguments"))


def _nested_translation(repo: Repo, r: RuleResult, f: FuncInfo, p, g, loops: List[ast.For]) -> None:
    """a nested and / or is translated by re-entering the translation: with the nested operand as source, a FRESH condition node that
    carries the operand's own operator as target, and the parameter map of the call"""
    r.site(f"{f.qn} [nested condition: source, fresh target, map]")
    checked = 0
    for lp in loops:
        D = ClassDispatch(repo, f, p, lp)
        elem = {x + ("elem",) for x in p.trace(lp.iter)}
        seen = D.reach("Precondition")
        under = D.under("Precondition")
        for n in seen:
            hdr = C.header(g.stmt[n]) if g.stmt[n] is not None else None
            if hdr is None:
                continue
            for c in L.calls_in(hdr):
                _cat, tg = repo.resolve_call(f, c)
                if not any(t is not None and t.cls == f.cls and t.mod is f.mod for _k, t, _c in tg):
                    continue
                args = list(c.args) + [kw.value for kw in c.keywords if kw.arg]
                trs = []
                for a in args:
                    try:
                        trs.append(p.trace(a, under=under))
                    except KeyError:
                        trs.append(set())
                if not any(tr and tr <= elem for tr in trs):
                    continue
                checked += 1
                fresh = [tr for tr in trs if any(x[0] == "fresh:Precondition" for x in tr)]
                with_op = [tr for tr in fresh if any(any(x[:len(e) + 1] == e + ("attr:binary_operator",) for e in elem) and x[-1].endswith(":Precondition") for x in tr)]
                with_map = [tr for tr in trs if tr and all(x == ("param:parameters_map",) for x in tr)]
                undefined = [unparse(a) for a, tr in zip(args, trs) if not tr]
                if with_op and with_map and not undefined:
                    r.ok({"nested": unparse(c, 80)})
                else:
                    what = ("an argument has no value on this path" if undefined else "no fresh Precondition as target" if not fresh else
                            "the target does not carry the nested operand's operator" if not with_op else "not the parameter map of the call")
                    r.fail(Finding("C02.groundall", f, "nested-translation", f"{unparse(c, 70)}: a nested and / or is not translated into a fresh condition node with its own "
                                   f"operator under the map of the call ({what})", node=c))
    if not checked:
        r.ok({"nested": "no recursive translation of nested conditions"})


def rule_keyerror(repo: Repo) -> RuleResult:
    r = RuleResult("C02.keyerror", "a failure while evaluating a numeric condition yields False, never True", "an evaluation failure must not make a condition true")
    f = L.fn(repo, EVAL)
    r.site(f.qn)
    bad = []
    handlers = 0
    for n in ast.walk(f.node):
        if isinstance(n, ast.Try) and not any(callee_name(c) in ("evaluate_expression", "set_expression_value") for st in n.body for c in L.calls_in(st)):
            continue
        for n in (n.handlers if isinstance(n, ast.Try) else []):
            handlers += 1
            for s in C.stmts_in(n.body):
                if isinstance(s, ast.Assign) and isinstance(s.value, ast.Constant) and s.value.value is not False:
                    bad.append(s)
                if isinstance(s, ast.Return) and isinstance(s.value, ast.Constant) and s.value.value is not False:
                    bad.append(s)
    if bad:
        r.fail(Finding("C02.keyerror", f, "handler-true", f"the exception handler yields {unparse(bad[0])}", node=bad[0]))
    elif not handlers and not any(callee_name(c) in ("evaluate_expression", "set_expression_value") for c in L.calls_in(f.node)):
        raise AnalysisError(f"{EVAL}: the evaluation of numeric conditions (evaluate_expression) is not visible")
    elif not handlers:
        r.fail(Finding("C02.keyerror", f, "handler-missing", "a fluent that is missing from the state is not handled while a numeric condition is evaluated"))
    else:
        r.ok({"handler": "False"})
    # the comparison is evaluated on the state's fluents
    p = L.prov(repo, f)
    r.site(f.qn + " [environment]")
    sv = [c for c in L.calls_in(f.node) if callee_name(c) == "set_expression_value"]
    is_root = lambda tr: any(len(x) >= 3 and x[-1] == "attr:root" and x[-2] == "elem" and x[-3] == "attr:operands" for x in tr)
    # at EVERY place where a numeric condition is evaluated (compound and quantified evaluation, each copy of a shared helper): the tree that
    # is loaded with the state's fluents and the tree that is evaluated are the root of the operand itself
    sv2 = [c for c in sv if len(c.args) > 1]
    ok = bool(sv2) and all(any(x == ("param:state", "attr:state_fluents") for x in p.trace(c.args[1])) and is_root(p.trace(c.args[0])) for c in sv2)
    ev = [c for c in L.calls_in(f.node) if callee_name(c) == "evaluate_expression" and c.args]
    ok = ok and bool(ev) and all(is_root(p.trace(c.args[0])) for c in ev)
    if ok:
        r.ok({"evaluated_on": "state.state_fluents"})
    else:
        r.fail(Finding("C02.keyerror", f, "environment", "the numeric condition is not evaluated on the fluents of the given state"))
    r.require_sites(2)
    return r


def rules(repo: Repo, tier: str) -> List[RuleResult]:
    return [rule_tables(repo), c12.rule_compare(repo), rule_translate(repo), rule_literal(repo), rule_foldid(repo), rule_foldarms(repo),
            rule_equality(repo), c06.rule_range(repo, "C02.range", "GroundedPrecondition.is_applicable"),
            c06.rule_conform(repo, "C02.conform", only_funcs=(EVAL,), floor=0),
            rule_passthrough(repo), rule_groundall(repo), rule_keyerror(repo),
            # the numeric conditions are evaluated on the values of THIS state: the walk that copies them into the tree reaches every leaf
            c12.rule_leaf(repo).as_rule("C02.readstate"), c12.rule_missing(repo, "C02.missing"),
            # a numeric condition is a COMPARISON: its root operator takes the comparing branch of evaluate_expression (both operands calculated)
            c12.rule_branch(repo, "C02.branch")] + _grounding_rules(repo)


def _grounding_rules(repo: Repo) -> List[RuleResult]:
    """the instantiated precondition is the schema's with arguments substituted POSITION BY POSITION (C20): a numeric condition that reads
    (dist p1 base) where (dist base p1) was written is evaluated on another fluent"""
    from . import c20
    return [c20.rule_positional(repo).as_rule("C02.ground.positional"), c20.rule_constants(repo).as_rule("C02.ground.constants")]
