"""C02 -- an action is reported applicable exactly when its precondition is true."""
from __future__ import annotations

import ast
import itertools
from typing import Dict, List, Optional, Set, Tuple

from .. import absval as A
from .. import cfg as C
from .. import lib as L
from ..core import AnalysisError, FuncInfo, Repo, parent_map, unparse
from ..prov import callee_name
from ..report import Finding, RuleResult
from . import c06, c12

GP = "models.grounded_precondition"

EXPLANATION = (
    "C02.tables: truth tables of BinaryOperator['and'/'or'] and (via C12.compare) of the comparison table. C02.translate: the "
    "isinstance dispatches that translate lifted operands into grounded ones (_ground, _ground_universal_condition) are checked arm by "
    "arm: for each operand class of the data model (Predicate, NumericalExpressionTree, Precondition, UniversalPrecondition) the first "
    "matching arm must attach its result to the output condition (add_condition on the output) or raise. C02.literal: abstract "
    "evaluation of the literal evaluator over (is_positive, fact in state): the value fed to the fold is member for positive and "
    "not member for negative literals, the membership test reads the state parameter, the negative branch tests the positive text. "
    "C02.foldid: a fold acc = TABLE[op](acc, x) whose operator is chosen at run time must start from a value that depends on the "
    "operator (identity of and / or). C02.foldarms: every evaluator arm folds its result into the accumulator with the current "
    "node's operator. C02.equality: equalities are compared with ==, inequalities with !=, all of them, conjoined. C02.range: the "
    "quantifier range is a subtype test. C02.passthrough: Operator.is_applicable grounds first and returns the grounded "
    "precondition's answer for (state, problem objects) un-negated. C02.keyerror: an evaluation failure yields False."
)
UNDECIDED = ("truth of arbitrary formulas in arbitrary states (the fold over run-time operand sets); collisions of the substring-based "
             "membership test on the serialised state; numeric evaluation beyond C12")

MODEL_CLASSES = ["Predicate", "NumericalExpressionTree", "Precondition", "UniversalPrecondition"]


def rule_tables(repo: Repo) -> RuleResult:
    r = RuleResult("C02.tables", "BinaryOperator['and'] is conjunction, ['or'] is disjunction", "and / or compositionally")
    tab = L.table(repo, GP, "BinaryOperator")
    m = repo.module(GP)
    want = {"and": lambda a, b: a and b, "or": lambda a, b: a or b}
    for k, fn in want.items():
        r.site(f"{GP}.BinaryOperator[{k!r}]")
        if k not in tab:
            r.fail(Finding("C02.tables", (m.short, "BinaryOperator", str(m.path)), f"table-key:{k}", f"{k!r} missing from BinaryOperator"))
            continue
        try:
            t = A.bool_table(tab[k])
        except A.Uninterpretable as e:
            raise AnalysisError(f"C02.tables: {e}")
        exp = {(a, b): fn(a, b) for a in (False, True) for b in (False, True)}
        if t == exp:
            r.ok({"key": k, "table": {f"{a},{b}": v for (a, b), v in t.items()}})
        else:
            r.fail(Finding("C02.tables", (m.short, "BinaryOperator", str(m.path)), f"table-value:{k}", f"BinaryOperator[{k!r}] has truth table {t}", node=tab[k]))
    r.require_sites(2)
    return r


# --------------------------------------------------------------------------- isinstance dispatch arms
class Arm:
    def __init__(self, classes: List[str], body: List[ast.stmt], test: Optional[ast.AST], node: Optional[ast.AST]):
        self.classes = classes
        self.body = body
        self.test = test
        self.node = node


def isinstance_arms(loop_body: List[ast.stmt], var: str) -> Tuple[List[Arm], Optional[Arm]]:
    """the if/elif chain(s) in a loop body that test isinstance(<var>, C); returns (arms in order, else-arm or None)"""
    arms: List[Arm] = []
    else_arm: Optional[Arm] = None

    def classes_of(test):
        if isinstance(test, ast.Call) and isinstance(test.func, ast.Name) and test.func.id == "isinstance" and len(test.args) == 2 \
                and isinstance(test.args[0], ast.Name) and test.args[0].id == var:
            c = test.args[1]
            return [c.id] if isinstance(c, ast.Name) else [x.id for x in getattr(c, "elts", []) if isinstance(x, ast.Name)]
        return None

    def walk_chain(ifnode: ast.If):
        nonlocal else_arm
        cs = classes_of(ifnode.test)
        if cs is None:
            return False
        arms.append(Arm(cs, ifnode.body, ifnode.test, ifnode))
        if len(ifnode.orelse) == 1 and isinstance(ifnode.orelse[0], ast.If) and classes_of(ifnode.orelse[0].test) is not None:
            walk_chain(ifnode.orelse[0])
        elif ifnode.orelse:
            else_arm = Arm([], ifnode.orelse, None, ifnode.orelse[0])
        return True

    for s in loop_body:
        if isinstance(s, ast.If):
            walk_chain(s)
    return arms, else_arm


def first_matching_arm(repo: Repo, arms: List[Arm], cls: str) -> Optional[Arm]:
    mro = repo.mro(cls)
    for a in arms:
        if any(c in mro for c in a.classes):
            return a
    return None


def shadowed(repo: Repo, arms: List[Arm], arm: Arm) -> bool:
    """an arm is dead when every class it names is a subclass of a class named by an earlier arm"""
    idx = arms.index(arm)
    for c in arm.classes:
        if not any(any(e in repo.mro(c) for e in prev.classes) for prev in arms[:idx]):
            return False
    return True


def rule_translate(repo: Repo, rid: str = "C02.translate") -> RuleResult:
    r = RuleResult(rid, "each operand class of the data model is translated by an arm that attaches its result to the grounded condition, or is rejected",
                   "literals, numeric conditions, nested and quantified conditions all take part in the instantiated precondition")
    dead_universal = universal_path_dead(repo)
    for spec in ("GroundedPrecondition._ground", "GroundedPrecondition._ground_universal_condition"):
        f = repo.func(spec)
        latent = dead_universal and spec.endswith("_ground_universal_condition")
        p = L.prov(repo, f)
        loops = [n for n in ast.walk(f.node) if isinstance(n, ast.For) and isinstance(n.target, ast.Name)
                 and any("attr:operands" in x for x in p.trace(n.iter))]
        if len(loops) != 1:
            raise AnalysisError(f"{spec}: loop over the lifted operands not found")
        loop = loops[0]
        var = loop.target.id
        arms, else_arm = isinstance_arms(loop.body, var)
        if not arms:
            raise AnalysisError(f"{spec}: isinstance dispatch on the operand not recognised")
        # the output condition: a parameter that receives add_condition, or a local Precondition that is returned
        outputs: Set[str] = set()
        for c in L.calls_in(f.node):
            if callee_name(c) == "add_condition" and isinstance(c.func, ast.Attribute):
                for x in p.trace(c.func.value):
                    if x[0].startswith("param:") and len(x) == 1:
                        outputs.add(x[0])
                    if x[0] == "fresh:Precondition":
                        outputs.add(x[0])
        if not outputs:
            raise AnalysisError(f"{spec}: output condition (receiver of add_condition) not recognised")

        def attaches(body: List[ast.stmt]) -> bool:
            for s in C.stmts_in(body):
                hdr = C.header(s)
                if hdr is None:
                    continue
                for c in L.calls_in(hdr):
                    if callee_name(c) == "add_condition" and isinstance(c.func, ast.Attribute) and c.args:
                        recv = p.trace(c.func.value)
                        arg = p.trace(c.args[0])
                        to_out = any(x[0] in outputs and len(x) == 1 for x in recv)
                        from_operand = any("elem" in x or any(st.startswith("arg") for st in x) for x in arg)
                        if to_out and from_operand:
                            return True
            return False

        def rejects(body: List[ast.stmt]) -> bool:
            ss = list(C.stmts_in(body))
            return bool(ss) and any(isinstance(s, ast.Raise) for s in ss)

        for cls in MODEL_CLASSES:
            r.site(f"{f.qn} [{cls}]")
            arm = first_matching_arm(repo, arms, cls)
            if arm is None:
                if else_arm is not None and rejects(else_arm.body):
                    r.ok({"function": f.qn, "class": cls, "arm": "else -> raise"})
                elif else_arm is not None and attaches(else_arm.body):
                    r.ok({"function": f.qn, "class": cls, "arm": "else -> attach"})
                else:
                    r.fail(Finding(rid, f, f"arm:else:{cls}", f"an operand of class {cls} matches no arm and there is no rejecting else: it is silently left out "
                                   f"of the grounded condition", node=loop, latent=latent),
                           {"function": f.qn, "class": cls, "arm": None})
                continue
            if attaches(arm.body) or rejects(arm.body):
                r.ok({"function": f.qn, "class": cls, "arm": "/".join(arm.classes), "attached_or_rejected": True})
            else:
                r.fail(Finding(rid, f, f"arm:{cls}", f"the arm isinstance({var}, {'/'.join(arm.classes)}) handles operands of class {cls} but never attaches a "
                               f"translated condition to the output (no add_condition on {sorted(outputs)}) and does not raise: the condition is ignored",
                               node=arm.node, latent=latent), {"function": f.qn, "class": cls, "arm": "/".join(arm.classes)})
    r.require_sites(8)
    return r


def universal_path_dead(repo: Repo) -> bool:
    """is the evaluator arm that handles UniversalPrecondition shadowed by an earlier superclass arm (dead code today)?"""
    f = repo.func_opt("GroundedPrecondition._is_condition_applicable")
    if f is None:
        return False
    p = L.prov(repo, f)
    loops = [n for n in ast.walk(f.node) if isinstance(n, ast.For) and isinstance(n.target, ast.Name) and any("attr:operands" in x for x in p.trace(n.iter))]
    if len(loops) != 1:
        return False
    arms, _ = isinstance_arms(loops[0].body, loops[0].target.id)
    for a in arms:
        if "UniversalPrecondition" in a.classes:
            return shadowed(repo, arms, a)
    return True


def rule_literal(repo: Repo) -> RuleResult:
    r = RuleResult("C02.literal", "a positive literal holds iff its ground text is in the state, a negative one iff the positive text is not",
                   "positive and negative literals by (non-)membership")
    f = repo.func("GroundedPrecondition._validate_predicates_hold")
    p = L.prov(repo, f)
    tcalls = [c for c in L.calls_in(f.node) if isinstance(c.func, ast.Subscript) and any(x[0] == "global:BinaryOperator" for x in p.trace(c.func.value))]
    if not tcalls:
        raise AnalysisError("_validate_predicates_hold: fold through BinaryOperator not found")
    call = tcalls[0]
    if len(call.args) != 2:
        raise AnalysisError("_validate_predicates_hold: BinaryOperator call with two arguments expected")
    lit = call.args[1]
    state_params = [x for x in f.params if x == "state"]
    if not state_params:
        raise AnalysisError("_validate_predicates_hold: parameter 'state' not found")
    members: Dict[int, Tuple[str, ast.AST]] = {}

    def matcher(e):
        if isinstance(e, ast.Attribute) and e.attr == "is_positive":
            return "pos"
        if isinstance(e, ast.Compare) and len(e.ops) == 1 and isinstance(e.ops[0], (ast.In, ast.NotIn)):
            rhs = p.trace(e.comparators[0], p.node_of(call))
            if any(x[0] == "param:state" for x in rhs):
                members[id(e)] = ("in" if isinstance(e.ops[0], ast.In) else "not in", e)
                return "member" if isinstance(e.ops[0], ast.In) else "!member"
        return None

    r.site(f.qn + " [truth value]")
    table = {}
    bad = []
    for pos, mem in itertools.product([False, True], repeat=2):
        def val(e, pos=pos, mem=mem):
            a = matcher(e)
            if a == "pos":
                return pos
            if a == "member":
                return mem
            if a == "!member":
                return not mem
            return None
        v = C.eval3(lit, val)
        table[f"is_positive={pos},fact_in_state={mem}"] = v
        if v is not (mem if pos else (not mem)):
            bad.append((pos, mem, v))
    if bad:
        r.fail(Finding("C02.literal", f, "literal-truth", f"literal value differs from (is_positive ? member : not member): {table}", node=lit), table)
    else:
        r.ok(table)
    # which texts are tested
    r.site(f.qn + " [tested text]")
    okpos = okneg = False
    forced = set()
    for n in ast.walk(f.node):
        if isinstance(n, ast.Assign) and any(isinstance(t, ast.Attribute) and t.attr == "is_positive" for t in n.targets) and \
                isinstance(n.value, ast.Constant) and n.value.value is True:
            for t in n.targets:
                if isinstance(t.value, ast.Name):
                    forced.add(t.value.id)
    for kind, e in members.values():
        left = p.trace(e.left, p.node_of(call))
        if kind == "in":
            okpos = any(x == ("param:condition", "attr:untyped_representation") for x in left)
        else:
            okneg = any("call:copy" in x and x[-1] == "attr:untyped_representation" for x in left) and \
                isinstance(e.left, ast.Attribute) and isinstance(e.left.value, ast.Name) and e.left.value.id in forced
    if okpos and okneg:
        r.ok({"positive_branch_tests": "condition.untyped_representation", "negative_branch_tests": "text of the copy forced to is_positive=True"})
    else:
        r.fail(Finding("C02.literal", f, "literal-text", f"tested texts: positive branch ok={okpos}, negative branch tests the positive text={okneg}"))
    # the operator of the fold is the enclosing node's operator and the accumulator is the incoming one
    r.site(f.qn + " [fold]")
    key = p.trace(call.func.slice)
    acc = p.trace(call.args[0])
    if any(x == ("param:preconditions", "attr:binary_operator") for x in key) and all(x == ("param:prev_is_applicable",) for x in acc):
        r.ok({"fold": "BinaryOperator[preconditions.binary_operator](prev_is_applicable, literal)"})
    else:
        r.fail(Finding("C02.literal", f, "literal-fold", f"fold uses operator {sorted(key)[:2]} and accumulator {sorted(acc)[:2]}"))
    r.require_sites(3)
    return r


def _fold_sites(repo: Repo, f: FuncInfo):
    """assignments acc = BinaryOperator[...](acc, x)"""
    p = L.prov(repo, f)
    out = []
    for n in ast.walk(f.node):
        if isinstance(n, ast.Assign) and len(n.targets) == 1 and isinstance(n.targets[0], ast.Name) and isinstance(n.value, ast.Call) \
                and isinstance(n.value.func, ast.Subscript):
            if any(x[0] == "global:BinaryOperator" for x in p.trace(n.value.func.value)):
                acc = n.targets[0].id
                if n.value.args and isinstance(n.value.args[0], ast.Name) and n.value.args[0].id == acc:
                    out.append((n, acc))
    return out


def rule_foldid(repo: Repo) -> RuleResult:
    r = RuleResult("C02.foldid", "a fold whose operator is chosen at run time from {and, or} starts from that operator's identity",
                   "or is true only if some disjunct is; an empty and is true")
    for spec in ("GroundedPrecondition._is_condition_applicable", "GroundedPrecondition._validate_universal_precondition"):
        f = repo.func(spec)
        p = L.prov(repo, f)
        g = C.cfg_of(f.node)
        folds = _fold_sites(repo, f)
        if not folds:
            raise AnalysisError(f"{spec}: accumulator fold not recognised")
        latent = spec.endswith("_validate_universal_precondition") and universal_path_dead(repo)
        acc = folds[0][1]
        r.site(f"{f.qn} [initial value of {acc}]")
        # operator dynamic?
        keyp = p.trace(folds[0][0].value.func.slice)
        dynamic = any("attr:binary_operator" in x for x in keyp)
        inits = []
        for n in g.nodes():
            st = g.stmt[n]
            if isinstance(st, ast.Assign) and any(isinstance(t, ast.Name) and t.id == acc for t in st.targets) and g.loop_of.get(n) is None:
                inits.append(st)
        if not inits:
            raise AnalysisError(f"{spec}: initialisation of the accumulator not found")
        init = inits[0]
        tr = p.trace(init.value)
        depends_on_op = any("attr:binary_operator" in x for x in tr) or any(
            isinstance(c, ast.Compare) and "binary_operator" in ast.unparse(c) for c in ast.walk(init.value))
        if not dynamic:
            r.ok({"function": f.qn, "operator": "fixed"})
        elif depends_on_op:
            r.ok({"function": f.qn, "initial_value": unparse(init.value), "depends_on_operator": True})
        else:
            r.fail(Finding("C02.foldid", f, "fold-init:or", f"the accumulator starts from {unparse(init.value, 60)} whatever the operator is: for 'or' the "
                           f"start value must be False, here a disjunction is true as soon as the (in)equalities hold", node=init, latent=latent))
    r.require_sites(2)
    return r


def rule_foldarms(repo: Repo) -> RuleResult:
    r = RuleResult("C02.foldarms", "every evaluator arm folds its operand's value into the accumulator with the current node's operator",
                   "and / or compositionally over all operands")
    f = repo.func("GroundedPrecondition._is_condition_applicable")
    p = L.prov(repo, f)
    loops = [n for n in ast.walk(f.node) if isinstance(n, ast.For) and isinstance(n.target, ast.Name) and any("attr:operands" in x for x in p.trace(n.iter))]
    if len(loops) != 1:
        raise AnalysisError("_is_condition_applicable: operand loop not found")
    loop = loops[0]
    var = loop.target.id
    arms, else_arm = isinstance_arms(loop.body, var)
    folds = {id(n): acc for n, acc in _fold_sites(repo, f)}
    accs = set(folds.values())
    for arm in arms:
        r.site(f"{f.qn} [arm {'/'.join(arm.classes)}]")
        dead = shadowed(repo, arms, arm)
        assigns = [s for s in C.stmts_in(arm.body) if isinstance(s, ast.Assign) and any(isinstance(t, ast.Name) and t.id in accs for t in s.targets)]
        if not assigns:
            r.fail(Finding("C02.foldarms", f, f"arm-no-fold:{'/'.join(arm.classes)}", f"the arm for {'/'.join(arm.classes)} does not update the accumulator", node=arm.node, latent=dead))
            continue
        bad = [s for s in assigns if id(s) not in folds]
        key_ok = all(any(x == ("param:preconditions", "attr:binary_operator") for x in p.trace(s.value.func.slice)) for s in assigns if id(s) in folds)
        if bad:
            r.fail(Finding("C02.foldarms", f, f"arm-overwrites:{'/'.join(arm.classes)}", f"the arm for {'/'.join(arm.classes)} overwrites the accumulator "
                           f"({unparse(bad[0], 70)}) instead of folding: the value of earlier operands is lost", node=bad[0], latent=dead))
        elif not key_ok:
            r.fail(Finding("C02.foldarms", f, f"arm-operator:{'/'.join(arm.classes)}", "the fold does not use the current node's operator", node=assigns[0], latent=dead))
        else:
            # the folded value derives from the operand
            s = assigns[0]
            v = p.trace(s.value.args[1])
            if any("elem" in x for x in v):
                r.ok({"arm": "/".join(arm.classes), "folds": unparse(s.value.args[1], 60)})
            else:
                r.fail(Finding("C02.foldarms", f, f"arm-value:{'/'.join(arm.classes)}", "the folded value does not derive from the operand", node=s, latent=dead))
    r.site(f"{f.qn} [else]")
    if else_arm is not None and any(isinstance(s, ast.Raise) for s in C.stmts_in(else_arm.body)):
        r.ok({"else": "raise"})
    else:
        r.fail(Finding("C02.foldarms", f, "else-not-rejecting", "an operand of an unknown class is skipped silently by the evaluator"))
    # result is the accumulator
    r.site(f"{f.qn} [result]")
    rets = L.func_returns(f)
    if rets and all(isinstance(x.value, ast.Name) and x.value.id in accs for x in rets):
        r.ok({"returns": sorted(accs)})
    else:
        r.fail(Finding("C02.foldarms", f, "result", "the evaluator does not return the accumulator"))
    r.require_sites(5)
    return r


def rule_equality(repo: Repo) -> RuleResult:
    r = RuleResult("C02.equality", "all equality pairs compared with ==, all inequality pairs with !=, conjoined", "(in)equality by object identity")
    f = repo.func("GroundedPrecondition._validate_equality_holds")
    r.site(f.qn)
    rets = L.func_returns(f)
    if len(rets) != 1:
        raise AnalysisError("_validate_equality_holds: single return expected")
    e = rets[0].value
    parts = e.values if isinstance(e, ast.BoolOp) and isinstance(e.op, ast.And) else None
    found = {}
    if parts:
        for part in parts:
            if isinstance(part, ast.Call) and callee_name(part) == "all" and part.args:
                comp = part.args[0]
                if isinstance(comp, (ast.ListComp, ast.GeneratorExp, ast.SetComp)) and len(comp.generators) == 1 and not comp.generators[0].ifs:
                    it = ast.unparse(comp.generators[0].iter)
                    tg = comp.generators[0].target
                    elt = comp.elt
                    if isinstance(elt, ast.Compare) and len(elt.ops) == 1 and isinstance(tg, ast.Tuple) and len(tg.elts) == 2:
                        names = {x.id for x in tg.elts if isinstance(x, ast.Name)}
                        used = {x.id for x in (elt.left, elt.comparators[0]) if isinstance(x, ast.Name)}
                        if names == used and len(names) == 2:
                            which = "ineq" if "inequality_preconditions" in it else ("eq" if "equality_preconditions" in it else None)
                            if which:
                                found[which] = type(elt.ops[0]).__name__
    if found == {"eq": "Eq", "ineq": "NotEq"}:
        r.ok({"equalities": "all(a == b)", "inequalities": "all(a != b)", "combined_by": "and"})
    else:
        r.fail(Finding("C02.equality", f, "equality-semantics", f"(in)equality evaluation is not all(==) and all(!=): recognised {found}"))
    # grounding of the pairs maps both components
    g = repo.func("GroundedPrecondition._ground_equality_objects")
    r.site(g.qn)
    ok = False
    for n in ast.walk(g.node):
        if isinstance(n, (ast.SetComp, ast.ListComp)) and isinstance(n.elt, ast.Tuple) and len(n.elt.elts) == 2:
            tg = n.generators[0].target
            if isinstance(tg, ast.Tuple) and len(tg.elts) == 2:
                a, b = [x.id for x in tg.elts]
                e0, e1 = n.elt.elts
                ok = (isinstance(e0, ast.Subscript) and isinstance(e0.slice, ast.Name) and e0.slice.id == a and
                      isinstance(e1, ast.Subscript) and isinstance(e1.slice, ast.Name) and e1.slice.id == b and
                      ast.unparse(e0.value) == ast.unparse(e1.value) == "parameters_map")
    if ok:
        r.ok({"grounding": "(map[a], map[b]) for (a, b) in pairs"})
    else:
        r.fail(Finding("C02.equality", g, "pair-grounding", "(in)equality pairs are not grounded component-wise in order"))
    r.require_sites(2)
    return r


def rule_passthrough(repo: Repo) -> RuleResult:
    r = RuleResult("C02.passthrough", "Operator.is_applicable grounds first and returns the grounded precondition's answer for (state, problem objects)",
                   "applicable exactly when the instantiated precondition is true")
    f = repo.func("Operator.is_applicable")
    p = L.prov(repo, f)
    g = C.cfg_of(f.node)
    r.site(f.qn + " [result]")
    rets = L.func_returns(f)
    ok = bool(rets)
    for ret in rets:
        v = ret.value
        if not (isinstance(v, ast.Call) and callee_name(v) == "is_applicable" and any(x == ("self", "attr:grounded_preconditions") for x in p.trace(v.func.value))):
            ok = False
            continue
        gp = repo.func("GroundedPrecondition.is_applicable")
        a0, a1 = L.arg_of(v, gp, "state"), L.arg_of(v, gp, "problem_objects")
        if not (a0 is not None and all(x == ("param:state",) for x in p.trace(a0)) and a1 is not None and
                all(x == ("self", "attr:problem_objects") for x in p.trace(a1))):
            ok = False
    if ok:
        r.ok({"returns": "self.grounded_preconditions.is_applicable(state, self.problem_objects)"})
    else:
        r.fail(Finding("C02.passthrough", f, "result", "is_applicable does not return grounded_preconditions.is_applicable(state, problem_objects) unchanged"))
    r.site(f.qn + " [grounds first]")
    G = L.Guards(f, lambda e: "grounded" if isinstance(e, ast.Attribute) and e.attr == "grounded" else None)
    gcalls = {g.node_containing(c) for c in L.calls_in(f.node) if callee_name(c) == "ground"}
    seen = G.reach({"grounded": False}, avoid=gcalls)
    if gcalls and not any(g.kind[n] == "return" for n in seen):
        r.ok({"ungrounded_operator": "ground() precedes the answer"})
    else:
        r.fail(Finding("C02.passthrough", f, "ground-first", "an operator that is not grounded yet can answer without grounding"))
    h = repo.func("GroundedPrecondition.is_applicable")
    ph = L.prov(repo, h)
    r.site(h.qn)
    ok = False
    for ret in L.func_returns(h):
        v = ret.value
        if isinstance(v, ast.Call) and callee_name(v) == "_is_condition_applicable" and len(v.args) >= 2:
            t0, t1 = ph.trace(v.args[0]), ph.trace(v.args[1])
            t2 = ph.trace(v.args[2]) if len(v.args) > 2 else set()
            ok = any(x == ("self", "attr:_grounded_precondition", "attr:root") for x in t0) and all(x == ("param:state",) for x in t1) and \
                all(x == ("param:problem_objects",) for x in t2) and bool(t2)
    if ok:
        r.ok({"returns": "_is_condition_applicable(grounded root, state, problem_objects)"})
    else:
        r.fail(Finding("C02.passthrough", h, "result", "GroundedPrecondition.is_applicable does not evaluate its grounded root on (state, problem_objects)"))
    # ground(): parameter map = zip(signature, call objects); preconditions grounded from the action's preconditions
    k = repo.func("Operator.ground")
    pk = L.prov(repo, k)
    r.site(k.qn)
    gp_ctor = [c for c in L.calls_in(k.node) if callee_name(c) == "GroundedPrecondition"]
    gcall = [c for c in L.calls_in(k.node) if callee_name(c) == "ground_preconditions"]
    ok = bool(gp_ctor) and bool(gcall)
    if ok:
        init = repo.find_method("GroundedPrecondition", "__init__")
        lp = L.arg_of(gp_ctor[0], init, "lifted_precondition")
        ok = lp is not None and any(x == ("self", "attr:action", "attr:preconditions") for x in pk.trace(lp))
    if ok:
        r.ok({"grounded_from": "self.action.preconditions"})
    else:
        r.fail(Finding("C02.passthrough", k, "ground-source", "the grounded precondition is not built from the action's precondition"))
    r.require_sites(4)
    return r


def rule_groundall(repo: Repo) -> RuleResult:
    r = RuleResult("C02.groundall", "ground_preconditions grounds the equality pairs, the inequality pairs and the operands on every path",
                   "(in)equality by object identity is part of every instantiated precondition")
    f = repo.func("GroundedPrecondition.ground_preconditions")
    g = C.cfg_of(f.node)
    p = L.prov(repo, f)
    dom = C.dominators(g)
    exits = [n for n, _ in g.pred[g.exit]]
    need = {}
    for fld in ("equality_preconditions", "inequality_preconditions"):
        nodes = []
        for n in g.nodes():
            st = g.stmt[n]
            if isinstance(st, ast.Assign) and any(isinstance(t, ast.Attribute) and t.attr == fld and
                                                  any(x[:2] == ("self", "attr:_grounded_precondition") for x in p.trace(t.value)) for t in st.targets):
                tr = p.trace(st.value)
                if any(x[:2] == ("self", "attr:_lifted_precondition") and f"attr:{fld}" in x and any(s.endswith("_ground_equality_objects") for s in x) for x in tr) and \
                        any(x[0] == "param:parameters_map" for x in tr):
                    nodes.append(n)
        need[fld] = nodes
    gn = [g.node_containing(c) for c in L.calls_in(f.node) if callee_name(c) == "_ground"]
    need["operands (_ground)"] = [n for n in gn if n is not None]
    for what, nodes in need.items():
        r.site(f"{f.qn} [{what}]")
        if nodes and exits and all(dom[e] & set(nodes) for e in exits):
            r.ok({"grounded_on_every_path": what})
        elif not nodes:
            r.fail(Finding("C02.groundall", f, f"never-grounded:{what}", f"{what} of the lifted precondition are never grounded into the grounded precondition"))
        else:
            r.fail(Finding("C02.groundall", f, f"path-skips:{what}", f"a path through ground_preconditions ends without grounding the {what} "
                           f"(e.g. an early return): constraints such as (not (= ?x ?y)) are then vacuously true"))
    # _ground call wiring
    r.site(f"{f.qn} [_ground arguments]")
    ok = False
    for c in L.calls_in(f.node):
        if callee_name(c) == "_ground":
            gf = repo.func("GroundedPrecondition._ground")
            a, b, m = (L.arg_of(c, gf, k) for k in ("lifted_conditions", "grounded_conditions", "parameters_map"))
            ok = a is not None and b is not None and m is not None and \
                any(x == ("self", "attr:_lifted_precondition", "attr:root") for x in p.trace(a)) and \
                any(x == ("self", "attr:_grounded_precondition", "attr:root") for x in p.trace(b)) and \
                all(x == ("param:parameters_map",) for x in p.trace(m))
    if ok:
        r.ok({"_ground": "(lifted root, grounded root, parameters_map)"})
    else:
        r.fail(Finding("C02.groundall", f, "ground-arguments", "_ground is not called with (lifted root, grounded root, parameters_map)"))
    r.require_sites(4)
    return r


def rule_keyerror(repo: Repo) -> RuleResult:
    r = RuleResult("C02.keyerror", "a failure while evaluating a numeric condition yields False, never True", "an evaluation failure must not make a condition true")
    f = repo.func("GroundedPrecondition._validate_numeric_expression_hold")
    r.site(f.qn)
    bad = []
    for n in ast.walk(f.node):
        if isinstance(n, ast.ExceptHandler):
            for s in C.stmts_in(n.body):
                if isinstance(s, ast.Assign) and isinstance(s.value, ast.Constant) and s.value.value is not False:
                    bad.append(s)
                if isinstance(s, ast.Return) and isinstance(s.value, ast.Constant) and s.value.value is not False:
                    bad.append(s)
    if bad:
        r.fail(Finding("C02.keyerror", f, "handler-true", f"the exception handler yields {unparse(bad[0])}", node=bad[0]))
    else:
        r.ok({"handler": "False"})
    # the comparison is evaluated on the state's fluents
    p = L.prov(repo, f)
    r.site(f.qn + " [environment]")
    sv = [c for c in L.calls_in(f.node) if callee_name(c) == "set_expression_value"]
    ok = any(any(x == ("param:state", "attr:state_fluents") for x in p.trace(c.args[1])) and any(x == ("param:condition", "attr:root") for x in p.trace(c.args[0])) for c in sv if len(c.args) > 1)
    ev = [c for c in L.calls_in(f.node) if callee_name(c) == "evaluate_expression"]
    ok = ok and any(any(x == ("param:condition", "attr:root") for x in p.trace(c.args[0])) for c in ev if c.args)
    if ok:
        r.ok({"evaluated_on": "state.state_fluents"})
    else:
        r.fail(Finding("C02.keyerror", f, "environment", "the numeric condition is not evaluated on the fluents of the given state"))
    r.require_sites(2)
    return r


def rules(repo: Repo, tier: str) -> List[RuleResult]:
    return [rule_tables(repo), c12.rule_compare(repo), rule_translate(repo), rule_literal(repo), rule_foldid(repo), rule_foldarms(repo),
            rule_equality(repo), c06.rule_range(repo, "C02.range", "GroundedPrecondition.is_applicable"),
            c06.rule_conform(repo, "C02.conform", only_funcs=("GroundedPrecondition._validate_universal_precondition",), floor=0),
            rule_passthrough(repo), rule_groundall(repo), rule_keyerror(repo)]
