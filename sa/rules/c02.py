"""C02 -- an action is reported applicable exactly when its precondition is true."""
from __future__ import annotations

import ast
import itertools
from typing import Dict, List, Optional, Set, Tuple

from .. import absval as A
from .. import cfg as C
from .. import lib as L
from ..core import AnalysisError, FuncInfo, Repo, parent_map, unparse
from ..prov import callee_name
from ..report import Finding, RuleResult
from . import c06, c12

GP = "models.grounded_precondition"

EXPLANATION = (
    "C02.tables: truth tables of BinaryOperator['and'/'or'] and (via C12.compare) of the comparison table. C02.translate: the "
    "isinstance dispatches that translate lifted operands into grounded ones (_ground, _ground_universal_condition) are checked arm by "
    "arm: for each operand class of the data model (Predicate, NumericalExpressionTree, Precondition, UniversalPrecondition) the first "
    "matching arm must attach its result to the output condition (add_condition on the output) or raise. C02.literal: abstract "
    "evaluation of the literal evaluator over (is_positive, fact in state): the value fed to the fold is member for positive and "
    "not member for negative literals, the membership test reads the state parameter, the negative branch tests the positive text. "
    "C02.foldid: a fold acc = TABLE[op](acc, x) whose operator is chosen at run time must start from a value that depends on the "
    "operator (identity of and / or). C02.foldarms: every evaluator arm folds its result into the accumulator with the current "
    "node's operator. C02.equality: equalities are compared with ==, inequalities with !=, all of them, conjoined. C02.range: the "
    "quantifier range is a subtype test. C02.passthrough: Operator.is_applicable grounds first and returns the grounded "
    "precondition's answer for (state, problem objects) un-negated. C02.keyerror: an evaluation failure yields False."
)
UNDECIDED = ("truth of arbitrary formulas in arbitrary states (the fold over run-time operand sets); collisions of the substring-based "
             "membership test on the serialised state; numeric evaluation beyond C12")

MODEL_CLASSES = ["Predicate", "NumericalExpressionTree", "Precondition", "UniversalPrecondition"]


def rule_tables(repo: Repo) -> RuleResult:
    r = RuleResult("C02.tables", "BinaryOperator['and'] is conjunction, ['or'] is disjunction", "and / or compositionally")
    tab = L.table(repo, GP, "BinaryOperator")
    m = repo.module(GP)
    want = {"and": lambda a, b: a and b, "or": lambda a, b: a or b}
    for k, fn in want.items():
        r.site(f"{GP}.BinaryOperator[{k!r}]")
        if k not in tab:
            r.fail(Finding("C02.tables", (m.short, "BinaryOperator", str(m.path)), f"table-key:{k}", f"{k!r} missing from BinaryOperator"))
            continue
        try:
            t = A.bool_table(tab[k])
        except A.Uninterpretable as e:
            raise AnalysisError(f"C02.tables: {e}")
        exp = {(a, b): fn(a, b) for a in (False, True) for b in (False, True)}
        if t == exp:
            r.ok({"key": k, "table": {f"{a},{b}": v for (a, b), v in t.items()}})
        else:
            r.fail(Finding("C02.tables", (m.short, "BinaryOperator", str(m.path)), f"table-value:{k}", f"BinaryOperator[{k!r}] has truth table {t}", node=tab[k]))
    r.require_sites(2)
    return r


# --------------------------------------------------------------------------- syntactic isinstance arms (used by C08)
class Arm:
    def __init__(self, classes: List[str], body: List[ast.stmt], test: Optional[ast.AST], node: Optional[ast.AST]):
        self.classes = classes
        self.body = body
        self.test = test
        self.node = node


def isinstance_arms(loop_body: List[ast.stmt], var: str) -> Tuple[List[Arm], Optional[Arm]]:
    """the if/elif chain(s) in a loop body that test isinstance(<var>, C); returns (arms in order, else-arm or None)"""
    arms: List[Arm] = []
    else_arm: Optional[Arm] = None

    def classes_of(test):
        if isinstance(test, ast.Call) and isinstance(test.func, ast.Name) and test.func.id == "isinstance" and len(test.args) == 2 \
                and isinstance(test.args[0], ast.Name) and test.args[0].id == var:
            c = test.args[1]
            return [c.id] if isinstance(c, ast.Name) else [x.id for x in getattr(c, "elts", []) if isinstance(x, ast.Name)]
        return None

    def walk_chain(ifnode: ast.If):
        nonlocal else_arm
        cs = classes_of(ifnode.test)
        if cs is None:
            return False
        arms.append(Arm(cs, ifnode.body, ifnode.test, ifnode))
        if len(ifnode.orelse) == 1 and isinstance(ifnode.orelse[0], ast.If) and classes_of(ifnode.orelse[0].test) is not None:
            walk_chain(ifnode.orelse[0])
        elif ifnode.orelse:
            else_arm = Arm([], ifnode.orelse, None, ifnode.orelse[0])
        return True

    for s in loop_body:
        if isinstance(s, ast.If):
            walk_chain(s)
    return arms, else_arm


def first_matching_arm(repo: Repo, arms: List[Arm], cls: str) -> Optional[Arm]:
    mro = repo.mro(cls)
    for a in arms:
        if any(c in mro for c in a.classes):
            return a
    return None


def shadowed(repo: Repo, arms: List[Arm], arm: Arm) -> bool:
    """an arm is dead when every class it names is a subclass of a class named by an earlier arm"""
    idx = arms.index(arm)
    for c in arm.classes:
        if not any(any(e in repo.mro(c) for e in prev.classes) for prev in arms[:idx]):
            return False
    return True



# --------------------------------------------------------------------------- anchors and class valuations
EVAL = "GroundedPrecondition.is_applicable"            # the evaluator with its private helpers in place
GROUND = "GroundedPrecondition.ground_preconditions"   # the translation lifted -> grounded condition
EVAL_CLASSES = ["GroundedPredicate", "NumericalExpressionTree", "Precondition", "UniversalPrecondition"]


def _operand_loops(f: FuncInfo, p) -> List[ast.For]:
    return [n for n in ast.walk(f.node) if isinstance(n, ast.For) and any(x and x[-1] == "attr:operands" for x in p.trace(n.iter))]


def _classes_of(repo: Repo, f: FuncInfo, e: ast.AST) -> Optional[List[str]]:
    """class names of the second argument of isinstance (a name, a tuple, or a module constant holding a tuple)"""
    if isinstance(e, ast.Name):
        if e.id in repo.classes:
            return [e.id]
        node = repo.const_node(f.mod.name, e.id)
        if node is not None and isinstance(node, (ast.Tuple, ast.List)):
            return [x.id for x in node.elts if isinstance(x, ast.Name)]
        return [e.id]
    if isinstance(e, ast.Attribute):
        return [e.attr]
    if isinstance(e, (ast.Tuple, ast.List)):
        out = []
        for x in e.elts:
            out += _classes_of(repo, f, x) or []
        return out
    return None


class ClassDispatch:
    """isinstance tests on the element of one loop, decided together for a given class of the element (class valuation):
    whatever shape the dispatch has (if/elif chain, separate ifs, a helper function, a tuple-of-types pre-test), the statements
    executed for an element of class K are the nodes reachable when every test isinstance(elem, C) has the value `C in mro(K)`."""

    def __init__(self, repo: Repo, f: FuncInfo, p, loop: ast.For):
        self.repo, self.f, self.p, self.loop = repo, f, p, loop
        elem = {x + ("elem",) for x in p.trace(loop.iter)}
        self.tests: Dict[int, List[str]] = {}
        for n in ast.walk(loop):
            if isinstance(n, ast.Call) and isinstance(n.func, ast.Name) and n.func.id == "isinstance" and len(n.args) == 2:
                try:
                    tr = p.trace(n.args[0])
                except KeyError:
                    continue
                if tr and tr <= elem:
                    cs = _classes_of(repo, f, n.args[1])
                    if cs:
                        self.tests[id(n)] = cs
        self.G = L.Guards(f, lambda e: f"isa{id(e)}" if id(e) in self.tests else None)
        self.g = self.G.g
        self.inside = {self.g.node_containing(x) if not isinstance(x, ast.stmt) else self.g.node_of(x) for x in ast.walk(loop) if isinstance(x, ast.stmt)}
        self.inside.discard(None)

    def valuation(self, cls: str) -> Dict[str, bool]:
        mro = self.repo.mro(cls)
        return {f"isa{i}": any(c in mro for c in cs) for i, cs in self.tests.items()}

    def reach(self, cls: str) -> Set[int]:
        """nodes of the loop body executed for an element of class `cls`"""
        return self.G.reach(self.valuation(cls)) & self.inside

    def under(self, cls: str, extra: Optional[Dict[str, bool]] = None):
        v = self.valuation(cls)
        v.update(extra or {})
        return self.G.under(v)

    def matches_any(self, cls: str) -> bool:
        return any(self.valuation(cls).values())


def _inner_loops(loop: ast.For) -> List[ast.For]:
    return [n for n in ast.walk(loop) if isinstance(n, ast.For) and n is not loop]


def rule_translate(repo: Repo, rid: str = "C02.translate") -> RuleResult:
    r = RuleResult(rid, "each operand class of the data model is translated into the grounded condition (attached with add_condition) or is rejected",
                   "literals, numeric conditions, nested and quantified conditions all take part in the instantiated precondition")
    for spec, tag in ((GROUND, ""), (EVAL, "forall-")):
        f = L.fn(repo, spec)
        p = L.prov(repo, f)
        g = C.cfg_of(f.node)
        loops = [lp for lp in _operand_loops(f, p) if any(callee_name(c) == "add_condition" for c in L.calls_in(lp))]
        # the innermost translation loops only
        loops = [lp for lp in loops if not any(x in loops for x in _inner_loops(lp))]
        if len(loops) != 1:
            raise AnalysisError(f"{spec}: the loop that translates the lifted operands (add_condition inside a loop over .operands) was not found "
                                f"({len(loops)} candidates)")
        loop = loops[0]
        D = ClassDispatch(repo, f, p, loop)
        if not D.tests:
            raise AnalysisError(f"{spec}: isinstance dispatch on the operand not recognised")
        elem = {x + ("elem",) for x in p.trace(loop.iter)}
        latent = False
        if tag:
            # is the forall translation reachable at all from the evaluator's own dispatch?
            outer = [lp for lp in _operand_loops(f, p) if any(x is loop for x in ast.walk(lp)) and lp is not loop]
            if outer:
                OD = ClassDispatch(repo, f, p, outer[0])
                head = g.node_of(loop)
                latent = not any(head in OD.G.reach(OD.valuation(k)) for k in EVAL_CLASSES)
        for cls in MODEL_CLASSES:
            r.site(f"{f.qn} [{tag}{cls}]")
            seen = D.reach(cls)
            attach = reject = False
            for n in seen:
                st = g.stmt[n]
                if g.kind[n] == "raise":
                    reject = True
                hdr = C.header(st) if st is not None else None
                if hdr is None:
                    continue
                for c in L.calls_in(hdr):
                    if callee_name(c) == "add_condition" and isinstance(c.func, ast.Attribute) and c.args:
                        recv, arg = p.trace(c.func.value), p.trace(c.args[0])
                        to_out = bool(recv) and not any(x[:len(e)] == e for x in recv for e in elem)
                        from_operand = any(any(x[:len(e)] == e for e in elem) for x in arg)
                        if to_out and from_operand:
                            attach = True
            sample = {"function": f.qn, "class": cls, "attached": attach, "rejected": reject}
            if attach or reject:
                r.ok(sample)
            elif D.matches_any(cls):
                r.fail(Finding(rid, f, f"{tag}arm:{cls}", f"an operand of class {cls} is handled by the dispatch but no translated condition is attached to the "
                               f"grounded condition (no add_condition on the output) and nothing is raised: the condition is ignored", node=loop, latent=latent), sample)
            else:
                r.fail(Finding(rid, f, f"{tag}arm:else:{cls}", f"an operand of class {cls} matches no arm and there is no rejecting else: it is silently left out "
                               f"of the grounded condition", node=loop, latent=latent), sample)
    r.require_sites(8)
    return r


# --------------------------------------------------------------------------- the evaluator's folds
class Fold:
    def __init__(self, stmt: ast.Assign, acc: str, call: ast.Call):
        self.stmt, self.acc, self.call = stmt, acc, call


def _is_table_call(p, call: ast.Call) -> bool:
    """BinaryOperator[k](a, b), also through a local alias `combine = BinaryOperator[k]`"""
    try:
        tr = p.trace(call.func)
    except KeyError:
        return False
    return bool(tr) and all(x[0] == "global:BinaryOperator" and x[1:] in (("item",), ("call:get",), ("call:__getitem__",)) for x in tr if "askey" not in x)


def _table_key(p, call: ast.Call):
    """provenance of the key the operator table is indexed with"""
    return {x[:-1] for x in p.trace(call.func, keys=True) if x and x[-1] == "askey"} | \
           {x[:-2] for x in p.trace(call.func, keys=True) if len(x) > 1 and x[-2].startswith("arg0:")}


def _evaluation_loops(repo: Repo, f: FuncInfo, p):
    """[(loop, accumulator name, [folds], context)]: loops over .operands that fold into an accumulator"""
    pm = L.parents_of(f)
    ops = _operand_loops(f, p)
    out = []
    g = C.cfg_of(f.node)

    def resolve_all(e, depth=0):
        """the defining expressions of a local name (followed through copies and results of helpers analysed in place)"""
        if isinstance(e, ast.Name) and depth < 8:
            try:
                at = p.node_of(e)
            except KeyError:
                return [e]
            defs = [d for d in p.rd.defs_reaching(at, e.id) if d != g.entry]
            out = []
            for d in defs:
                st = g.stmt[d]
                if isinstance(st, (ast.Assign, ast.AnnAssign)) and st.value is not None and \
                        (isinstance(st, ast.AnnAssign) or (len(st.targets) == 1 and isinstance(st.targets[0], ast.Name))):
                    out += resolve_all(st.value, depth + 1)
                else:
                    out.append(e)
            return out or [e]
        return [e]

    def resolve(e):
        """the table call among the definitions (a sentinel / default among them is filtered by a test the fold does not depend on)"""
        cands = [c for c in resolve_all(e) if isinstance(c, ast.Call) and len(c.args) == 2 and _is_table_call(p, c)]
        return cands or [e]

    for lp in ops:
        folds = []
        for n in ast.walk(lp):
            if isinstance(n, ast.Assign) and len(n.targets) == 1 and isinstance(n.targets[0], ast.Name):
                calls = [c for c in resolve(n.value) if isinstance(c, ast.Call) and len(c.args) == 2 and _is_table_call(p, c)]
                if not calls:
                    continue
                # nearest enclosing operand loop must be lp
                cur, near = n, None
                while cur in pm:
                    cur = pm[cur]
                    if cur in ops:
                        near = cur
                        break
                if near is not lp:
                    continue
                acc_name = n.targets[0].id
                for call in calls:
                    if _resolves_to(p, g, call.args[0], acc_name):
                        folds.append(Fold(n, acc_name, call))
        if folds:
            accs = {x.acc for x in folds}
            if len(accs) != 1:
                raise AnalysisError(f"{f.qn}: several accumulators {sorted(accs)} in one evaluation loop")
            ctx = "forall" if any(isinstance(x, ast.For) and any("problem_objects" in s_ for t in p.trace(x.iter) for s_ in t) for x in _anc(pm, lp)) else "compound"
            out.append((lp, accs.pop(), folds, ctx))
    return out


def _anc(pm, n):
    cur = n
    while cur in pm:
        cur = pm[cur]
        yield cur


def _evaluator(repo: Repo):
    f = L.fn(repo, EVAL)
    p = L.prov(repo, f)
    loops = _evaluation_loops(repo, f, p)
    if not any(ctx == "compound" for _l, _a, _f, ctx in loops):
        raise AnalysisError(f"{EVAL}: accumulator fold over the operands (acc = BinaryOperator[op](acc, value)) not recognised")
    return f, p, loops


def rule_literal(repo: Repo) -> RuleResult:
    r = RuleResult("C02.literal", "a positive literal holds iff its ground text is in the state, a negative one iff the positive text is not",
                   "positive and negative literals by (non-)membership")
    f, p, loops = _evaluator(repo)
    g = C.cfg_of(f.node)
    if "state" not in f.params:
        raise AnalysisError(f"{EVAL}: parameter 'state' not found")
    members: Dict[int, Tuple[str, ast.AST]] = {}

    def lit_matcher(e):
        if isinstance(e, ast.Attribute) and e.attr == "is_positive" and isinstance(e.ctx, ast.Load):
            return "pos"
        if isinstance(e, ast.Compare) and len(e.ops) == 1 and isinstance(e.ops[0], (ast.In, ast.NotIn)):
            try:
                rhs = p.trace(e.comparators[0])
            except KeyError:
                return None
            if any(x[0] == "param:state" for x in rhs):
                members[id(e)] = ("in" if isinstance(e.ops[0], ast.In) else "not in", e)
                return "member" if isinstance(e.ops[0], ast.In) else "!member"
        return None

    done = False
    for loop, acc, folds, ctx in loops:
        if ctx != "compound":
            continue
        D = ClassDispatch(repo, f, p, loop)
        both = lambda e, D=D: (f"isa{id(e)}" if id(e) in D.tests else lit_matcher(e))
        G = L.Guards(f, both)
        cv = D.valuation("GroundedPredicate")
        # the literal's value: second argument of the innermost table call executed for a GroundedPredicate operand
        seen0 = G.reach(cv)
        cands = [c for c in L.calls_in(loop) if len(c.args) == 2 and _is_table_call(p, c) and g.node_containing(c) in seen0]
        inner = []
        for c in cands:
            v = G.value(cv, c.args[1], seen0)
            if not (isinstance(v, ast.Call) and _is_table_call(p, v)):
                inner.append(c)
        if len(inner) != 1:
            raise AnalysisError(f"{EVAL}: the fold of a literal's truth value was not recognised ({len(inner)} candidates)")
        call = inner[0]
        lit = call.args[1]
        r.site(f.qn + " [truth value]")
        table, bad = {}, []
        for pos, mem in itertools.product([False, True], repeat=2):
            val = dict(cv)
            val.update({"pos": pos, "member": mem})
            v = G.value(val, lit)
            table[f"is_positive={pos},fact_in_state={mem}"] = v if isinstance(v, bool) else None
            if v is not (mem if pos else (not mem)):
                bad.append((pos, mem, v if isinstance(v, bool) else "undecided"))
        if bad and all(v is None for v in table.values()):
            raise AnalysisError(f"{EVAL}: the truth value of a literal ({unparse(lit, 60)}) is not built from is_positive / membership tests that the analysis can read")
        if bad:
            r.fail(Finding("C02.literal", f, "literal-truth", f"literal value differs from (is_positive ? member : not member): {table}", node=lit), table)
        else:
            r.ok(table)
        # which texts are tested
        r.site(f.qn + " [tested text]")
        elem = {x + ("elem",) for x in p.trace(loop.iter)}
        okpos = okneg = False
        forced = []
        for n in ast.walk(f.node):
            if isinstance(n, ast.Assign) and any(isinstance(t, ast.Attribute) and t.attr == "is_positive" for t in n.targets) and \
                    isinstance(n.value, ast.Constant) and n.value.value is True:
                for t in n.targets:
                    forced.append(frozenset(p.trace(t.value)))
        # the text that is looked up in the state, per polarity of the literal (whatever the spelling of the test: `t in s`, `t not in s`,
        # `(t in s) is expected` with t chosen by the polarity)
        n_live = 0
        for pos in (False, True):
            val = dict(cv)
            val["pos"] = pos
            sn = G.reach(val)
            under = G.under(val, sn)
            oks = []
            for kind, e in members.values():
                if not (G.reaches_expr(val, e, seen=sn) and any(e is x for x in ast.walk(loop))):
                    continue
                n_live += 1
                left = p.trace(e.left, under=under)
                recv = {x[:-1] for x in left if x and x[-1] == "attr:untyped_representation"}
                if pos:
                    oks.append(bool(recv) and recv <= elem)
                else:
                    oks.append(bool(recv) and all("call:copy" in x for x in recv) and any(frozenset(recv) == fz for fz in forced))
            if pos:
                okpos = bool(oks) and all(oks)
            else:
                okneg = bool(oks) and all(oks)
        if not n_live:
            raise AnalysisError(f"{EVAL}: no membership test on the state is visible for a literal operand")
        if okpos and okneg:
            r.ok({"positive_branch_tests": "operand.untyped_representation", "negative_branch_tests": "text of the copy forced to is_positive=True"})
        else:
            r.fail(Finding("C02.literal", f, "literal-text", f"tested texts: positive branch ok={okpos}, negative branch tests the positive text={okneg}"))
        # the operator of the fold is the enclosing node's operator and the accumulator is the incoming one
        r.site(f.qn + " [fold]")
        key = _table_key(p, call)
        node_src = {x[:-1] for x in p.trace(loop.iter) if x[-1] == "attr:operands"}
        acc_tr = p.trace(call.args[0])
        acc_ok = bool(acc_tr) and all(any(s_.startswith("arg") or s_ in ("call:all",) or s_.startswith("const:") or True for s_ in x) for x in acc_tr)
        acc_def = _resolves_to(p, g, call.args[0], acc)
        if key and all(x[-1] == "attr:binary_operator" and x[:-1] in node_src for x in key) and acc_def:
            r.ok({"fold": "BinaryOperator[<this node>.binary_operator](<accumulator>, literal)"})
        else:
            r.fail(Finding("C02.literal", f, "literal-fold", f"fold uses operator {sorted(key)[:2]} and accumulator {unparse(call.args[0])}"))
        done = True
        break
    if not done:
        raise AnalysisError(f"{EVAL}: compound evaluation loop not found")
    r.require_sites(3)
    return r


def _resolves_to(p, g, e: ast.AST, name: str, depth: int = 0) -> bool:
    """the expression is the variable `name` or a chain of plain copies of it"""
    if not isinstance(e, ast.Name) or depth > 6:
        return False
    if e.id == name:
        return True
    try:
        at = p.node_of(e)
    except KeyError:
        return False
    defs = p.rd.defs_reaching(at, e.id)
    if not defs:
        return False
    for d in defs:
        st = g.stmt[d] if d != g.entry else None
        if not (isinstance(st, (ast.Assign, ast.AnnAssign)) and st.value is not None and _resolves_to(p, g, st.value, name, depth + 1)):
            return False
    return True


def rule_foldid(repo: Repo) -> RuleResult:
    r = RuleResult("C02.foldid", "a fold whose operator is chosen at run time from {and, or} starts from that operator's identity",
                   "or is true only if some disjunct is; an empty and is true")
    f, p, loops = _evaluator(repo)
    g = C.cfg_of(f.node)
    dead_forall = _forall_dead(repo, f, p, loops)
    for loop, acc, folds, ctx in loops:
        r.site(f"{f.qn} [{ctx}: initial value of the accumulator]")
        head = g.node_of(loop)
        keyp = _table_key(p, folds[0].call)
        dynamic = any("attr:binary_operator" in x for x in keyp)
        inits = _initial_values(p, g, loop, head, acc)
        if not inits:
            raise AnalysisError(f"{EVAL}: initialisation of the accumulator of the {ctx} evaluation loop not found")
        depends = True
        for init in inits:
            tr = p.trace(init.value)
            d = any("attr:binary_operator" in x for x in tr) or any(
                isinstance(c, ast.Compare) and any("attr:binary_operator" in x for sub in (c.left, *c.comparators) for x in _safe_trace(p, sub)) for c in ast.walk(init.value))
            # the initial value may itself be assigned under a test on the operator
            d = d or any(isinstance(a, ast.If) and any("attr:binary_operator" in x for sub in ast.walk(a.test) if isinstance(sub, ast.Attribute) for x in _safe_trace(p, sub))
                         for a in _anc(L.parents_of(f), init))
            depends = depends and d
        if not dynamic:
            r.ok({"context": ctx, "operator": "fixed"})
        elif depends:
            r.ok({"context": ctx, "initial_value": unparse(inits[0].value), "depends_on_operator": True})
        else:
            r.fail(Finding("C02.foldid", f, f"fold-init:or:{ctx}", f"the accumulator of the {ctx} evaluation starts from {unparse(inits[0].value, 60)} whatever the operator is: "
                           f"for 'or' the start value must be False, here a disjunction is true as soon as the (in)equalities hold", node=inits[0],
                           latent=(ctx == "forall" and dead_forall)))
    if not any(ctx == "forall" for _l, _a, _f, ctx in loops):
        # the quantified evaluation has no fold of its own that can be read here (it re-enters the shared step function recursively)
        r.site(f"{f.qn} [forall: evaluated by re-entering the fold of the compound evaluation]")
        r.ok({"context": "forall", "fold": "shared (recursive)"})
    r.require_sites(2)
    return r


def _initial_values(p, g, loop, head: int, acc: str) -> list:
    """the statements that give the accumulator its value before the first fold: definitions reaching the loop from outside it, followed
    through plain copies (a helper's parameter bound to the caller's accumulator, the helper's result copied back); what the folds
    themselves produce (definitions inside the loop, reached again around an enclosing loop) is not an initial value"""
    inside = {id(x) for x in ast.walk(loop)}
    out, done = [], set()
    work = [(acc, head)]
    while work:
        nm, at = work.pop()
        for d in p.rd.defs_reaching(at, nm):
            if d == g.entry or (nm, d) in done:
                continue
            done.add((nm, d))
            st = g.stmt[d]
            if id(st) in inside:
                continue
            if not (isinstance(st, (ast.Assign, ast.AnnAssign)) and st.value is not None):
                continue
            if isinstance(st, ast.Assign) and not (len(st.targets) == 1 and isinstance(st.targets[0], ast.Name)):
                continue
            v = st.value
            if isinstance(v, ast.Name) and [x for x in p.rd.defs_reaching(d, v.id) if x != g.entry]:
                work.append((v.id, d))
            else:
                out.append(st)
    return out


def _safe_trace(p, e):
    try:
        return p.trace(e)
    except KeyError:
        return set()


def _forall_dead(repo: Repo, f: FuncInfo, p, loops) -> bool:
    """is the forall evaluation unreachable from the compound dispatch (shadowed by a superclass test)?"""
    g = C.cfg_of(f.node)
    comp = [lp for lp, _a, _f, ctx in loops if ctx == "compound"]
    fa = [lp for lp, _a, _f, ctx in loops if ctx == "forall"]
    if not comp or not fa:
        return False
    D = ClassDispatch(repo, f, p, comp[0])
    head = g.node_of(fa[0])
    return not any(head in D.G.reach(D.valuation(k)) for k in EVAL_CLASSES)


def universal_path_dead(repo: Repo) -> bool:
    f, p, loops = _evaluator(repo)
    return _forall_dead(repo, f, p, loops)


def rule_foldarms(repo: Repo) -> RuleResult:
    r = RuleResult("C02.foldarms", "for every operand class the evaluator folds the operand's value into the accumulator with the current node's operator",
                   "and / or compositionally over all operands")
    f, p, loops = _evaluator(repo)
    g = C.cfg_of(f.node)
    loop, acc, folds, _ctx = [x for x in loops if x[3] == "compound"][0]
    D = ClassDispatch(repo, f, p, loop)
    if not D.tests:
        raise AnalysisError(f"{EVAL}: isinstance dispatch of the evaluator not recognised")
    fold_ids = {id(x.stmt) for x in folds}
    folds_of: Dict[int, list] = {}
    for x in folds:
        folds_of.setdefault(id(x.stmt), []).append(x)
    node_src = {x[:-1] for x in p.trace(loop.iter) if x[-1] == "attr:operands"}
    elem = {x + ("elem",) for x in p.trace(loop.iter)}
    pm = L.parents_of(f)
    ops = _operand_loops(f, p)

    def nearest_is_loop(n) -> bool:
        for a in _anc(pm, n):
            if a in ops:
                return a is loop
        return False

    for cls in EVAL_CLASSES:
        r.site(f"{f.qn} [operand class {cls}]")
        seen = D.reach(cls)
        assigns = [g.stmt[n] for n in seen if isinstance(g.stmt[n], ast.Assign) and any(isinstance(t, ast.Name) and t.id == acc for t in g.stmt[n].targets)
                   and nearest_is_loop(g.stmt[n])]
        raises = any(g.kind[n] == "raise" for n in seen)
        if not assigns:
            if raises and not D.matches_any(cls):
                r.ok({"class": cls, "rejected": True})
            else:
                r.fail(Finding("C02.foldarms", f, f"arm-no-fold:{cls}", f"an operand of class {cls} does not update the accumulator", node=loop))
            continue
        bad = [s_ for s_ in assigns if id(s_) not in fold_ids]
        # the fold calls that are executed for this class (one accumulator assignment may take its value from several arms)
        live = [x for s_ in assigns for x in folds_of.get(id(s_), []) if g.node_containing(x.call) in seen]
        if not bad and not live:
            bad = assigns[:1]
        key_ok = all(all(x[-1] == "attr:binary_operator" and x[:-1] in node_src for x in _table_key(p, x_.call)) and _table_key(p, x_.call) for x_ in live)
        if bad:
            r.fail(Finding("C02.foldarms", f, f"arm-overwrites:{cls}", f"for an operand of class {cls} the accumulator is overwritten "
                           f"({unparse(bad[0], 70)}) instead of folded: the value of earlier operands is lost", node=bad[0]))
        elif not key_ok:
            r.fail(Finding("C02.foldarms", f, f"arm-operator:{cls}", "the fold does not use the current node's operator", node=assigns[0]))
        else:
            wrong = [x_ for x_ in live if not any(any(x[:len(e)] == e for e in elem) for x in p.trace(x_.call.args[1]))]
            if not wrong:
                r.ok({"class": cls, "folds": unparse(live[0].call.args[1], 60)})
            else:
                r.fail(Finding("C02.foldarms", f, f"arm-value:{cls}", "the folded value does not derive from the operand", node=wrong[0].stmt))
    r.site(f"{f.qn} [else]")
    # an element of a class that no test accepts must be rejected
    none = {a: False for a in D.valuation("object")}
    seen = D.G.reach(none) & D.inside
    if any(g.kind[n] == "raise" for n in seen):
        r.ok({"else": "raise"})
    else:
        r.fail(Finding("C02.foldarms", f, "else-not-rejecting", "an operand of an unknown class is skipped silently by the evaluator"))
    # result is the accumulator
    r.site(f"{f.qn} [result]")
    rets = L.func_returns(f)
    if rets and all(x.value is not None and _resolves_to(p, g, x.value, acc) for x in rets):
        r.ok({"returns": acc})
    else:
        r.fail(Finding("C02.foldarms", f, "result", "the evaluator does not return the accumulator"))
    r.require_sites(5)
    return r


def _pair_compare(p, e: ast.AST):
    """('eq'|'ne', field) when e compares the two components of an element of <x>.equality_preconditions / inequality_preconditions"""
    neg = False
    while isinstance(e, ast.UnaryOp) and isinstance(e.op, ast.Not):
        e, neg = e.operand, not neg
    if not (isinstance(e, ast.Compare) and len(e.ops) == 1 and isinstance(e.ops[0], (ast.Eq, ast.NotEq))):
        return None
    a, b = _safe_trace(p, e.left), _safe_trace(p, e.comparators[0])
    for fld in ("inequality_preconditions", "equality_preconditions"):
        fa = [x for x in a if f"attr:{fld}" in x and x[-2:] in (("elem", "unpack:0"), ("elem", "unpack:1"))]
        fb = [x for x in b if f"attr:{fld}" in x and x[-2:] in (("elem", "unpack:0"), ("elem", "unpack:1"))]
        if fa and fb and len(fa) == len(a) and len(fb) == len(b) and {x[-1] for x in fa} != {x[-1] for x in fb}:
            eq = isinstance(e.ops[0], ast.Eq) != neg
            return ("eq" if eq else "ne", fld)
    return None


def rule_equality(repo: Repo) -> RuleResult:
    r = RuleResult("C02.equality", "all equality pairs compared with ==, all inequality pairs with !=, conjoined", "(in)equality by object identity")
    f, p, loops = _evaluator(repo)
    g = C.cfg_of(f.node)
    r.site(f.qn + " [pair tests]")
    atoms: Dict[int, str] = {}
    wrong = []
    for c in L.calls_in(f.node):
        if callee_name(c) in ("all", "any") and len(c.args) == 1 and isinstance(c.args[0], (ast.ListComp, ast.GeneratorExp, ast.SetComp)):
            comp = c.args[0]
            pc = _pair_compare(p, comp.elt)
            if pc is None:
                continue
            kind, fld = pc
            want = "eq" if fld == "equality_preconditions" else "ne"
            atom = "E" if fld == "equality_preconditions" else "I"
            if any(g_.ifs for g_ in comp.generators):
                wrong.append((c, callee_name(c), kind, fld))
            elif callee_name(c) == "all" and kind == want:
                atoms[id(c)] = atom
            elif callee_name(c) == "any" and kind != want:
                atoms[id(c)] = "!" + atom            # some pair violates the constraint
            else:
                wrong.append((c, callee_name(c), kind, fld))
    found = {a.lstrip("!") for a in atoms.values()}
    if not wrong and not found:
        raise AnalysisError(f"{EVAL}: the tests of the (in)equality pairs (all / any over equality_preconditions, inequality_preconditions) were not recognised")
    if wrong or found != {"E", "I"}:
        r.fail(Finding("C02.equality", f, "equality-semantics", f"(in)equality evaluation is not all(==) over the equalities and all(!=) over the inequalities: "
                       f"recognised {sorted(found)}, other tests {[(w[1], w[2], w[3]) for w in wrong][:2]}", node=wrong[0][0] if wrong else None))
    else:
        r.ok({"equalities": "all(a == b)", "inequalities": "all(a != b)"})
    # the accumulator of the compound evaluation starts from (E and I)
    r.site(f.qn + " [conjoined]")
    loop, acc, folds, _ctx = [x for x in loops if x[3] == "compound"][0]
    head = g.node_of(loop)
    inits = [g.stmt[d] for d in p.rd.defs_reaching(head, acc) if d != g.entry and not any(g.stmt[d] is x for x in ast.walk(loop))]
    G = L.Guards(f, lambda e: atoms.get(id(e)))
    bad = []
    if found == {"E", "I"} and not wrong:
        for E, I in itertools.product([False, True], repeat=2):
            seen = G.reach({"E": E, "I": I})
            vals = set()
            for st in inits:
                if g.node_of(st) in seen and isinstance(st, (ast.Assign, ast.AnnAssign)) and st.value is not None:
                    vals.add(_as_bool(G.value({"E": E, "I": I}, st.value, seen)))
            if vals != {E and I}:
                bad.append((E, I, sorted(map(str, vals))))
        if bad:
            r.fail(Finding("C02.equality", f, "equality-semantics", f"the evaluation does not start from (all equalities hold) and (all inequalities hold): "
                           f"(E, I, start value) = {bad[:2]}"))
        else:
            r.ok({"combined_by": "and", "start_value_of_the_fold": "E and I"})
    # grounding of the pairs maps both components
    k = L.fn(repo, GROUND)
    pk = L.prov(repo, k)
    r.site(k.qn + " [pair grounding]")
    okf = {}
    filtered: list = []
    for n in ast.walk(k.node):
        if isinstance(n, ast.Tuple) and len(n.elts) == 2 and isinstance(n.ctx, ast.Load):
            try:
                t0, t1 = [pk.trace(x, keys=True) for x in n.elts]
            except KeyError:
                continue
            for fld in ("equality_preconditions", "inequality_preconditions"):
                via0 = any(x[0] == "param:parameters_map" and "item" in x and "askey" not in x for x in t0)
                via1 = any(x[0] == "param:parameters_map" and "item" in x and "askey" not in x for x in t1)
                k0 = {x[-2] for x in t0 if "askey" in x and f"attr:{fld}" in x and len(x) > 2 and x[-1] == "askey" and x[-2].startswith("unpack:")}
                k1 = {x[-2] for x in t1 if "askey" in x and f"attr:{fld}" in x and len(x) > 2 and x[-1] == "askey" and x[-2].startswith("unpack:")}
                if via0 and via1 and k0 == {"unpack:0"} and k1 == {"unpack:1"}:
                    okf[fld] = True
                    # every pair must be grounded: no filter on the way
                    pass
    # every pair must be grounded: no test on the pairs (or their grounded images) may decide whether one is kept
    for fld in ("equality_preconditions", "inequality_preconditions"):
        tests = [(t, n) for n in ast.walk(k.node) if isinstance(n, (ast.SetComp, ast.ListComp, ast.GeneratorExp, ast.DictComp)) for g_ in n.generators for t in g_.ifs]
        tests += [(n.test, n) for n in ast.walk(k.node) if isinstance(n, (ast.If, ast.IfExp)) and not getattr(n, "_inline_block", False)]
        for t, owner_ in tests:
            hit = False
            for sub in ast.walk(t):
                if isinstance(sub, (ast.Name, ast.Subscript, ast.Attribute)) and isinstance(getattr(sub, "ctx", None), ast.Load):
                    try:
                        trk = pk.trace(sub, keys=True)
                    except KeyError:
                        trk = set()
                    if any(f"attr:{fld}" in x and "elem" in x for x in trk):
                        hit = True
            if hit:
                filtered.append((fld, owner_))
    if filtered:
        r.fail(Finding("C02.equality", k, "pair-filtered", f"some (in)equality pairs are dropped while grounding ({unparse(filtered[0][1], 70)}): a constraint such as "
                       f"(not (= ?x ?y)) called with the same object twice disappears", node=filtered[0][1]))
    elif okf.get("equality_preconditions") and okf.get("inequality_preconditions"):
        r.ok({"grounding": "(map[a], map[b]) for (a, b) in pairs"})
    else:
        r.fail(Finding("C02.equality", k, "pair-grounding", f"(in)equality pairs are not grounded component-wise in order (recognised for {sorted(okf)})"))
    r.require_sites(3)
    return r


def _as_bool(v):
    return v if isinstance(v, bool) else None


def rule_passthrough(repo: Repo) -> RuleResult:
    r = RuleResult("C02.passthrough", "Operator.is_applicable grounds first and returns the grounded precondition's answer for (state, problem objects)",
                   "applicable exactly when the instantiated precondition is true")
    f = L.fn(repo, "Operator.is_applicable")
    p = L.prov(repo, f)
    g = C.cfg_of(f.node)
    r.site(f.qn + " [result]")
    rets = L.func_returns(f)
    ok = bool(rets)
    for ret in rets:
        v = ret.value
        if not (isinstance(v, ast.Call) and callee_name(v) == "is_applicable" and any(x == ("self", "attr:grounded_preconditions") for x in p.trace(v.func.value))):
            ok = False
            continue
        gp = repo.func("GroundedPrecondition.is_applicable")
        a0, a1 = L.arg_of(v, gp, "state"), L.arg_of(v, gp, "problem_objects")
        if not (a0 is not None and all(x == ("param:state",) for x in p.trace(a0)) and a1 is not None and
                all(x == ("self", "attr:problem_objects") for x in p.trace(a1))):
            ok = False
    if ok:
        r.ok({"returns": "self.grounded_preconditions.is_applicable(state, self.problem_objects)"})
    else:
        r.fail(Finding("C02.passthrough", f, "result", "is_applicable does not return grounded_preconditions.is_applicable(state, problem_objects) unchanged"))
    r.site(f.qn + " [grounds first]")
    G = L.Guards(f, lambda e: "grounded" if isinstance(e, ast.Attribute) and e.attr == "grounded" else None)
    gcalls = {g.node_containing(c) for c in L.calls_in(f.node) if callee_name(c) == "ground"}
    seen = G.reach({"grounded": False}, avoid=gcalls)
    if gcalls and not any(g.kind[n] == "return" for n in seen):
        r.ok({"ungrounded_operator": "ground() precedes the answer"})
    else:
        r.fail(Finding("C02.passthrough", f, "ground-first", "an operator that is not grounded yet can answer without grounding"))
    h, ph, loops = _evaluator(repo)
    r.site(h.qn)
    comp = [lp for lp, _a, _f, ctx in loops if ctx == "compound"]
    fa_obj = [n for n in ast.walk(h.node) if isinstance(n, ast.For) and any(x[0] == "param:problem_objects" for x in ph.trace(n.iter))]
    root_ok = bool(comp) and all(x == ("self", "attr:_grounded_precondition", "attr:root", "attr:operands") for x in ph.trace(comp[0].iter))
    states = [c for c in L.calls_in(h.node) if callee_name(c) in ("serialize", "set_expression_value")]
    state_ok = bool(states) and all(any(x[0] == "param:state" for x in ph.trace(c.func.value if callee_name(c) == "serialize" else c.args[1])) for c in states
                                    if callee_name(c) == "serialize" or len(c.args) > 1)
    if not states:
        raise AnalysisError(f"{EVAL}: no evaluation against the state (serialize / set_expression_value) is visible")
    if root_ok and state_ok and fa_obj:
        r.ok({"evaluates": "the grounded root on (state, problem_objects)"})
    else:
        r.fail(Finding("C02.passthrough", h, "result", f"GroundedPrecondition.is_applicable does not evaluate its grounded root on (state, problem_objects) "
                       f"(root={root_ok}, state={state_ok}, objects={bool(fa_obj)})"))
    # ground(): parameter map = zip(signature, call objects); preconditions grounded from the action's preconditions
    k = L.fn(repo, "Operator.ground")
    pk = L.prov(repo, k)
    r.site(k.qn)
    gp_ctor = [c for c in L.calls_in(k.node) if callee_name(c) == "GroundedPrecondition"]
    gcall = [c for c in L.calls_in(k.node) if callee_name(c) == "ground_preconditions"]
    ok = bool(gp_ctor) and bool(gcall)
    if ok:
        init = repo.find_method("GroundedPrecondition", "__init__")
        lp = L.arg_of(gp_ctor[0], init, "lifted_precondition")
        ok = lp is not None and any(x == ("self", "attr:action", "attr:preconditions") for x in pk.trace(lp))
    if ok:
        r.ok({"grounded_from": "self.action.preconditions"})
    else:
        r.fail(Finding("C02.passthrough", k, "ground-source", "the grounded precondition is not built from the action's precondition"))
    r.require_sites(4)
    return r


def rule_groundall(repo: Repo) -> RuleResult:
    r = RuleResult("C02.groundall", "ground_preconditions grounds the equality pairs, the inequality pairs and the operands on every path",
                   "(in)equality by object identity is part of every instantiated precondition")
    f = L.fn(repo, GROUND)
    g = C.cfg_of(f.node)
    p = L.prov(repo, f)
    dom = C.dominators(g)
    exits = [n for n, _ in g.pred[g.exit]]
    need = {}
    for fld in ("equality_preconditions", "inequality_preconditions"):
        nodes = []
        for n in g.nodes():
            st = g.stmt[n]
            if isinstance(st, ast.Assign) and any(isinstance(t, ast.Attribute) and t.attr == fld and
                                                  any(x[:3] == ("self", "attr:_grounded_precondition", "attr:root") for x in p.trace(t.value)) for t in st.targets):
                tr = p.trace(st.value, keys=True)
                if any(x[:3] == ("self", "attr:_lifted_precondition", "attr:root") and f"attr:{fld}" in x for x in tr) and \
                        any(x[0] == "param:parameters_map" for x in tr):
                    nodes.append(n)
        need[fld] = nodes
    loops = [lp for lp in _operand_loops(f, p) if all(x == ("self", "attr:_lifted_precondition", "attr:root", "attr:operands") for x in p.trace(lp.iter))]
    need["operands (_ground)"] = [g.node_of(lp) for lp in loops]
    for what, nodes in need.items():
        r.site(f"{f.qn} [{what}]")
        if nodes and exits and all(dom[e] & set(nodes) for e in exits):
            r.ok({"grounded_on_every_path": what})
        elif not nodes:
            r.fail(Finding("C02.groundall", f, f"never-grounded:{what}", f"{what} of the lifted precondition are never grounded into the grounded precondition"))
        else:
            r.fail(Finding("C02.groundall", f, f"path-skips:{what}", f"a path through ground_preconditions ends without grounding the {what} "
                           f"(e.g. an early return): constraints such as (not (= ?x ?y)) are then vacuously true"))
    # wiring of the translation: operands of the lifted root are attached to the grounded root, with the given parameter map
    r.site(f"{f.qn} [_ground arguments]")
    ok = False
    for lp in loops:
        adds = [c for c in L.calls_in(lp) if callee_name(c) == "add_condition" and isinstance(c.func, ast.Attribute)]
        to_root = any(all(x == ("self", "attr:_grounded_precondition", "attr:root") for x in p.trace(c.func.value)) and p.trace(c.func.value) for c in adds)
        gcalls = [c for c in L.calls_in(lp) if callee_name(c) in ("ground_predicate", "ground_numeric_calculation_tree") and len(c.args) > 1]
        with_map = bool(gcalls) and all(all(x == ("param:parameters_map",) for x in p.trace(c.args[1])) for c in gcalls)
        ok = ok or (to_root and with_map)
    if ok:
        r.ok({"_ground": "(lifted root, grounded root, parameters_map)"})
    else:
        r.fail(Finding("C02.groundall", f, "ground-arguments", "the operands of the lifted root are not translated into the grounded root with the given parameter map"))
    r.require_sites(4)
    return r


def rule_keyerror(repo: Repo) -> RuleResult:
    r = RuleResult("C02.keyerror", "a failure while evaluating a numeric condition yields False, never True", "an evaluation failure must not make a condition true")
    f = L.fn(repo, EVAL)
    r.site(f.qn)
    bad = []
    handlers = 0
    for n in ast.walk(f.node):
        if isinstance(n, ast.Try) and not any(callee_name(c) in ("evaluate_expression", "set_expression_value") for st in n.body for c in L.calls_in(st)):
            continue
        for n in (n.handlers if isinstance(n, ast.Try) else []):
            handlers += 1
            for s in C.stmts_in(n.body):
                if isinstance(s, ast.Assign) and isinstance(s.value, ast.Constant) and s.value.value is not False:
                    bad.append(s)
                if isinstance(s, ast.Return) and isinstance(s.value, ast.Constant) and s.value.value is not False:
                    bad.append(s)
    if bad:
        r.fail(Finding("C02.keyerror", f, "handler-true", f"the exception handler yields {unparse(bad[0])}", node=bad[0]))
    elif not handlers and not any(callee_name(c) in ("evaluate_expression", "set_expression_value") for c in L.calls_in(f.node)):
        raise AnalysisError(f"{EVAL}: the evaluation of numeric conditions (evaluate_expression) is not visible")
    elif not handlers:
        r.fail(Finding("C02.keyerror", f, "handler-missing", "a fluent that is missing from the state is not handled while a numeric condition is evaluated"))
    else:
        r.ok({"handler": "False"})
    # the comparison is evaluated on the state's fluents
    p = L.prov(repo, f)
    r.site(f.qn + " [environment]")
    sv = [c for c in L.calls_in(f.node) if callee_name(c) == "set_expression_value"]
    is_root = lambda tr: any(len(x) >= 3 and x[-1] == "attr:root" and x[-2] == "elem" and x[-3] == "attr:operands" for x in tr)
    ok = any(any(x == ("param:state", "attr:state_fluents") for x in p.trace(c.args[1])) and is_root(p.trace(c.args[0])) for c in sv if len(c.args) > 1)
    ev = [c for c in L.calls_in(f.node) if callee_name(c) == "evaluate_expression"]
    ok = ok and any(is_root(p.trace(c.args[0])) for c in ev if c.args)
    if ok:
        r.ok({"evaluated_on": "state.state_fluents"})
    else:
        r.fail(Finding("C02.keyerror", f, "environment", "the numeric condition is not evaluated on the fluents of the given state"))
    r.require_sites(2)
    return r


def rules(repo: Repo, tier: str) -> List[RuleResult]:
    return [rule_tables(repo), c12.rule_compare(repo), rule_translate(repo), rule_literal(repo), rule_foldid(repo), rule_foldarms(repo),
            rule_equality(repo), c06.rule_range(repo, "C02.range", "GroundedPrecondition.is_applicable"),
            c06.rule_conform(repo, "C02.conform", only_funcs=(EVAL,), floor=0),
            rule_passthrough(repo), rule_groundall(repo), rule_keyerror(repo),
            # the numeric conditions are evaluated on the values of THIS state: the walk that copies them into the tree reaches every leaf
            c12.rule_leaf(repo).as_rule("C02.readstate"), c12.rule_missing(repo, "C02.missing")] + _grounding_rules(repo)


def _grounding_rules(repo: Repo) -> List[RuleResult]:
    """the instantiated precondition is the schema's with arguments substituted POSITION BY POSITION (C20): a numeric condition that reads
    (dist p1 base) where (dist base p1) was written is evaluated on another fluent"""
    from . import c20
    return [c20.rule_positional(repo).as_rule("C02.ground.positional"), c20.rule_constants(repo).as_rule("C02.ground.constants")]
